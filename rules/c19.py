#!/usr/bin/env python3
"""C19 — the Python module adds only JSON (de)serialisation around the library.

  K1  wrapper shape (Python `ast`, all paths of the two public functions):
      every optional callable parameter (default None) is rebound to its
      documented default (`json.dumps` / `json.loads`) on every path before it is
      called; the native `_apply` is called exactly once, with
      (serializer(value), serializer(data)) in `apply` and with
      (value, data if data is not None else "null") in `apply_serialized` —
      argument order, the `is None` test (not truthiness) and the literal "null";
      the function returns deserializer(<result of _apply>); `data` defaults to
      None; no try/except, no other call, no global/nonlocal; `_apply` is the
      `apply` of the extension module `.jsonlogic`; the ImportError shim re-raises
      off Windows; `__all__` exports exactly the two functions;
  K2  native boundary (MIR, feature `python`): the binding's inner function
      parses each argument with serde_json::from_str::<Value>, calls the
      library's apply(&rule, &data) in that order, returns Value::to_string of the
      Ok payload; each of the three errors is converted (map_err) and
      propagated, none dropped; the PyResult wrapper maps Err to
      PyErr::new::<ValueError,_> and constructs no other exception; the module
      initialiser exports it under the name "apply" as module `jsonlogic`;
  K3  setup.py builds the extension `jsonlogic_rs.jsonlogic` with feature `python`.
      the binding and the Display/Debug impls that render the library's error
      (followed through format arguments) contain no panic source;
  K4  Cargo manifest: enabling feature `python` changes the resolved feature set
      of no package the library itself is built from (cargo's resolver).
Panic-freedom of the library below the binding is C01 under the python config.
Not decided: json.dumps/json.loads round-trips of Python objects (library behaviour).
"""
import ast, os, re
from .core import callee_of, callee_path, strip_refs, strip_payload, show_expr, const_value, op_const, expr_mentions
from .engine import Inconclusive
from . import extract as ex
from . import errdisc
from . import optnorm

INLINE_SAFE = [r"^K2\.(serialises-result|wrapper)$"]     # stated on decision cases (values and conditions), not on which functions are called

PYFILE = "py/jsonlogic_rs/__init__.py"


def src_name(n):
    return ast.unparse(n) if n is not None else ""


class PyFn:
    def __init__(self, ctx, mod, fn, json_alias, native_name):
        self.ctx, self.mod, self.fn, self.json, self.native = ctx, mod, fn, json_alias, native_name
        self.where = "%s:%d" % (PYFILE, fn.lineno)
        a = fn.args
        names = [x.arg for x in a.args]
        defaults = [None] * (len(names) - len(a.defaults)) + list(a.defaults)
        self.params = dict(zip(names, defaults))
        self.order = names

    def is_none_default(self, p):
        d = self.params.get(p)
        return isinstance(d, ast.Constant) and d.value is None


def is_name(n, name):
    return isinstance(n, ast.Name) and n.id == name


def none_test(n, name):
    """+1 for `name is not None`, -1 for `name is None`, 0 otherwise."""
    if isinstance(n, ast.Compare) and len(n.ops) == 1 and is_name(n.left, name) and isinstance(n.comparators[0], ast.Constant) and n.comparators[0].value is None:
        if isinstance(n.ops[0], ast.IsNot):
            return 1
        if isinstance(n.ops[0], ast.Is):
            return -1
    return 0


def defaulted_value(expr, name):
    """If expr is `name if name is not None else D` / `D if name is None else name` return D."""
    if isinstance(expr, ast.IfExp):
        t = none_test(expr.test, name)
        if t == 1 and is_name(expr.body, name):
            return expr.orelse
        if t == -1 and is_name(expr.orelse, name):
            return expr.body
    return None


def check_python(ctx):
    path = os.path.join(ex.REPO, PYFILE)
    ctx.need(os.path.exists(path), "python wrapper %s not found" % PYFILE)
    tree = ast.parse(open(path).read())
    json_alias = None
    native = None
    native_from = None
    all_names = None
    shim_ok = None
    for node in tree.body:
        if isinstance(node, ast.Import):
            for al in node.names:
                if al.name == "json":
                    json_alias = al.asname or "json"
        if isinstance(node, ast.Assign) and any(is_name(t, "__all__") for t in node.targets):
            try:
                all_names = sorted(ast.literal_eval(node.value))
            except Exception:
                all_names = None
        if isinstance(node, ast.Try):
            for st in node.body:
                if isinstance(st, ast.ImportFrom) and st.level == 1:
                    for al in st.names:
                        if al.name == "apply":
                            native, native_from = al.asname or al.name, st.module
            # handlers: ImportError only; the non-windows branch re-raises
            shim_ok = True
            for h in node.handlers:
                if not (isinstance(h.type, ast.Name) and h.type.id == "ImportError"):
                    shim_ok = False
                # every way through the handler either re-raises the ImportError or ends with the native function bound
                # (`if win: …import… else: raise`, or the guard form `if not win: raise` followed by the import)
                def ways(stmts, bound):
                    """Set of states in which control can fall off the end of stmts: True = native function bound."""
                    states = {bound}
                    for st in stmts:
                        nxt = set()
                        for bd in states:
                            if isinstance(st, ast.Raise):
                                if st.exc is not None:
                                    nxt.add("other-exception")
                                continue                       # bare raise: the ImportError goes on
                            if isinstance(st, ast.ImportFrom) and st.level == 1 and any(al.name == "apply" for al in st.names):
                                nxt.add(True)
                            elif isinstance(st, ast.If):
                                nxt |= ways(st.body, bd) | ways(st.orelse, bd)
                            elif isinstance(st, (ast.Try, ast.With, ast.For, ast.While)):
                                nxt.add("unread")
                            elif isinstance(st, ast.Return):
                                nxt.add(bd)
                            else:
                                nxt.add(bd)
                        states = nxt
                    return states
                ends = ways(h.body, False)
                if ends - {True}:
                    shim_ok = False
        if isinstance(node, ast.ImportFrom) and node.level == 1:
            for al in node.names:
                if al.name == "apply":
                    native, native_from = al.asname or al.name, node.module
                    shim_ok = True if shim_ok is None else shim_ok
    ctx.check(json_alias is not None, "K1.json-import", "the standard json module is imported", "no `import json`", where=PYFILE)
    ctx.check(native is not None and native_from == "jsonlogic", "K1.native-import", "_apply is `apply` of the extension module .jsonlogic", "native function imported as %r from %r" % (native, native_from), where=PYFILE)
    ctx.check(bool(shim_ok), "K1.import-shim", "the ImportError shim re-raises off Windows and catches nothing else", "the import fallback swallows the ImportError or catches other exceptions", where=PYFILE, nontrivial=True)
    ctx.check(all_names == ["apply", "apply_serialized"], "K1.exports", "__all__ == (apply, apply_serialized)", "__all__ is %r" % (all_names,), where=PYFILE)
    fns = {n.name: n for n in tree.body if isinstance(n, ast.FunctionDef)}
    ctx.floor("public python functions", sum(1 for n in ("apply", "apply_serialized") if n in fns), 2)
    # module-level rebinding of the native function or json defaults
    for node in tree.body:
        if isinstance(node, ast.Assign):
            for t in node.targets:
                if isinstance(t, ast.Name) and t.id in (native, json_alias):
                    ctx.fail("K1.rebound", t.id, "module-level rebinding of %s" % t.id, where="%s:%d" % (PYFILE, node.lineno))
    spec = {
        "apply": {"callables": {"serializer": "dumps", "deserializer": "loads"}, "args": "serialized"},
        "apply_serialized": {"callables": {"deserializer": "loads"}, "args": "raw"},
    }
    for name, sp in spec.items():
        if name not in fns:
            continue
        f = PyFn(ctx, tree, fns[name], json_alias, native)
        check_fn(ctx, f, sp)


def check_fn(ctx, f, sp):
    fn = f.fn
    name = fn.name
    w = lambda n: "%s:%d" % (PYFILE, getattr(n, "lineno", fn.lineno))
    ctx.check(f.order[:2] == ["value", "data"] and f.is_none_default("data"), "K1.signature", "%s(value, data=None, …)" % name, "parameters are %s" % f.order, where=f.where)
    for p in sp["callables"]:
        ctx.check(p in f.params and f.is_none_default(p), "K1.optional", "%s: %s defaults to None" % (name, p), "parameter %s missing or with another default" % p, where=f.where)
    # forbidden constructs
    for n in ast.walk(fn):
        if isinstance(n, (ast.Try, ast.Global, ast.Nonlocal, ast.With, ast.While, ast.For, ast.Lambda, ast.Yield, ast.Await)):
            ctx.fail("K1.construct", "%s:%s" % (name, type(n).__name__), "%s contains a %s — the wrapper must be a straight-line adapter (an except clause could swallow or re-type the ValueError)" % (name, type(n).__name__), where=w(n), fn=name)
    # dataflow over the straight-line body (if statements allowed)
    state = {"nonnull": {}, "data_null": False}  # param -> default expr it was rebound to
    calls = []

    def visit_expr(e, st):
        for n in ast.walk(e):
            if isinstance(n, ast.Call):
                calls.append((n, dict(st["nonnull"]), st["data_null"], dict(st.get("assigned", {}))))

    def run_block(stmts, st):
        for s in stmts:
            if isinstance(s, ast.Expr) and isinstance(s.value, ast.Constant):
                continue  # docstring
            if isinstance(s, ast.Assign) and len(s.targets) == 1 and isinstance(s.targets[0], ast.Name):
                tgt = s.targets[0].id
                visit_expr(s.value, st)
                d = defaulted_value(s.value, tgt)
                if d is not None and tgt in f.params:
                    if tgt == "data":
                        st["data_null"] = d
                    else:
                        st["nonnull"][tgt] = d
                else:
                    st.setdefault("assigned", {})[tgt] = s.value
                    if tgt in st["nonnull"]:
                        del st["nonnull"][tgt]
            elif isinstance(s, ast.If):
                visit_expr(s.test, st)
                # `if p is None: p = D`
                done = False
                for p in list(f.params):
                    if none_test(s.test, p) == -1 and len(s.body) == 1 and isinstance(s.body[0], ast.Assign) and is_name(s.body[0].targets[0], p) and not s.orelse:
                        visit_expr(s.body[0].value, st)
                        if p == "data":
                            st["data_null"] = s.body[0].value
                        else:
                            st["nonnull"][p] = s.body[0].value
                        done = True
                if not done:
                    a = {"nonnull": dict(st["nonnull"]), "data_null": st["data_null"], "assigned": dict(st.get("assigned", {}))}
                    b = {"nonnull": dict(st["nonnull"]), "data_null": st["data_null"], "assigned": dict(st.get("assigned", {}))}
                    run_block(s.body, a)
                    run_block(s.orelse, b)
                    st["nonnull"] = {k: v for k, v in a["nonnull"].items() if k in b["nonnull"]}
                    st["data_null"] = a["data_null"] if (a["data_null"] and b["data_null"]) else False
            elif isinstance(s, ast.Return):
                if s.value is not None:
                    visit_expr(s.value, st)
                st.setdefault("returns", []).append((s, dict(st.get("assigned", {}))))
            elif isinstance(s, ast.Expr):
                visit_expr(s.value, st)
            else:
                ctx.fail("K1.construct", "%s:%s" % (name, type(s).__name__), "unexpected statement %s in %s" % (type(s).__name__, name), where=w(s), fn=name)

    run_block(fn.body, state)
    # calls: only the optional callables, json defaults and the native function
    native_calls = []
    for c, nonnull, data_null, assigned_at in calls:
        callee = c.func
        if isinstance(callee, ast.Name) and callee.id in sp["callables"]:
            p = callee.id
            d = nonnull.get(p)
            ok = d is not None
            ctx.check(ok, "K1.defaulted", "%s: %s is non-None when called" % (name, p),
                      "%s(…) is called although %s may still be None (no `%s = %s if %s is not None else …` on every path before the call): TypeError instead of a result" % (p, p, p, p, p), where=w(c), fn=name, nontrivial=True)
            if ok:
                want = sp["callables"][p]
                good = isinstance(d, ast.Attribute) and is_name(d.value, f.json) and d.attr == want
                ctx.check(good, "K1.default-is-json", "%s: %s defaults to json.%s" % (name, p, want), "%s defaults to %s" % (p, src_name(d)), where=w(c), fn=name, nontrivial=True)
        elif isinstance(callee, ast.Name) and callee.id == f.native:
            native_calls.append((c, nonnull, data_null, assigned_at))
        elif isinstance(callee, ast.Attribute) and is_name(callee.value, f.json) and callee.attr in ("dumps", "loads"):
            pass
        else:
            ctx.fail("K1.other-call", "%s:%s" % (name, src_name(callee)), "%s calls %s — the wrapper may only serialise, call the native function and deserialise" % (name, src_name(callee)), where=w(c), fn=name)
    ctx.check(len(native_calls) == 1, "K1.native-once", "%s calls the native apply exactly once" % name, "%d calls of the native function" % len(native_calls), where=f.where, fn=name, nontrivial=True)
    if len(native_calls) != 1:
        return
    c, nonnull, data_null, assigned_at = native_calls[0]
    ctx.check(len(c.args) == 2 and not c.keywords, "K1.native-args", "%s passes two positional arguments" % name, "native call: %s" % src_name(c), where=w(c), fn=name)
    if len(c.args) != 2:
        return
    a0, a1 = c.args
    # a local that holds an argument (`encoded = serializer(value)`) stands for the expression it was assigned
    a0 = assigned_at.get(a0.id, a0) if isinstance(a0, ast.Name) and a0.id not in f.params else a0
    a1 = assigned_at.get(a1.id, a1) if isinstance(a1, ast.Name) and a1.id not in f.params else a1
    if sp["args"] == "serialized":
        g0 = isinstance(a0, ast.Call) and is_name(a0.func, "serializer") and len(a0.args) == 1 and is_name(a0.args[0], "value") and not a0.keywords
        g1 = isinstance(a1, ast.Call) and is_name(a1.func, "serializer") and len(a1.args) == 1 and is_name(a1.args[0], "data") and not a1.keywords
        ctx.check(g0, "K1.rule-arg", "apply passes serializer(value) first", "first native argument is %s" % src_name(a0), where=w(c), fn=name, nontrivial=True)
        ctx.check(g1, "K1.data-arg", "apply passes serializer(data) second (None serialises to null)", "second native argument is %s — supplied data must be serialised as it is, omitted data as null" % src_name(a1), where=w(c), fn=name, nontrivial=True)
    else:
        ctx.check(is_name(a0, "value"), "K1.rule-arg", "apply_serialized passes value first, unchanged", "first native argument is %s" % src_name(a0), where=w(c), fn=name, nontrivial=True)
        d = defaulted_value(a1, "data")
        if d is None and is_name(a1, "data") and data_null:
            d = data_null
        good = isinstance(d, ast.Constant) and d.value == "null"
        ctx.check(good, "K1.data-arg", "apply_serialized passes data, or the literal \"null\" exactly when data is None", "second native argument is %s — must be `data if data is not None else \"null\"`" % src_name(a1), where=w(c), fn=name, nontrivial=True)
    # return deserializer(<native result>)
    rets = state.get("returns", [])
    ctx.check(len(rets) == 1, "K1.single-return", "%s has one return" % name, "%d return statements" % len(rets), where=f.where, fn=name)
    for r, assigned in rets:
        v = r.value
        good = isinstance(v, ast.Call) and is_name(v.func, "deserializer") and len(v.args) == 1 and not v.keywords
        if good:
            x = v.args[0]
            if isinstance(x, ast.Name) and x.id in assigned:
                x = assigned[x.id]
            good = x is c
        ctx.check(bool(good), "K1.returns-decoded", "%s returns deserializer(native result)" % name, "%s returns %s" % (name, src_name(v)), where=w(r), fn=name, nontrivial=True)


# ---------------------------------------------------------------------------------------------------------------
# K2 on the decision cases of the binding (rules/optnorm.py): `?`, match, if-let, early returns and the Result
# combinators are one table   conditions on the fallible steps  =>  value returned.

def _step_source(e):
    """The fallible call a value is the success payload of: through references, `?`, map_err and payload
    projections (not through anything that could supply a value when the step failed)."""
    for _ in range(24):
        e = strip_refs(e)
        if e[0] in ("payload", "payload-err") and len(e) > 2:
            e = e[2]
            continue
        e2 = strip_payload(e)
        if e2 == e:
            return e2
        e = e2
    return e


def _is_lib_apply(facts, e):
    if e[0] != "call" or not e[1]:
        return False
    c = e[1]
    return c.get("key") == "jsonlogic_rs::apply" or bool(c.get("local") and facts.items.get(c.get("key"), {}).get("inputs") == ["&serde_json::Value", "&serde_json::Value"])


def _is_local_helper(facts, e):
    return e[0] == "call" and bool(e[1]) and bool(e[1].get("local")) and not _is_lib_apply(facts, e)


def _mentions_helper(facts, e, but=None):
    return expr_mentions(e, lambda y: y[0] == "call" and y[1] is not None and _is_local_helper(facts, y) and (but is None or y[1].get("key") != but))


def _errish(v):
    v = strip_refs(v)
    if v[0] == "agg" and v[1].get("variant") == "Err":
        return True
    return v[0] == "call" and bool(v[1]) and "from_residual" in v[1]["path"]


def _case_atoms(cs, conds):
    """[(atom key, source expression, value)] of the conditions that are outcomes of Option/Result-valued steps."""
    out = []
    for k, val in conds.items():
        if k[0] == "variant" and val in ("Ok", "Err", "Some", "None"):
            out.append((k, (cs.exprs or {}).get(k) or optnorm.SRC_EXPRS.get(k), val))
    return out


def binding_table(ctx, facts, f, py):
    """The inner binding function read as a decision table."""
    fk = f.key.split("::", 1)[1]
    cs = optnorm.decision_cases(facts, f)
    if cs is None:
        for cl in ("K2.parse-order", "K2.serialises-result", "K2.parse-errors-propagate"):
            ctx.unread(cl, fk, "the binding contains a loop or too many paths to be read as a decision table", where=f.where(), fn=f.key)
        return

    def step_of(src):
        """('parse', i) | ('apply',) | ('helper', key) | ('other', shown)"""
        if src is None:
            return ("other", "?")
        x = _step_source(src)
        if x[0] == "call" and x[1] and x[1]["path"] == "serde_json::from_str":
            txt = strip_refs(x[2][0])
            if "serde_json::Value" in (x[1].get("full") or "") and txt in (("arg", 1), ("arg", 2)):
                return ("parse", txt[1])
            return ("other", show_expr(x)[:120])
        if _is_lib_apply(facts, x):
            return ("apply",)
        if _is_local_helper(facts, x):
            return ("helper", x[1].get("key"))
        return ("other", show_expr(x)[:120])

    ok_cases, err_cases = [], []
    for conds, v, path in cs:
        v = strip_refs(v)
        atoms = [(k, step_of(src), val) for (k, src, val) in _case_atoms(cs, conds)]
        failed = [(k, st) for (k, st, val) in atoms if val in ("Err", "None")]
        napply = sum(1 for ev in path.events if _is_lib_apply(facts, ("call", ev[1], ev[2], ev[3])))
        if v[0] == "agg" and v[1].get("variant") == "Ok":
            ok_cases.append((conds, v, path, atoms, failed, napply))
        elif _errish(v):
            err_cases.append((conds, v, path, atoms, failed, napply))
        else:
            ctx.unread("K2.serialises-result", fk, "a way through the binding returns %s, which is neither Ok(..) nor an error" % show_expr(v)[:120], where=f.where(), fn=f.key)
    # ---- success: Ok(Value::to_string(payload of apply(payload of from_str(arg1), payload of from_str(arg2))))
    helper_seen = None
    good_ok = 0
    for conds, v, path, atoms, failed, napply in ok_cases:
        if failed:
            ctx.fail("K2.parse-errors-propagate", "%s|swallowed" % fk, "the binding returns a value although %s failed — the Python caller gets a result instead of ValueError" % ", ".join(sorted({" ".join(map(str, st)) for _, st in failed})), where=f.where(), fn=f.key)
            continue
        x = strip_refs(v[2][0]) if v[2] else ("unit",)
        ser = x[0] == "call" and x[1] and x[1]["path"].endswith("::to_string") and "serde_json::Value" in (x[1].get("full") or "") and x[2]
        src = _step_source(x[2][0]) if ser else None
        if not ser or not _is_lib_apply(facts, src):
            if _mentions_helper(facts, x):
                helper_seen = helper_seen or "the success value"
                ctx.unread("K2.serialises-result", fk, "the value returned on success is computed by a helper function: %s" % show_expr(x)[:120], where=f.where(), fn=f.key)
            else:
                ctx.fail("K2.serialises-result", fk, "the binding's success value is %s — not Value::to_string of the payload of the library's apply" % show_expr(x)[:200], where=f.where(), fn=f.key)
            continue
        ctx.check(napply == 1, "K2.calls-apply-once", "the binding calls the library's apply exactly once on its way to a result", "%d calls of the library's apply on a way to a result" % napply, where=f.where(src[3] if src[3] >= 0 else None), fn=f.key, nontrivial=True)
        args = [_step_source(a) for a in src[2]]
        sts = [step_of(a) for a in src[2]]
        if sts == [("parse", 1), ("parse", 2)]:
            ctx.ok("K2.parse-order", "apply(from_str::<Value>(value)?, from_str::<Value>(data)?) — rule first, data second", nontrivial=True, sample={"args": [show_expr(a)[:80] for a in args]})
            ctx.ok("K2.serialises-result", "the binding returns Value::to_string of apply's Ok payload, and nothing else on success", nontrivial=True)
            good_ok += 1
        elif any(st[0] == "helper" for st in sts):
            ctx.unread("K2.parse-order", fk, "an argument of the library call is produced by the helper function %s" % [st[1] for st in sts if st[0] == "helper"][0], where=f.where(), fn=f.key)
        else:
            ctx.fail("K2.parse-order", fk, "the library is called with (%s, %s) — not with serde_json::from_str::<Value> of the whole first and second argument, in this order" % (show_expr(args[0])[:160], show_expr(args[1])[:160]) if len(args) == 2 else "the library is called with %d arguments" % len(args), where=f.where(), fn=f.key)
    if not ok_cases:
        ctx.fail("K2.serialises-result", fk, "no way through the binding returns Ok(..)", where=f.where(), fn=f.key)
    # ---- failure: every error exit belongs to a failed step; every step has one
    have = set()
    for conds, v, path, atoms, failed, napply in err_cases:
        if not failed:
            others = [k for k in conds if k[0] != "variant"]
            if others and not any(st[0] == "helper" for _, st, _v in atoms):
                ctx.fail("K2.parse-errors-propagate", "%s|extra-error" % fk, "the binding fails on a way on which no parse and no evaluation failed (decided by %s): inputs the library accepts raise ValueError" % ", ".join(str(k[0]) + ":" + str(k[1])[:60] for k in others[:3]), where=f.where(), fn=f.key)
            else:
                ctx.unread("K2.parse-errors-propagate", "%s|extra-error" % fk, "an error exit whose cause could not be read", where=f.where(), fn=f.key)
            continue
        for k, st in failed:
            have.add(st)
    unread_helpers = sorted({st[1] for c in ok_cases + err_cases for (_k, st, _v) in c[3] if st[0] == "helper"})
    want = [("parse", 1), ("parse", 2), ("apply",)]
    missing = [st for st in want if st not in have]
    if not missing:
        ctx.ok("K2.parse-errors-propagate", "the two parse errors and the library's error each have their own error exit (`?` or an Err arm), and there is no other", nontrivial=True)
    elif unread_helpers:
        ctx.unread("K2.parse-errors-propagate", fk, "fallible steps are inside the helper function(s) %s" % ", ".join(unread_helpers), where=f.where(), fn=f.key)
    else:
        ctx.fail("K2.parse-errors-propagate", fk, "no error exit for the failure of: %s (error exits found for %s)" % (", ".join(" ".join(map(str, st)) for st in missing), sorted(" ".join(map(str, st)) for st in have)), where=f.where(), fn=f.key)
    # errors: no dropper on any Result in the python interface
    droppers = []
    for b in py:
        for bi, t in b.calls():
            p = callee_path(t) or ""
            if p.startswith("std::result::Result::<T, E>::") and p.rsplit("::", 1)[1] in errdisc.DROPPERS | {"unwrap_or", "ok"}:
                droppers.append((b, bi, p))
    for b, bi, p in droppers:
        ctx.fail("K2.error-dropped", "%s@%s" % (b.key.split("::", 1)[1], p.rsplit("::", 1)[1]), "the binding discards an error with %s — malformed input or a library error would surface as a value" % p, where=b.where(bi), fn=b.key)
    if not droppers:
        ctx.ok("K2.error-dropped", "no Result is discarded in the binding", nontrivial=True)


def wrapper_table(ctx, facts, f, w):
    """The PyResult wrapper: Ok(payload of inner(value, data)) | Err(exception) exactly when inner failed."""
    wk = w.key.split("::", 1)[1]
    cs = optnorm.decision_cases(facts, w)
    if cs is None:
        ctx.unread("K2.wrapper", wk, "the wrapper contains a loop or too many paths", where=w.where(), fn=w.key)
        return

    def is_inner(e):
        x = _step_source(e)
        return x[0] == "call" and x[1] and x[1].get("key") == f.key and [strip_refs(a) for a in x[2]] == [("arg", 2), ("arg", 3)]
    n_ok = n_err = 0
    bad = []
    unread = []
    for conds, v, path in cs:
        v = strip_refs(v)
        atoms = _case_atoms(cs, conds)
        failed = [src for (k, src, val) in atoms if val in ("Err", "None")]
        foreign = [src for (k, src, val) in atoms if src is None or not is_inner(src)]
        if foreign:
            (unread if any(s_ is not None and _mentions_helper(facts, s_, but=f.key) for s_ in foreign) else bad).append("the wrapper decides on %s" % show_expr(foreign[0])[:100] if foreign[0] is not None else "a step that was not read")
            continue
        if v[0] == "agg" and v[1].get("variant") == "Ok":
            if failed:
                bad.append("Ok(..) is returned although the binding failed")
            elif v[2] and is_inner(v[2][0]) and strip_refs(v[2][0])[0] in ("payload", "field"):
                n_ok += 1
            elif v[2] and _mentions_helper(facts, v[2][0], but=f.key):
                unread.append("success value %s" % show_expr(v)[:100])
            else:
                bad.append("on success the wrapper returns %s, not the binding's text" % show_expr(v)[:120])
        elif _errish(v):
            if failed:
                n_err += 1
            else:
                bad.append("an exception is raised although the binding succeeded")
        else:
            x = _step_source(v)
            if not atoms and x[0] == "call" and x[1] and x[1].get("key") == f.key:
                bad.append("the wrapper returns the binding's Result unconverted")
            else:
                unread.append("result %s" % show_expr(v)[:100])
    if bad:
        ctx.fail("K2.wrapper", wk, "; ".join(bad[:3]), where=w.where(), fn=w.key)
    elif unread:
        ctx.unread("K2.wrapper", wk, "; ".join(unread[:3]), where=w.where(), fn=w.key)
    else:
        ctx.check(n_ok >= 1 and n_err >= 1, "K2.wrapper", "the PyResult wrapper returns inner(value, data)'s text on Ok and raises on Err — nothing else", "wrapper cases: %d success, %d failure" % (n_ok, n_err), where=w.where(), fn=w.key, nontrivial=True)



def check_native(ctx):
    facts = ctx.facts("python")
    py = [b for b in facts.fns() if "python_iface" in b.key and not b.span.get("exp")]
    ctx.need(py, "python interface functions not found")
    # inner: fn(&str,&str) -> Result<String,String>; wrapper: returns PyResult
    wrapper = [b for b in py if b.kind == "fn" and "cpython::PyErr" in facts.items[b.key]["output"]]
    inner = [b for b in py if b.kind == "fn" and facts.items[b.key]["inputs"] == ["&str", "&str"]]
    if len(inner) > 1 and len(wrapper) == 1:      # several (&str, &str) functions: the one the PyResult wrapper calls
        cg0, _ = facts.callgraph()
        inner = [b for b in inner if b.key in cg0.get(wrapper[0].key, ())] or inner
    ctx.need(len(inner) == 1 and len(wrapper) == 1, "binding functions not identified (inner %d, wrapper %d)" % (len(inner), len(wrapper)))
    f, w = inner[0], wrapper[0]
    binding_table(ctx, facts, f, py)
    wrapper_table(ctx, facts, f, w)
    ctors = []
    for b in py:
        for bi, t in b.calls():
            c = callee_of(t)
            if c and c["crate"] == "cpython" and "PyErr" in c["path"]:
                ctors.append((b, bi, c))
    ctx.check(len(ctors) >= 1, "K2.raises", "an exception is constructed for Err", "no PyErr construction", where=w.where(), fn=w.key)
    for b, bi, c in ctors:
        ctx.check(c["path"].endswith("PyErr::new") and "cpython::exc::ValueError" in c["full"], "K2.valueerror", "%s bb%d raises ValueError" % (b.key.split("::", 1)[1], bi),
                  "the binding raises %s" % c["full"], where=b.where(bi), fn=b.key, nontrivial=True, sample={"ctor": c["full"]})
    # the binding itself cannot panic (a panic would surface as SystemError / abort, not ValueError);
    # the library below it is C01's business under the same configuration
    from . import panic as PN
    from .roles import Roles
    api = PN.Api()
    roles = Roles(facts)
    arity = PN.Arity(facts, roles)
    n = 0
    for b in py:
        srcs, unknown = PN.sources_of(api, b)
        for sx in srcs:
            tsp = b.blocks[sx.bi]["tspan"]
            if tsp.get("exp") and any(m.startswith("py_") for m in tsp.get("macros", [])):
                continue
            n += 1
            j = PN.justify(facts, roles, arity, sx, {})
            ctx.check(j is not None, "K2.no-panic", "%s|%s" % (b.key.split("::", 1)[1], sx.what),
                      "panic source in the binding (%s): the Python caller would get SystemError or an abort instead of ValueError" % sx.what, where=b.where(sx.bi), fn=b.key, nontrivial=True)
    if n == 0:
        ctx.ok("K2.no-panic", "no panic source in the user-written binding functions", nontrivial=True)
    # rendering the error is part of the binding's job: the Display/Debug impls of the crate's own types that
    # the message is built from (followed through format arguments) must not be able to panic either
    fmt_impls = {}
    for k, it_ in facts.items.items():
        ins = it_.get("inputs") or []
        if k.endswith("::fmt") and len(ins) == 2 and ins[1].startswith("&mut std::fmt::Formatter"):
            fmt_impls.setdefault(ins[0].lstrip("&"), []).append(k)

    def shown_types(b):
        out = set()
        for bi, t in b.calls():
            c = callee_of(t)
            if c and re.search(r"Argument::<'_>::new_(display|debug)$", c["path"]):
                for ta in t["callee"].get("targs", []):
                    out.add(ta.lstrip("&"))
            if c and c["path"].endswith("std::string::ToString>::to_string"):
                m_ = re.match(r"^<(.+) as std::string::ToString>::to_string$", c.get("full") or "")
                if m_:
                    out.add(m_.group(1).lstrip("&"))
        return out

    cgl, _ = facts.callgraph()
    todo = [k for b in py for ty in shown_types(b) for k in fmt_impls.get(ty, [])]
    seen = set()
    while todo:
        k = todo.pop()
        if k in seen or facts.body(k) is None:
            continue
        seen.add(k)
        bb = facts.body(k)
        todo.extend(x for x in cgl.get(k, ()) if x != roles.entry.key)
        todo.extend(x for ty in shown_types(bb) for x in fmt_impls.get(ty, []))
    ctx.floor("error-rendering functions reachable from the binding", len(seen), 2)
    nr = 0
    for k in sorted(seen):
        bb = facts.body(k)
        srcs, unknown = PN.sources_of(api, bb)
        for sx in srcs:
            nr += 1
            j = PN.justify(facts, roles, arity, sx, {})
            ctx.check(j is not None, "K2.error-rendering-no-panic", "%s|%s" % (bb.key.split("::", 1)[1], sx.what),
                      "panic source (%s%s) in the rendering of the library's error: for some library errors the Python caller gets SystemError or an abort instead of ValueError" % (sx.what, (" — " + sx.reason) if sx.reason else ""), where=bb.where(sx.bi), fn=bb.key, nontrivial=True)
    if nr == 0:
        ctx.ok("K2.error-rendering-no-panic", "no panic source in the %d functions that render the library's error for Python" % len(seen), nontrivial=True)
    # module initialiser: exports "apply", references the wrapper
    names = set()
    refs = set()
    for b in facts.fns():
        if "python_iface" in b.key and b.span.get("exp"):
            for bi, si, s in b.stmts():
                if s["k"] == "Assign" and s["rv"]["k"] == "Use":
                    c = op_const(s["rv"]["op"])
                    if c and isinstance(const_value(c), str):
                        names.add(const_value(c))
            for bi, t in b.calls():
                for a in t["args"]:
                    c = op_const(a)
                    if c and isinstance(const_value(c), str):
                        names.add(const_value(c))
                cc = callee_of(t)
                if cc and cc.get("key") == w.key:
                    refs.add(b.key)
    cg, _ = facts.callgraph()
    referenced = any(w.key in cg.get(b.key, ()) for b in facts.fns() if "python_iface" in b.key and b.span.get("exp"))
    ctx.check("apply" in names and referenced, "K2.module-export", "the module initialiser registers the wrapper as \"apply\"", "names registered by the initialiser: %s; wrapper referenced: %s" % (sorted(n for n in names if len(n) < 20), referenced), where=w.where(), fn=w.key)
    inits = [k for k in facts.items if "python_iface" in k and k.endswith("PyInit_jsonlogic")]
    ctx.check(bool(inits), "K2.module-name", "the extension module is initialised as `jsonlogic` (PyInit_jsonlogic)", "no PyInit_jsonlogic symbol", where=w.where())


def check_setup(ctx):
    path = os.path.join(ex.REPO, "setup.py")
    ctx.need(os.path.exists(path), "setup.py not found")
    tree = ast.parse(open(path).read())
    exts = []
    for n in ast.walk(tree):
        if isinstance(n, ast.Call) and isinstance(n.func, ast.Name) and n.func.id == "RustExtension":
            exts.append(n)
    ctx.check(len(exts) == 1, "K3.extension", "setup.py declares one RustExtension", "%d RustExtension declarations" % len(exts), where="setup.py")
    for e in exts:
        target = e.args[0].value if e.args and isinstance(e.args[0], ast.Constant) else None
        feats = None
        for kw in e.keywords:
            if kw.arg == "features":
                try:
                    feats = list(ast.literal_eval(kw.value))
                except Exception:
                    feats = None
        ctx.check(target == "jsonlogic_rs.jsonlogic", "K3.target", "extension target is jsonlogic_rs.jsonlogic (what the wrapper imports)", "extension target is %r" % target, where="setup.py:%d" % e.lineno)
        ctx.check(feats is not None and "python" in feats, "K3.feature", "extension is built with feature python", "features: %r" % feats, where="setup.py:%d" % e.lineno)


def run(ctx):
    ctx.explanation = __doc__
    ctx.rule = "instances = AST facts of the two wrapper functions (definite-assignment of defaults, argument shapes), MIR facts of the binding, setup.py facts; non-trivial = path/dataflow facts"
    ctx.trusted = ["CPython semantics of the straight-line wrapper", "rust-cpython's py_fn!/py_module_initializer! glue", "json.dumps/json.loads"]
    check_python(ctx)
    check_native(ctx)
    check_setup(ctx)
    from . import manifest as MF
    for feat in (("python",) if ctx.tier == "quick" else ("python", "wasm")):
        changes, npk = MF.library_config_changes(feat)
        ctx.floor("packages of the library build compared (%s)" % feat, npk, 10)
        ctx.check(not changes, "K4.same-library", "feature %s leaves every package of the library build configured as in the default build (%d packages, cargo's resolver)" % (feat, npk),
                  "enabling feature %s reconfigures packages the library itself is built from: %s — the module no longer wraps the library other users get" % (feat, "; ".join("%s +%s -%s" % (p_, sorted(a), sorted(r_)) for p_, a, r_ in changes)),
                  where="Cargo.toml", nontrivial=True)
