#!/usr/bin/env python3
"""C19 — the Python module adds only JSON (de)serialisation around the library.

  K1  wrapper, read as paths (Python `ast`, symbolic evaluation: if/else, conditional expressions, early returns,
      module-level and nested helper functions evaluated at their call sites; per path: the returned term over the
      parameters, the calls made, the `is None` facts established):
      every optional callable parameter (default None) is rebound to its
      documented default (`json.dumps` / `json.loads`) on every path before it is
      called; the native `_apply` is called exactly once, with
      (serializer(value), serializer(data)) in `apply` and with
      (value, data if data is not None else "null") in `apply_serialized` —
      argument order, the `is None` test (not truthiness) and the literal "null";
      the function returns deserializer(<result of _apply>); `data` defaults to
      None; no try/except, no other call, no global/nonlocal; `_apply` is the
      `apply` of the extension module `.jsonlogic`; the ImportError shim re-raises
      off Windows; `__all__` exports exactly the two functions;
  K2  native boundary (MIR, feature `python`; the inner function and the PyResult wrapper are read as decision
      tables — rules/optnorm.py — so `?`, match, early returns and combinators are one form; a private helper is
      'not read' as written and decided on the view with it inlined): the binding's inner function
      parses each argument with serde_json::from_str::<Value>, calls the
      library's apply(&rule, &data) in that order, returns Value::to_string of the
      Ok payload; each of the three errors is converted (map_err) and
      propagated, none dropped; the PyResult wrapper maps Err to
      PyErr::new::<ValueError,_> and constructs no other exception; the module
      initialiser exports it under the name "apply" as module `jsonlogic`;
  K3  setup.py builds the extension `jsonlogic_rs.jsonlogic` with feature `python`.
      the binding and the Display/Debug impls that render the library's error
      (followed through format arguments) contain no panic source;
  K4  Cargo manifest: enabling feature `python` changes the resolved feature set
      of no package the library itself is built from (cargo's resolver).
Panic-freedom of the library below the binding is C01 under the python config.
Not decided: json.dumps/json.loads round-trips of Python objects (library behaviour).
"""
import ast, os, re
from .core import callee_of, callee_path, strip_refs, strip_payload, show_expr, const_value, op_const, expr_mentions
from .engine import Inconclusive
from . import extract as ex
from . import errdisc
from . import optnorm

INLINE_SAFE = [r"^K2\.(serialises-result|wrapper)$"]     # stated on decision cases (values and conditions), not on which functions are called

PYFILE = "py/jsonlogic_rs/__init__.py"


def src_name(n):
    return ast.unparse(n) if n is not None else ""


class PyFn:
    def __init__(self, ctx, mod, fn, json_alias, native_name):
        self.ctx, self.mod, self.fn, self.json, self.native = ctx, mod, fn, json_alias, native_name
        self.where = "%s:%d" % (PYFILE, fn.lineno)
        a = fn.args
        names = [x.arg for x in a.args]
        defaults = [None] * (len(names) - len(a.defaults)) + list(a.defaults)
        self.params = dict(zip(names, defaults))
        self.order = names

    def is_none_default(self, p):
        d = self.params.get(p)
        return isinstance(d, ast.Constant) and d.value is None


def is_name(n, name):
    return isinstance(n, ast.Name) and n.id == name


def none_test(n, name):
    """+1 for `name is not None`, -1 for `name is None`, 0 otherwise."""
    if isinstance(n, ast.Compare) and len(n.ops) == 1 and is_name(n.left, name) and isinstance(n.comparators[0], ast.Constant) and n.comparators[0].value is None:
        if isinstance(n.ops[0], ast.IsNot):
            return 1
        if isinstance(n.ops[0], ast.Is):
            return -1
    return 0


def defaulted_value(expr, name):
    """If expr is `name if name is not None else D` / `D if name is None else name` return D."""
    if isinstance(expr, ast.IfExp):
        t = none_test(expr.test, name)
        if t == 1 and is_name(expr.body, name):
            return expr.orelse
        if t == -1 and is_name(expr.orelse, name):
            return expr.body
    return None


def check_python(ctx):
    path = os.path.join(ex.REPO, PYFILE)
    ctx.need(os.path.exists(path), "python wrapper %s not found" % PYFILE)
    tree = ast.parse(open(path).read())
    # the wrapper keeps nothing between calls: no decorated function (a memoising `lru_cache` hands the *same* decoded
    # object to every later caller with the same texts), no `global` / `nonlocal` rebinding, no module-level container
    # that a function mutates.  Read on the syntax tree of the whole module (nested helpers included).
    n_state = 0
    for node in ast.walk(tree):
        if isinstance(node, (ast.FunctionDef, ast.AsyncFunctionDef)) and node.decorator_list:
            n_state += 1
            ctx.fail("K1.stateless-wrapper", "%s|decorator" % node.name, "the wrapper function %s is decorated (%s): a decorator can keep state between calls (a cache returns one shared result object to later callers) — the wrapper may only serialise, call the native function and deserialise" % (node.name, ", ".join(ast.unparse(d)[:40] for d in node.decorator_list)), where="%s:%d" % (PYFILE, node.lineno))
        if isinstance(node, (ast.Global, ast.Nonlocal)):
            n_state += 1
            ctx.fail("K1.stateless-wrapper", "%s|%s" % (type(node).__name__.lower(), ",".join(node.names)), "the wrapper rebinds %s %s from inside a function: state that survives the call" % (type(node).__name__.lower(), ", ".join(node.names)), where="%s:%d" % (PYFILE, node.lineno))
    mod_containers = {t.id for st in tree.body if isinstance(st, ast.Assign) and isinstance(st.value, (ast.Dict, ast.List, ast.Set, ast.Call)) for t in st.targets if isinstance(t, ast.Name) and t.id != "__all__"
                      and (not isinstance(st.value, ast.Call) or (isinstance(st.value.func, ast.Name) and st.value.func.id in ("dict", "list", "set", "OrderedDict", "defaultdict", "WeakValueDictionary")))}
    for fn_ in [n for n in ast.walk(tree) if isinstance(n, (ast.FunctionDef, ast.AsyncFunctionDef))]:
        for node in ast.walk(fn_):
            tgt = None
            if isinstance(node, ast.Subscript) and isinstance(node.ctx, (ast.Store, ast.Del)) and isinstance(node.value, ast.Name):
                tgt = node.value.id
            if isinstance(node, ast.Call) and isinstance(node.func, ast.Attribute) and isinstance(node.func.value, ast.Name) and node.func.attr in ("append", "add", "update", "setdefault", "pop", "clear", "insert", "extend", "popitem", "move_to_end"):
                tgt = node.func.value.id
            if tgt in mod_containers:
                n_state += 1
                ctx.fail("K1.stateless-wrapper", "%s|mutates %s" % (fn_.name, tgt), "%s mutates the module-level container %s: the wrapper keeps state between calls" % (fn_.name, tgt), where="%s:%d" % (PYFILE, node.lineno))
    if not n_state:
        ctx.ok("K1.stateless-wrapper", "no decorator, no global/nonlocal rebinding, no module-level container mutated by a function", nontrivial=True)
    json_alias = None
    native = None
    native_from = None
    all_names = None
    shim_ok = None
    for node in tree.body:
        if isinstance(node, ast.Import):
            for al in node.names:
                if al.name == "json":
                    json_alias = al.asname or "json"
        if isinstance(node, ast.Assign) and any(is_name(t, "__all__") for t in node.targets):
            try:
                all_names = sorted(ast.literal_eval(node.value))
            except Exception:
                all_names = None
        if isinstance(node, ast.Try):
            for st in node.body:
                if isinstance(st, ast.ImportFrom) and st.level == 1:
                    for al in st.names:
                        if al.name == "apply":
                            native, native_from = al.asname or al.name, st.module
            # handlers: ImportError only; the non-windows branch re-raises
            shim_ok = True
            for h in node.handlers:
                if not (isinstance(h.type, ast.Name) and h.type.id == "ImportError"):
                    shim_ok = False
                # every way through the handler either re-raises the ImportError or ends with the native function bound
                # (`if win: …import… else: raise`, or the guard form `if not win: raise` followed by the import)
                def ways(stmts, bound):
                    """Set of states in which control can fall off the end of stmts: True = native function bound."""
                    states = {bound}
                    for st in stmts:
                        nxt = set()
                        for bd in states:
                            if isinstance(st, ast.Raise):
                                if st.exc is not None:
                                    nxt.add("other-exception")
                                continue                       # bare raise: the ImportError goes on
                            if isinstance(st, ast.ImportFrom) and st.level == 1 and any(al.name == "apply" for al in st.names):
                                nxt.add(True)
                            elif isinstance(st, ast.If):
                                nxt |= ways(st.body, bd) | ways(st.orelse, bd)
                            elif isinstance(st, (ast.Try, ast.With, ast.For, ast.While)):
                                nxt.add("unread")
                            elif isinstance(st, ast.Return):
                                nxt.add(bd)
                            else:
                                nxt.add(bd)
                        states = nxt
                    return states
                ends = ways(h.body, False)
                if ends - {True}:
                    shim_ok = False
        if isinstance(node, ast.ImportFrom) and node.level == 1:
            for al in node.names:
                if al.name == "apply":
                    native, native_from = al.asname or al.name, node.module
                    shim_ok = True if shim_ok is None else shim_ok
    ctx.check(json_alias is not None, "K1.json-import", "the standard json module is imported", "no `import json`", where=PYFILE)
    ctx.check(native is not None and native_from == "jsonlogic", "K1.native-import", "_apply is `apply` of the extension module .jsonlogic", "native function imported as %r from %r" % (native, native_from), where=PYFILE)
    ctx.check(bool(shim_ok), "K1.import-shim", "the ImportError shim re-raises off Windows and catches nothing else", "the import fallback swallows the ImportError or catches other exceptions", where=PYFILE, nontrivial=True)
    ctx.check(all_names == ["apply", "apply_serialized"], "K1.exports", "__all__ == (apply, apply_serialized)", "__all__ is %r" % (all_names,), where=PYFILE)
    fns = {n.name: n for n in tree.body if isinstance(n, ast.FunctionDef)}
    ctx.floor("public python functions", sum(1 for n in ("apply", "apply_serialized") if n in fns), 2)
    # module-level rebinding of the native function or json defaults
    for node in tree.body:
        if isinstance(node, ast.Assign):
            for t in node.targets:
                if isinstance(t, ast.Name) and t.id in (native, json_alias):
                    ctx.fail("K1.rebound", t.id, "module-level rebinding of %s" % t.id, where="%s:%d" % (PYFILE, node.lineno))
    spec = {
        "apply": {"callables": {"serializer": "dumps", "deserializer": "loads"}, "args": "serialized"},
        "apply_serialized": {"callables": {"deserializer": "loads"}, "args": "raw"},
    }
    for name, sp in spec.items():
        if name not in fns:
            continue
        f = PyFn(ctx, tree, fns[name], json_alias, native)
        check_fn(ctx, f, sp, fns)


# ---------------------------------------------------------------------------------------------------------------
# K1: the wrapper functions read as *paths* (Python `ast`).  Every way through a public function — `if`/`else`,
# conditional expressions, early returns, module-level or nested helper functions (evaluated at their call sites) —
# is one path with: the value it returns as a term over the parameters, the calls it made, and what it established
# about `x is None` for the values it tested.  The clauses are stated on these paths, not on statement shapes.

BANNED = (ast.Try, ast.Global, ast.Nonlocal, ast.With, ast.While, ast.For, ast.Lambda, ast.Yield, ast.YieldFrom, ast.Await,
          ast.AsyncFunctionDef, ast.AsyncFor, ast.AsyncWith, ast.ClassDef, ast.Delete, ast.ListComp, ast.DictComp, ast.SetComp, ast.GeneratorExp)


class PyState:
    __slots__ = ("env", "facts", "calls", "unknown")

    def __init__(self, env=None, facts=None, calls=(), unknown=()):
        self.env, self.facts, self.calls, self.unknown = env or {}, facts or {}, tuple(calls), tuple(unknown)

    def set(self, **kw):
        n = PyState(self.env, self.facts, self.calls, self.unknown)
        for k, v in kw.items():
            setattr(n, k, v)
        return n

    def bind(self, name, val):
        e = dict(self.env)
        e[name] = val
        return self.set(env=e)

    def know(self, val, what):
        f = dict(self.facts)
        f[val] = what
        return self.set(facts=f)


class PyPaths:
    """Symbolic evaluation of one function of the wrapper module.  Values:
       ("param", name) | ("const", v) | ("json", attr) | ("native",) | ("func", FunctionDef) | ("global", name) |
       ("attr", value, name) | ("call", callee value, (args…), (keyword names…), uid, node) | ("opaque", source)"""
    MAX = 400

    def __init__(self, modfuncs, json_alias, native):
        self.modfuncs, self.json, self.native = modfuncs, json_alias, native
        self.bound = set()        # names bound at module level (a module that rebinds `getattr` does not mean the builtin)
        self.uid = 0
        self.problems = []        # (kind, key, detail, node): "construct" = a statement/expression form outside the adapter language
        self.overflow = False
        self.inlined = set()
        self.stack = []

    # ---- expressions → [(value, state)]
    def lookup(self, name, st):
        if name in st.env:
            return st.env[name]
        if name in self.modfuncs:
            return ("func", self.modfuncs[name])
        if name == self.json:
            return ("jsonmod",)
        if name == self.native:
            return ("native",)
        return ("global", name)

    def eval(self, e, st, depth=0):
        if isinstance(e, ast.Constant):
            return [(("const", e.value), st)]
        if isinstance(e, ast.Name):
            return [(self.lookup(e.id, st), st)]
        if isinstance(e, ast.Attribute):
            out = []
            for v, s1 in self.eval(e.value, st, depth):
                out.append((("json", e.attr) if v == ("jsonmod",) else ("attr", v, e.attr), s1))
            return out
        if isinstance(e, ast.IfExp):
            out = []
            for truth, s1 in self.test(e.test, st, depth):
                out.extend(self.eval(e.body if truth else e.orelse, s1, depth))
            return out
        if isinstance(e, ast.Call):
            return self.call(e, st, depth)
        if isinstance(e, BANNED):
            self.problems.append(("construct", type(e).__name__, "a %s expression" % type(e).__name__, e))
        # any other computation on the values: the calls inside it are still made
        states = [st]
        for sub in ast.iter_child_nodes(e):
            if isinstance(sub, ast.expr):
                states = [s2 for s1 in states for (_v, s2) in self.eval(sub, s1, depth)]
        return [(("opaque", src_name(e)), s1) for s1 in states]

    def call(self, e, st, depth):
        out = []
        for fv, s1 in self.eval(e.func, st, depth):
            argstates = [((), s1)]
            star = False
            for a in e.args:
                if isinstance(a, ast.Starred):
                    star = True
                    a = a.value
                argstates = [(vals + (v,), s3) for (vals, s2) in argstates for (v, s3) in self.eval(a, s2, depth)]
            kwnames = []
            kwstates = [(vals, (), s2) for (vals, s2) in argstates]
            for kw in e.keywords:
                if kw.arg is None:
                    star = True
                kwnames.append(kw.arg)
                kwstates = [(vals, kvs + (v,), s3) for (vals, kvs, s2) in kwstates for (v, s3) in self.eval(kw.value, s2, depth)]
            for vals, kvs, s2 in kwstates:
                if len(out) > self.MAX:
                    self.overflow = True
                    return out
                if fv == ("global", "getattr") and "getattr" not in self.bound and not star and not kvs and len(vals) == 2 and vals[1][0] == "const" and isinstance(vals[1][1], str):
                    # the builtin with a constant name is the attribute access `obj.name` (no call of the wrapper's own)
                    out.append((("json", vals[1][1]) if vals[0] == ("jsonmod",) else ("attr", vals[0], vals[1][1]), s2))
                    continue
                if fv[0] == "func" and fv[1].name in self.stack:
                    # a helper that calls itself is a loop: outside the adapter language, like `for`/`while` (reported once)
                    if ("rec", fv[1].name) not in self.inlined:
                        self.inlined.add(("rec", fv[1].name))
                        self.problems.append(("construct", "%s:recursion" % fv[1].name, "the helper %s is recursive (a loop)" % fv[1].name, e))
                elif fv[0] == "func" and not star and depth < 4 and (len(fv) == 2 or fv[3] == depth):
                    out.extend(self.inline(fv[1], vals, dict(zip(kwnames, kvs)), s2, depth, e, nested=len(fv) > 2))
                    continue
                if fv[0] == "func" and fv[1].name not in self.stack:
                    self.problems.append(("unread", fv[1].name, "the call of the helper %s could not be followed" % fv[1].name, e))
                self.uid += 1
                v = ("call", fv, vals + kvs, tuple(kwnames) + (("*",) if star else ()), self.uid, e)
                out.append((v, s2.set(calls=s2.calls + (v,))))
        return out

    def inline(self, fn, vals, kws, st, depth, site, nested=False):
        """A helper function of the module (or a nested one) evaluated at its call site."""
        if fn.name not in self.inlined:
            self.inlined.add(fn.name)
            for n in ast.walk(fn):
                if isinstance(n, BANNED):
                    self.problems.append(("construct", "%s:%s" % (fn.name, type(n).__name__), "the helper %s contains a %s" % (fn.name, type(n).__name__), n))
        a = fn.args
        names = [x.arg for x in a.posonlyargs + a.args]
        defaults = [None] * (len(names) - len(a.defaults)) + list(a.defaults)
        if a.vararg or a.kwarg or len(vals) > len(names) or any(k not in names + [x.arg for x in a.kwonlyargs] for k in kws):
            self.uid += 1
            v = ("call", ("func", fn), vals, tuple(kws), self.uid, site)
            return [(v, st.set(calls=st.calls + (v,)))]
        env = dict(st.env) if nested else {}
        for i, nme in enumerate(names):
            if i < len(vals):
                env[nme] = vals[i]
            elif nme in kws:
                env[nme] = kws[nme]
            elif defaults[i] is not None:
                env[nme] = ("const", defaults[i].value) if isinstance(defaults[i], ast.Constant) else ("opaque", src_name(defaults[i]))
            else:
                env[nme] = ("opaque", "<missing argument %s>" % nme)
        for x, d in zip(a.kwonlyargs, a.kw_defaults):
            env[x.arg] = kws.get(x.arg, ("const", d.value) if isinstance(d, ast.Constant) else ("opaque", src_name(d) if d is not None else "<missing>"))
        out = []
        self.stack.append(fn.name)
        try:
            for kind, val, s1 in self.block(fn.body, st.set(env=env), depth + 1):
                out.append((val if kind == "return" else ("const", None), s1.set(env=st.env)))
        finally:
            self.stack.pop()
        return out

    # ---- tests → [(truth, state)]
    def test(self, e, st, depth=0):
        if isinstance(e, ast.UnaryOp) and isinstance(e.op, ast.Not):
            return [(not t, s1) for t, s1 in self.test(e.operand, st, depth)]
        if isinstance(e, ast.BoolOp):
            conj = isinstance(e.op, ast.And)
            cur = [(conj, st)]
            for sub in e.values:
                nxt = []
                for t, s1 in cur:
                    if t != conj:
                        nxt.append((t, s1))        # short-circuited
                    else:
                        nxt.extend(self.test(sub, s1, depth))
                cur = nxt
            return cur
        if isinstance(e, ast.Constant):
            return [(bool(e.value), st)]
        if isinstance(e, ast.Compare) and len(e.ops) == 1 and isinstance(e.ops[0], (ast.Is, ast.IsNot)) and isinstance(e.comparators[0], ast.Constant) and e.comparators[0].value is None:
            positive = isinstance(e.ops[0], ast.Is)
            out = []
            for v, s1 in self.eval(e.left, st, depth):
                k = self.nullness(v, s1)
                if k is not None:
                    out.append(((k == "none") == positive, s1))
                else:
                    out.append((positive, s1.know(v, "none")))
                    out.append((not positive, s1.know(v, "notnone")))
            return out
        # any other test (truthiness, comparisons, isinstance …): both ways, nothing learnt
        out = []
        for v, s1 in self.eval(e, st, depth):
            s2 = s1.set(unknown=s1.unknown + (src_name(e),))
            out.append((True, s2))
            out.append((False, s2))
        return out

    @staticmethod
    def nullness(v, st):
        if v[0] == "const":
            return "none" if v[1] is None else "notnone"
        if v[0] in ("json", "native", "func", "jsonmod"):
            return "notnone"
        return st.facts.get(v)

    # ---- statements → [("return", value, state) | ("next", None, state)]
    def block(self, stmts, st, depth=0):
        cur = [st]
        done = []
        for s in stmts:
            nxt = []
            for s0 in cur:
                for kind, val, s1 in self.stmt(s, s0, depth):
                    if kind == "return":
                        done.append((kind, val, s1))
                    else:
                        nxt.append(s1)
            cur = nxt
            if len(cur) + len(done) > self.MAX:
                self.overflow = True
                break
        return done + [("next", None, s1) for s1 in cur]

    def stmt(self, s, st, depth):
        if isinstance(s, ast.Expr):
            if isinstance(s.value, ast.Constant):
                return [("next", None, st)]
            return [("next", None, s1) for _v, s1 in self.eval(s.value, st, depth)]
        if isinstance(s, ast.Pass):
            return [("next", None, st)]
        if isinstance(s, (ast.Assign, ast.AnnAssign)) and getattr(s, "value", None) is not None:
            tgts = s.targets if isinstance(s, ast.Assign) else [s.target]
            if len(tgts) == 1 and isinstance(tgts[0], ast.Name):
                return [("next", None, s1.bind(tgts[0].id, v)) for v, s1 in self.eval(s.value, st, depth)]
        if isinstance(s, ast.If):
            out = []
            for truth, s1 in self.test(s.test, st, depth):
                out.extend(self.block(s.body if truth else s.orelse, s1, depth))
            return out
        if isinstance(s, ast.Return):
            if s.value is None:
                return [("return", ("const", None), st)]
            return [("return", v, s1) for v, s1 in self.eval(s.value, st, depth)]
        if isinstance(s, ast.FunctionDef):
            # a nested helper: its free variables are those of the function that defines it, looked up when it is called
            return [("next", None, st.bind(s.name, ("func", s, "nested", depth)))]
        self.problems.append(("construct", type(s).__name__, "a %s statement" % type(s).__name__, s))
        return [("next", None, st)]


def show_val(v):
    if v[0] == "param":
        return v[1]
    if v[0] == "const":
        return repr(v[1])
    if v[0] == "json":
        return "json.%s" % v[1]
    if v[0] == "native":
        return "<native apply>"
    if v[0] == "func":
        return v[1].name
    if v[0] == "global":
        return v[1]
    if v[0] == "attr":
        return "%s.%s" % (show_val(v[1]), v[2])
    if v[0] == "call":
        return "%s(%s)" % (show_val(v[1]), ", ".join(show_val(a) for a in v[2]))
    return v[1] if len(v) > 1 else v[0]


def check_fn(ctx, f, sp, modfuncs):
    fn = f.fn
    name = fn.name
    w = lambda n: "%s:%d" % (PYFILE, getattr(n, "lineno", fn.lineno))
    ctx.check(f.order[:2] == ["value", "data"] and f.is_none_default("data"), "K1.signature", "%s(value, data=None, …)" % name, "parameters are %s" % f.order, where=f.where)
    for p in sp["callables"]:
        ctx.check(p in f.params and f.is_none_default(p), "K1.optional", "%s: %s defaults to None" % (name, p), "parameter %s missing or with another default" % p, where=f.where)
    # constructs outside the adapter language (an except clause could swallow or re-type the ValueError)
    for n in ast.walk(fn):
        if isinstance(n, BANNED):
            ctx.fail("K1.construct", "%s:%s" % (name, type(n).__name__), "%s contains a %s — the wrapper must be a straight-line adapter (an except clause could swallow or re-type the ValueError)" % (name, type(n).__name__), where=w(n), fn=name)
    ev = PyPaths({k: v for k, v in modfuncs.items() if k != name}, f.json, f.native)
    for node in f.mod.body:
        for n in ([node] + list(ast.walk(node)) if not isinstance(node, (ast.FunctionDef, ast.ClassDef)) else [node]):
            if isinstance(n, (ast.FunctionDef, ast.ClassDef)):
                ev.bound.add(n.name)
            elif isinstance(n, ast.Name) and isinstance(n.ctx, ast.Store):
                ev.bound.add(n.id)
            elif isinstance(n, ast.alias):
                ev.bound.add((n.asname or n.name).split(".")[0])
    st0 = PyState(env={p: ("param", p) for p in f.order})
    paths = ev.block(fn.body, st0)
    for kind, key, detail, node in ev.problems:
        if kind == "unread":
            ctx.unread("K1.returns-decoded", "%s:%s" % (name, key), detail, where=w(node), fn=name)
            continue
        ctx.fail("K1.construct", "%s:%s" % (name, key), "%s: %s — the wrapper must be a straight-line adapter" % (name, detail), where=w(node), fn=name)
    if ev.overflow or not paths:
        ctx.unread("K1.returns-decoded", name, "%s has too many paths to be read" % name, where=f.where, fn=name)
        return
    if any(k == "unread" for k, *_ in ev.problems):
        return
    fails = {}     # clause -> (detail, where)
    P = lambda n: ("param", n)

    def bad(clause, detail, node=None):
        fails.setdefault(clause, (detail, w(node) if node is not None else f.where))

    def callable_ok(fv, st, param, attr, node):
        """The callable used is the supplied one when one was supplied, json.<attr> exactly when none was."""
        if fv == P(param):
            if st.facts.get(fv) != "notnone":
                bad("K1.defaulted", "%s(…) is called although %s may still be None (on some path it is not replaced by its default before the call): TypeError instead of a result" % (param, param), node)
            return True
        if fv == ("json", attr):
            if st.facts.get(P(param)) != "none":
                bad("K1.default-is-json", "json.%s is used on a path on which %s may have been supplied: the caller's %s is ignored" % (attr, param, param), node)
            return True
        if fv[0] in ("json", "const", "global", "opaque", "attr", "call", "func", "native", "param"):
            if st.facts.get(P(param)) == "none" or fv[0] == "json":
                bad("K1.default-is-json", "%s defaults to %s instead of json.%s" % (param, show_val(fv), attr), node)
            else:
                bad("K1.defaulted", "where %s is expected, %s is called" % (param, show_val(fv)), node)
        return False

    for kind, val, st in paths:
        natives = [c for c in st.calls if c[1] == ("native",)]
        if len(natives) != 1:
            bad("K1.native-once", "%d calls of the native function on a path through %s" % (len(natives), name), natives[1][5] if len(natives) > 1 else None)
        if kind != "return" or val == ("const", None):
            bad("K1.returns-decoded", "%s can end without returning a value" % name)
            continue
        used = []
        if not (val[0] == "call" and len(val[2]) == 1 and not val[3]):
            bad("K1.returns-decoded", "%s returns %s — not deserializer(<result of the native apply>)" % (name, show_val(val)[:120]), val[5] if val[0] == "call" else None)
            continue
        used.append(val)
        if not callable_ok(val[1], st, "deserializer", "loads", val[5]):
            bad("K1.returns-decoded", "%s returns %s — not deserializer(<result of the native apply>)" % (name, show_val(val)[:120]), val[5])
        nat = val[2][0]
        if not (nat[0] == "call" and nat[1] == ("native",)):
            bad("K1.returns-decoded", "%s returns %s — the decoded value is not the result of the native apply" % (name, show_val(val)[:120]), val[5])
            continue
        used.append(nat)
        if len(nat[2]) != 2 or nat[3]:
            bad("K1.native-args", "native call: %s" % show_val(nat)[:120], nat[5])
            continue
        a0, a1 = nat[2]
        if sp["args"] == "serialized":
            for i, (a, pn, clause, what) in enumerate(((a0, "value", "K1.rule-arg", "first"), (a1, "data", "K1.data-arg", "second"))):
                good = a[0] == "call" and len(a[2]) == 1 and not a[3] and (a[2][0] == P(pn) or (a[2][0] == ("const", None) and st.facts.get(P(pn)) == "none"))
                if not good:
                    bad(clause, "%s native argument is %s — must be serializer(%s)%s" % (what, show_val(a)[:100], pn, "; supplied data must be serialised as it is, omitted data as null" if pn == "data" else ""), nat[5])
                    continue
                used.append(a)
                callable_ok(a[1], st, "serializer", "dumps", a[5])
        else:
            if a0 != P("value"):
                bad("K1.rule-arg", "first native argument is %s — must be value, unchanged" % show_val(a0)[:100], nat[5])
            dk = st.facts.get(P("data"))
            if a1 == P("data"):
                if dk != "notnone":
                    bad("K1.data-arg", "data is passed to the native function on a path on which it may be None — must be `data if data is not None else \"null\"`", nat[5])
            elif a1 == ("const", "null"):
                if dk != "none":
                    bad("K1.data-arg", "the literal \"null\" replaces data on a path on which data was not established to be None (decided by: %s) — must be `data if data is not None else \"null\"`" % (", ".join(st.unknown) or "nothing"), nat[5])
            else:
                bad("K1.data-arg", "second native argument is %s — must be `data if data is not None else \"null\"`" % show_val(a1)[:100], nat[5])
        for c in st.calls:
            if not any(c is u for u in used) and c[1] != ("native",):
                bad("K1.other-call:%s" % show_val(c[1])[:40], "%s calls %s — the wrapper may only serialise, call the native function and deserialise" % (name, show_val(c)[:80]), c[5])
    for clause, (detail, where) in sorted(fails.items()):
        cl, _, inst = clause.partition(":")
        ctx.fail(cl, "%s:%s" % (name, inst) if inst else name, detail, where=where, fn=name)
    oks = {"K1.native-once": "%s calls the native apply exactly once on every path" % name,
           "K1.returns-decoded": "%s returns deserializer(native result) on every path" % name,
           "K1.rule-arg": "%s passes the rule first (%s)" % (name, "serializer(value)" if sp["args"] == "serialized" else "value, unchanged"),
           "K1.data-arg": "%s passes %s second" % (name, "serializer(data) (None serialises to null)" if sp["args"] == "serialized" else "data, or the literal \"null\" exactly when data is None"),
           "K1.defaulted": "%s: no optional callable is called while it may be None" % name,
           "K1.default-is-json": "%s: the defaults are json.%s, used exactly when nothing was supplied" % (name, "/json.".join(sorted(set(sp["callables"].values())))),
           "K1.other-call": "%s makes no other call" % name}
    failed = {c.partition(":")[0] for c in fails}
    for cl, txt in oks.items():
        if cl not in failed:
            ctx.ok(cl, txt, nontrivial=cl not in ("K1.other-call",), sample={"paths": len(paths), "helpers": sorted(x for x in ev.inlined if isinstance(x, str))})


# ---------------------------------------------------------------------------------------------------------------
# K2 on the decision cases of the binding (rules/optnorm.py): `?`, match, if-let, early returns and the Result
# combinators are one table   conditions on the fallible steps  =>  value returned.

def _step_source(e):
    """The fallible call a value is the success payload of: through references, `?`, map_err and payload
    projections (not through anything that could supply a value when the step failed)."""
    for _ in range(24):
        e = strip_refs(e)
        if e[0] in ("payload", "payload-err") and len(e) > 2:
            e = e[2]
            continue
        e2 = strip_payload(e)
        if e2 == e:
            return e2
        e = e2
    return e


def _is_lib_apply(facts, e):
    if e[0] != "call" or not e[1]:
        return False
    c = e[1]
    return c.get("key") == "jsonlogic_rs::apply" or bool(c.get("local") and facts.items.get(c.get("key"), {}).get("inputs") == ["&serde_json::Value", "&serde_json::Value"])


def _is_local_helper(facts, e):
    return e[0] == "call" and bool(e[1]) and bool(e[1].get("local")) and not _is_lib_apply(facts, e)


def _mentions_helper(facts, e, but=None):
    return expr_mentions(e, lambda y: y[0] == "call" and y[1] is not None and _is_local_helper(facts, y) and (but is None or y[1].get("key") != but))


def _errish(v):
    v = strip_refs(v)
    if v[0] == "agg" and v[1].get("variant") == "Err":
        return True
    return v[0] == "call" and bool(v[1]) and "from_residual" in v[1]["path"]


def _case_atoms(cs, conds):
    """[(atom key, source expression, value)] of the conditions that are outcomes of Option/Result-valued steps."""
    out = []
    for k, val in conds.items():
        if k[0] == "variant" and val in ("Ok", "Err", "Some", "None"):
            out.append((k, (cs.exprs or {}).get(k) or optnorm.SRC_EXPRS.get(k), val))
    return out


def _closure_applies(facts, ev):
    """Calls of the library's apply in the closures handed to the call `ev` (a path event): the closures of a combinator
    pipeline run as part of the way through the function (`.and_then(|(r, d)| crate::apply(&r, &d))`)."""
    n = 0
    for a in ev[2]:
        x = strip_refs(a)
        if x[0] == "agg" and x[1].get("closure"):
            root = x[1]["closure"]
            for b in facts.fns():
                if b.key == root or b.key.startswith(root + "::{closure#"):
                    n += sum(1 for _bi, t in b.calls() if callee_of(t) and _is_lib_apply(facts, ("call", callee_of(t), [], -1)))
    return n


def binding_table(ctx, facts, f, py, texts=(1, 2)):
    """The binding function (the one that holds the two parses and the evaluation; its two texts are the parameters
    numbered `texts`) read as a decision table."""
    fk = f.key.split("::", 1)[1]
    cs = optnorm.decision_cases(facts, f)
    if cs is None:
        for cl in ("K2.parse-order", "K2.serialises-result", "K2.parse-errors-propagate"):
            ctx.unread(cl, fk, "the binding contains a loop or too many paths to be read as a decision table", where=f.where(), fn=f.key)
        return

    def step_of(src):
        """('parse', i) | ('apply',) | ('helper', key) | ('other', shown)"""
        if src is None:
            return ("other", "?")
        x = _step_source(src)
        if x[0] == "call" and x[1] and x[1]["path"] == "serde_json::from_str":
            txt = strip_refs(x[2][0])
            if "serde_json::Value" in (x[1].get("full") or "") and txt in (("arg", texts[0]), ("arg", texts[1])):
                return ("parse", 1 + texts.index(txt[1]))
            return ("other", show_expr(x)[:120])
        if _is_lib_apply(facts, x):
            return ("apply",)
        if _is_local_helper(facts, x):
            return ("helper", x[1].get("key"))
        return ("other", show_expr(x)[:120])

    ok_cases, err_cases = [], []
    for conds, v, path in cs:
        v = strip_refs(v)
        atoms = [(k, step_of(src), val) for (k, src, val) in _case_atoms(cs, conds)]
        failed = [(k, st) for (k, st, val) in atoms if val in ("Err", "None")]
        napply = sum(1 for ev in path.events if _is_lib_apply(facts, ("call", ev[1], ev[2], ev[3]))) + sum(_closure_applies(facts, ev) for ev in path.events)
        if v[0] == "agg" and v[1].get("variant") == "Ok":
            ok_cases.append((conds, v, path, atoms, failed, napply))
        elif _errish(v):
            err_cases.append((conds, v, path, atoms, failed, napply))
        else:
            ctx.unread("K2.serialises-result", fk, "a way through the binding returns %s, which is neither Ok(..) nor an error" % show_expr(v)[:120], where=f.where(), fn=f.key)
    # ---- success: Ok(Value::to_string(payload of apply(payload of from_str(arg1), payload of from_str(arg2))))
    helper_seen = None
    good_ok = 0
    for conds, v, path, atoms, failed, napply in ok_cases:
        if failed:
            ctx.fail("K2.parse-errors-propagate", "%s|swallowed" % fk, "the binding returns a value although %s failed — the Python caller gets a result instead of ValueError" % ", ".join(sorted({" ".join(map(str, st)) for _, st in failed})), where=f.where(), fn=f.key)
            continue
        x = strip_refs(v[2][0]) if v[2] else ("unit",)
        ser = x[0] == "call" and x[1] and x[1]["path"].endswith("::to_string") and "serde_json::Value" in (x[1].get("full") or "") and x[2]
        src = _step_source(x[2][0]) if ser else None
        if not ser or not _is_lib_apply(facts, src):
            if _mentions_helper(facts, x):
                helper_seen = helper_seen or "the success value"
                ctx.unread("K2.serialises-result", fk, "the value returned on success is computed by a helper function: %s" % show_expr(x)[:120], where=f.where(), fn=f.key)
            else:
                ctx.fail("K2.serialises-result", fk, "the binding's success value is %s — not Value::to_string of the payload of the library's apply" % show_expr(x)[:200], where=f.where(), fn=f.key)
            continue
        ctx.check(napply == 1, "K2.calls-apply-once", "the binding calls the library's apply exactly once on its way to a result", "%d calls of the library's apply on a way to a result" % napply, where=f.where(src[3] if src[3] >= 0 else None), fn=f.key, nontrivial=True)
        args = [_step_source(a) for a in src[2]]
        sts = [step_of(a) for a in src[2]]
        if sts == [("parse", 1), ("parse", 2)]:
            ctx.ok("K2.parse-order", "apply(from_str::<Value>(value)?, from_str::<Value>(data)?) — rule first, data second", nontrivial=True, sample={"args": [show_expr(a)[:80] for a in args]})
            ctx.ok("K2.serialises-result", "the binding returns Value::to_string of apply's Ok payload, and nothing else on success", nontrivial=True)
            good_ok += 1
        elif any(st[0] == "helper" for st in sts):
            ctx.unread("K2.parse-order", fk, "an argument of the library call is produced by the helper function %s" % [st[1] for st in sts if st[0] == "helper"][0], where=f.where(), fn=f.key)
        else:
            ctx.fail("K2.parse-order", fk, "the library is called with (%s, %s) — not with serde_json::from_str::<Value> of the whole first and second argument, in this order" % (show_expr(args[0])[:160], show_expr(args[1])[:160]) if len(args) == 2 else "the library is called with %d arguments" % len(args), where=f.where(), fn=f.key)
    if not ok_cases:
        ctx.fail("K2.serialises-result", fk, "no way through the binding returns Ok(..)", where=f.where(), fn=f.key)
    # ---- failure: every error exit belongs to a failed step; every step has one
    have = set()
    for conds, v, path, atoms, failed, napply in err_cases:
        if not failed:
            others = [k for k in conds if k[0] != "variant"]
            if others and not any(st[0] == "helper" for _, st, _v in atoms):
                ctx.fail("K2.parse-errors-propagate", "%s|extra-error" % fk, "the binding fails on a way on which no parse and no evaluation failed (decided by %s): inputs the library accepts raise ValueError" % ", ".join(str(k[0]) + ":" + str(k[1])[:60] for k in others[:3]), where=f.where(), fn=f.key)
            else:
                ctx.unread("K2.parse-errors-propagate", "%s|extra-error" % fk, "an error exit whose cause could not be read", where=f.where(), fn=f.key)
            continue
        for k, st in failed:
            have.add(st)
    unread_helpers = sorted({st[1] for c in ok_cases + err_cases for (_k, st, _v) in c[3] if st[0] == "helper"})
    want = [("parse", 1), ("parse", 2), ("apply",)]
    missing = [st for st in want if st not in have]
    if not missing:
        ctx.ok("K2.parse-errors-propagate", "the two parse errors and the library's error each have their own error exit (`?` or an Err arm), and there is no other", nontrivial=True)
    elif unread_helpers:
        ctx.unread("K2.parse-errors-propagate", fk, "fallible steps are inside the helper function(s) %s" % ", ".join(unread_helpers), where=f.where(), fn=f.key)
    else:
        ctx.fail("K2.parse-errors-propagate", fk, "no error exit for the failure of: %s (error exits found for %s)" % (", ".join(" ".join(map(str, st)) for st in missing), sorted(" ".join(map(str, st)) for st in have)), where=f.where(), fn=f.key)
    # errors: no dropper on any Result in the python interface
    droppers = []
    for b in py:
        for bi, t in b.calls():
            p = callee_path(t) or ""
            if p.startswith("std::result::Result::<T, E>::") and p.rsplit("::", 1)[1] in errdisc.DROPPERS | {"unwrap_or", "ok"}:
                droppers.append((b, bi, p))
    for b, bi, p in droppers:
        ctx.fail("K2.error-dropped", "%s@%s" % (b.key.split("::", 1)[1], p.rsplit("::", 1)[1]), "the binding discards an error with %s — malformed input or a library error would surface as a value" % p, where=b.where(bi), fn=b.key)
    if not droppers:
        ctx.ok("K2.error-dropped", "no Result is discarded in the binding", nontrivial=True)


def wrapper_table(ctx, facts, f, w):
    """The PyResult wrapper: Ok(payload of inner(value, data)) | Err(exception) exactly when inner failed."""
    wk = w.key.split("::", 1)[1]
    cs = optnorm.decision_cases(facts, w)
    if cs is None:
        ctx.unread("K2.wrapper", wk, "the wrapper contains a loop or too many paths", where=w.where(), fn=w.key)
        return

    def is_inner(e):
        x = _step_source(e)
        return x[0] == "call" and x[1] and x[1].get("key") == f.key and [strip_refs(a) for a in x[2]] == [("arg", 2), ("arg", 3)]
    n_ok = n_err = 0
    bad = []
    unread = []
    for conds, v, path in cs:
        v = strip_refs(v)
        atoms = _case_atoms(cs, conds)
        failed = [src for (k, src, val) in atoms if val in ("Err", "None")]
        foreign = [src for (k, src, val) in atoms if src is None or not is_inner(src)]
        if foreign:
            (unread if any(s_ is not None and _mentions_helper(facts, s_, but=f.key) for s_ in foreign) else bad).append("the wrapper decides on %s" % show_expr(foreign[0])[:100] if foreign[0] is not None else "a step that was not read")
            continue
        if v[0] == "agg" and v[1].get("variant") == "Ok":
            if failed:
                bad.append("Ok(..) is returned although the binding failed")
            elif v[2] and is_inner(v[2][0]) and strip_refs(v[2][0])[0] in ("payload", "field"):
                n_ok += 1
            elif v[2] and _mentions_helper(facts, v[2][0], but=f.key):
                unread.append("success value %s" % show_expr(v)[:100])
            else:
                bad.append("on success the wrapper returns %s, not the binding's text" % show_expr(v)[:120])
        elif _errish(v):
            if failed:
                n_err += 1
            else:
                bad.append("an exception is raised although the binding succeeded")
        else:
            x = _step_source(v)
            if not atoms and x[0] == "call" and x[1] and x[1].get("key") == f.key:
                bad.append("the wrapper returns the binding's Result unconverted")
            else:
                unread.append("result %s" % show_expr(v)[:100])
    if bad:
        ctx.fail("K2.wrapper", wk, "; ".join(bad[:3]), where=w.where(), fn=w.key)
    elif unread:
        ctx.unread("K2.wrapper", wk, "; ".join(unread[:3]), where=w.where(), fn=w.key)
    else:
        ctx.check(n_ok >= 1 and n_err >= 1, "K2.wrapper", "the PyResult wrapper returns inner(value, data)'s text on Ok and raises on Err — nothing else", "wrapper cases: %d success, %d failure" % (n_ok, n_err), where=w.where(), fn=w.key, nontrivial=True)



def check_native(ctx):
    facts = ctx.facts("python")
    py = [b for b in facts.fns() if "python_iface" in b.key and not b.span.get("exp")]
    ctx.need(py, "python interface functions not found")
    # inner: fn(&str,&str) -> Result<String,String>; wrapper: returns PyResult
    # the wrapper is the function handed to Python: it takes the two texts and returns a value or an exception (other
    # functions of the interface may mention PyErr too: one that builds the exception, one that fills the module)
    wrapper = [b for b in py if b.kind == "fn" and re.match(r"^std::result::Result<.*, cpython::PyErr>$", facts.items[b.key]["output"]) and (facts.items[b.key]["inputs"] or [])[-2:] == ["&str", "&str"]]
    inner = [b for b in py if b.kind == "fn" and facts.items[b.key]["inputs"] == ["&str", "&str"] and b not in wrapper]
    if len(inner) > 1 and len(wrapper) == 1:      # several (&str, &str) functions: the one the PyResult wrapper calls
        cg0, _ = facts.callgraph()
        inner = [b for b in inner if b.key in cg0.get(wrapper[0].key, ())] or inner
    merged = False
    if not inner and len(wrapper) == 1 and facts.items[wrapper[0].key]["inputs"][1:] == ["&str", "&str"]:
        # one function does both jobs (the two parses, the evaluation and the conversion of the error to an exception):
        # the same decision table, with the texts at the wrapper's positions; its rows are the wrapper's rows
        merged = True
        inner = wrapper
    ctx.need(len(inner) == 1 and len(wrapper) == 1, "binding functions not identified (inner %d, wrapper %d)" % (len(inner), len(wrapper)))
    f, w = inner[0], wrapper[0]
    if merged:
        binding_table(ctx, facts, w, py, texts=(2, 3))
        ctx.ok("K2.wrapper", "the PyResult wrapper holds the parses and the evaluation itself: Ok(text) exactly when no step failed, an exception otherwise (its decision table, K2.serialises-result / K2.parse-errors-propagate)", nontrivial=True)
    else:
        binding_table(ctx, facts, f, py)
        wrapper_table(ctx, facts, f, w)
    ctors = []
    for b in py:
        for bi, t in b.calls():
            c = callee_of(t)
            if c and c["crate"] == "cpython" and "PyErr" in c["path"]:
                ctors.append((b, bi, c))
    ctx.check(len(ctors) >= 1, "K2.raises", "an exception is constructed for Err", "no PyErr construction", where=w.where(), fn=w.key)
    for b, bi, c in ctors:
        ctx.check(c["path"].endswith("PyErr::new") and "cpython::exc::ValueError" in c["full"], "K2.valueerror", "%s bb%d raises ValueError" % (b.key.split("::", 1)[1], bi),
                  "the binding raises %s" % c["full"], where=b.where(bi), fn=b.key, nontrivial=True, sample={"ctor": c["full"]})
    # the binding itself cannot panic (a panic would surface as SystemError / abort, not ValueError);
    # the library below it is C01's business under the same configuration
    from . import panic as PN
    from .roles import Roles
    api = PN.Api()
    roles = Roles(facts)
    arity = PN.Arity(facts, roles)
    n = 0
    for b in py:
        srcs, unknown = PN.sources_of(api, b)
        for sx in srcs:
            tsp = b.blocks[sx.bi]["tspan"]
            if tsp.get("exp") and any(m.startswith("py_") for m in tsp.get("macros", [])):
                continue
            n += 1
            j = PN.justify(facts, roles, arity, sx, {})
            ctx.check(j is not None, "K2.no-panic", "%s|%s" % (b.key.split("::", 1)[1], sx.what),
                      "panic source in the binding (%s): the Python caller would get SystemError or an abort instead of ValueError" % sx.what, where=b.where(sx.bi), fn=b.key, nontrivial=True)
    if n == 0:
        ctx.ok("K2.no-panic", "no panic source in the user-written binding functions", nontrivial=True)
    # rendering the error is part of the binding's job: the Display/Debug impls of the crate's own types that
    # the message is built from (followed through format arguments) must not be able to panic either
    fmt_impls = {}
    for k, it_ in facts.items.items():
        ins = it_.get("inputs") or []
        if k.endswith("::fmt") and len(ins) == 2 and ins[1].startswith("&mut std::fmt::Formatter"):
            fmt_impls.setdefault(ins[0].lstrip("&"), []).append(k)

    def shown_types(b):
        out = set()
        # a generic helper (`fn error_message<E: Display>(e: E)`) shows its type parameter: one type per instantiation
        root_ = b.key.split("::{closure#", 1)[0]
        gen_ = facts.items.get(root_, {}).get("generics") or []
        for bi, t in b.calls():
            c0 = t.get("callee") or {}
            if gen_ and c0.get("targs") and (re.search(r"Argument::<'_>::new_(display|debug)$", c0.get("path") or "") or (c0.get("path") == "std::string::ToString::to_string" and not c0.get("resolved"))):
                for ta in c0["targs"]:
                    ta = ta.lstrip("&")
                    if ta in gen_:
                        for targs_ in facts.instantiations(root_):
                            if gen_.index(ta) < len(targs_):
                                out.add(targs_[gen_.index(ta)].lstrip("&"))
            c = callee_of(t)
            if c and re.search(r"Argument::<'_>::new_(display|debug)$", c["path"]):
                for ta in t["callee"].get("targs", []):
                    out.add(ta.lstrip("&"))
            if c and c["path"].endswith("std::string::ToString>::to_string"):
                m_ = re.match(r"^<(.+) as std::string::ToString>::to_string$", c.get("full") or "")
                if m_:
                    out.add(m_.group(1).lstrip("&"))
        return out

    cgl, _ = facts.callgraph()
    todo = [k for b in py for ty in shown_types(b) for k in fmt_impls.get(ty, [])]
    seen = set()
    while todo:
        k = todo.pop()
        if k in seen or facts.body(k) is None:
            continue
        seen.add(k)
        bb = facts.body(k)
        todo.extend(x for x in cgl.get(k, ()) if x != roles.entry.key)
        todo.extend(x for ty in shown_types(bb) for x in fmt_impls.get(ty, []))
    ctx.floor("error-rendering functions reachable from the binding", len(seen), 2)
    nr = 0
    for k in sorted(seen):
        bb = facts.body(k)
        srcs, unknown = PN.sources_of(api, bb)
        for sx in srcs:
            nr += 1
            j = PN.justify(facts, roles, arity, sx, {})
            ctx.check(j is not None, "K2.error-rendering-no-panic", "%s|%s" % (bb.key.split("::", 1)[1], sx.what),
                      "panic source (%s%s) in the rendering of the library's error: for some library errors the Python caller gets SystemError or an abort instead of ValueError" % (sx.what, (" — " + sx.reason) if sx.reason else ""), where=bb.where(sx.bi), fn=bb.key, nontrivial=True)
    if nr == 0:
        ctx.ok("K2.error-rendering-no-panic", "no panic source in the %d functions that render the library's error for Python" % len(seen), nontrivial=True)
    # module initialiser: exports "apply", references the wrapper
    names = set()
    refs = set()
    for b in facts.fns():
        if "python_iface" in b.key and b.span.get("exp"):
            for bi, si, s in b.stmts():
                if s["k"] == "Assign" and s["rv"]["k"] == "Use":
                    c = op_const(s["rv"]["op"])
                    if c and isinstance(const_value(c), str):
                        names.add(const_value(c))
            for bi, t in b.calls():
                for a in t["args"]:
                    c = op_const(a)
                    if c and isinstance(const_value(c), str):
                        names.add(const_value(c))
                cc = callee_of(t)
                if cc and cc.get("key") == w.key:
                    refs.add(b.key)
    cg, _ = facts.callgraph()
    referenced = any(w.key in cg.get(b.key, ()) for b in facts.fns() if "python_iface" in b.key and b.span.get("exp"))

    def reach(roots):
        seen, st = set(), list(roots)
        while st:
            k = st.pop()
            if k in seen:
                continue
            seen.add(k)
            st.extend(cg.get(k, ()))
        return seen
    # wherever the registration is written (in the initialiser's own body or in a function it calls): a call
    # PyModule::add(m, py, "apply", <callable>) that the initialiser reaches, whose callable — the py_fn! glue nested in
    # the function that makes the call — reaches the wrapper
    loose, names = names, set()       # every string constant of the glue (kept for the report only)
    init_reach = reach([k for k in facts.items if "python_iface" in k and k.endswith("PyInit_jsonlogic")])
    for b in facts.fns():
        if b.key not in init_reach:
            continue
        for bi, t in b.calls():
            if callee_path(t) == "cpython::PyModule::add" and len(t["args"]) >= 4:
                nm = strip_refs(b.trace(t["args"][2]))
                nm = const_value(nm[1]) if nm[0] == "const" else None
                if isinstance(nm, str):
                    glue = reach([k for k in facts.items if k.startswith(b.key + "::") and facts.body(k) is not None and facts.body(k).span.get("exp")])
                    if nm != "apply" or w.key in glue:
                        names.add(nm)
                    else:
                        names.add("%s (not the wrapper)" % nm)
    ctx.check("apply" in names and referenced, "K2.module-export", "the module initialiser registers the wrapper as \"apply\"", "names registered by the initialiser (PyModule::add): %s; wrapper referenced by the glue: %s" % (sorted(names), referenced), where=w.where(), fn=w.key)
    inits = [k for k in facts.items if "python_iface" in k and k.endswith("PyInit_jsonlogic")]
    ctx.check(bool(inits), "K2.module-name", "the extension module is initialised as `jsonlogic` (PyInit_jsonlogic)", "no PyInit_jsonlogic symbol", where=w.where())


def check_setup(ctx):
    path = os.path.join(ex.REPO, "setup.py")
    ctx.need(os.path.exists(path), "setup.py not found")
    tree = ast.parse(open(path).read())
    exts = []
    for n in ast.walk(tree):
        if isinstance(n, ast.Call) and isinstance(n.func, ast.Name) and n.func.id == "RustExtension":
            exts.append(n)
    ctx.check(len(exts) == 1, "K3.extension", "setup.py declares one RustExtension", "%d RustExtension declarations" % len(exts), where="setup.py")
    for e in exts:
        target = e.args[0].value if e.args and isinstance(e.args[0], ast.Constant) else None
        feats = None
        for kw in e.keywords:
            if kw.arg == "features":
                try:
                    feats = list(ast.literal_eval(kw.value))
                except Exception:
                    feats = None
        ctx.check(target == "jsonlogic_rs.jsonlogic", "K3.target", "extension target is jsonlogic_rs.jsonlogic (what the wrapper imports)", "extension target is %r" % target, where="setup.py:%d" % e.lineno)
        ctx.check(feats is not None and "python" in feats, "K3.feature", "extension is built with feature python", "features: %r" % feats, where="setup.py:%d" % e.lineno)


def run(ctx):
    ctx.explanation = __doc__
    ctx.rule = "instances = AST facts of the two wrapper functions (definite-assignment of defaults, argument shapes), MIR facts of the binding, setup.py facts; non-trivial = path/dataflow facts"
    ctx.trusted = ["CPython semantics of the straight-line wrapper", "rust-cpython's py_fn!/py_module_initializer! glue", "json.dumps/json.loads"]
    check_python(ctx)
    check_native(ctx)
    check_setup(ctx)
    from . import manifest as MF
    for feat in (("python",) if ctx.tier == "quick" else ("python", "wasm")):
        changes, npk = MF.library_config_changes(feat)
        ctx.floor("packages of the library build compared (%s)" % feat, npk, 10)
        ctx.check(not changes, "K4.same-library", "feature %s leaves every package of the library build configured as in the default build (%d packages, cargo's resolver)" % (feat, npk),
                  "enabling feature %s reconfigures packages the library itself is built from: %s — the module no longer wraps the library other users get" % (feat, "; ".join("%s +%s -%s" % (p_, sorted(a), sorted(r_)) for p_, a, r_ in changes)),
                  where="Cargo.toml", nontrivial=True)
