#!/usr/bin/env python3
"""Clauses every per-operator property rests on, run before the property's own rules (engine._attempt).

K0.stateless — "for all rules and data the operator's result is the one the property states" presupposes that the
result is a function of the operands and the data: nothing in the call-graph reach of the property's operators reads
or writes a static with interior mutability, a `static mut`, or a thread-local.  (C17 states the same for the whole
evaluation; here the reach is that of the property's own operators, so a conversion cache shared by two conversions —
seeded C10-M, C17-C — is reported by the property whose operators run through it, with the path to the state.)  The
clause is decided on the call graph and the item table: no function of the crate is executed.
"""
from .core import callee_of, callee_path

OPERATORS = {
    "C05": ["if", "?:", "and", "or"],
    "C06": ["!", "!!", "if", "?:", "and", "or", "filter", "all", "some", "none"],
    "C07": ["==", "!="],
    "C08": ["===", "!=="],
    "C09": ["<", "<=", ">", ">="],
    "C10": ["+", "-", "*", "/", "%", "min", "max"],
    "C11": ["var"],
    "C12": ["missing", "missing_some"],
    "C13": ["map", "filter", "reduce"],
    "C14": ["all", "some", "none"],
    "C15": ["merge", "in"],
    "C16": ["cat", "substr"],
}


def _path_to(facts, roots, target, extra):
    cg, _ = facts.callgraph()
    prev = {r: None for r in roots}
    q = list(roots)
    while q:
        k = q.pop(0)
        if k == target:
            out = []
            while k is not None:
                out.append(k)
                k = prev[k]
            return list(reversed(out))
        for s in list(cg.get(k, ())) + list(extra.get(k, ())):
            if s not in prev:
                prev[s] = k
                q.append(s)
    return None


def stateless(ctx, cfg="default"):
    ops = OPERATORS.get(ctx.prop)
    if not ops:
        return
    from .roles import Roles
    facts = ctx.facts(cfg)
    roles = Roles(facts)
    roots = []
    for name in ops:
        b, e = roles.fn_of(name)
        if b is not None and b.key not in roots:
            roots.append(b.key)
    # operators that evaluate operands themselves reach the whole interpreter through the tables' function pointers
    extra = {}
    for b in facts.fns():
        if any(callee_of(t) is None for _, t in b.calls()):
            extra[b.key] = set(roles.op_fns)
    reach = facts.reach(roots, extra)
    n = 0
    for k, it in sorted(facts.items.items()):
        if it["kind"] != "static" or k not in reach:
            continue
        gen = it["span"].get("exp") and any(m.startswith("py_") or "wasm_bindgen" in m for m in it["span"].get("macros", []))
        bad = it.get("static_mut") or not it.get("freeze") or it.get("thread_local")
        n += 1
        if bad or gen:
            p = _path_to(facts, roots, k, extra) or []
            ctx.fail("K0.stateless", "static %s in the reach of %s" % (k.split("::", 1)[1], "/".join(ops)),
                     "the result of %s can depend on state that outlives the call: static %s (%s%s%s) is reachable from the operator (%s)" % (
                         "/".join(ops), k.split("::", 1)[1], "static mut " if it.get("static_mut") else "", "interior mutability " if not it.get("freeze") else "",
                         "thread-local" if it.get("thread_local") else "", " -> ".join(x.split("::", 1)[-1] for x in p[-5:])),
                     where="%s:%d" % (it["span"]["file"], it["span"]["line"]))
    tls = []
    for k in sorted(reach):
        b = facts.body(k)
        if b is None or b.kind not in ("fn", "closure"):
            continue
        for bi, si, s in b.stmts():
            if s["k"] == "Assign" and s["rv"]["k"] == "ThreadLocalRef":
                tls.append((b, bi))
        for bi, t in b.calls():
            p = callee_path(t) or ""
            if p.startswith("std::thread::local::LocalKey") or p.startswith("std::thread::LocalKey"):
                tls.append((b, bi))
    seen = set()
    for b, bi in tls:
        root = b.key.split("::{closure#", 1)[0]
        if root in seen:
            continue
        seen.add(root)
        ctx.fail("K0.stateless", "thread-local access in %s" % root.split("::", 1)[1],
                 "the result of %s can depend on earlier calls on the same thread: %s, in the operators' reach, accesses thread-local state" % ("/".join(ops), root.split("::", 1)[1]),
                 where=b.where(bi), fn=b.key)
    if not tls and not any(v["clause"] == "K0.stateless" for v in ctx.viol):
        ctx.ok("K0.stateless", "no static with interior mutability, static mut or thread-local in the reach of %s (%s: %d bodies, %d statics)" % ("/".join(ops), cfg, len(reach), n), nontrivial=True)


def prelude(ctx):
    stateless(ctx)
