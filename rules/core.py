#!/usr/bin/env python3
"""Shared program representation for the rule engine: facts, CFG utilities,
dominators, def/use tracing, call graph."""
import json, os, sys
from collections import defaultdict

sys.setrecursionlimit(10000)


# ------------------------------------------------------------------ helpers
def place_is_local(p):
    return not p["proj"]


def op_place(o):
    return o["place"] if o["k"] in ("Copy", "Move") else None


def op_const(o):
    return o["const"] if o["k"] == "Const" else None


def const_value(c):
    """Python value of a scalar/str constant, or None."""
    if c is None:
        return None
    if "bool" in c:
        return c["bool"]
    if "int" in c:
        return int(c["int"])
    if "float" in c:
        f = c["float"]
        return float(f.replace("inf", "inf").replace("NaN", "nan"))
    if "str" in c:
        return c["str"]
    if "char" in c:
        return c["char"]
    return None


def callee_of(term):
    """(resolved-or-syntactic path, full, key, crate, local?) for a Call terminator; None for indirect."""
    c = term.get("callee")
    if not c:
        return None
    r = c.get("resolved")
    if r and "fwd" in c and "fwd" not in r:
        r["fwd"] = c["fwd"]
    return r if r else c


def callee_path(term):
    c = callee_of(term)
    return c["path"] if c else None


class Body:
    def __init__(self, j, facts):
        self.j = j
        self.facts = facts
        self.key = j["key"]
        self.name = j["name"]
        self.kind = j["kind"]
        self.parent = j["parent"]
        self.blocks = j["blocks"]
        self.locals = j["locals"]
        self.arg_count = j["arg_count"]
        self.span = j["span"]
        self._succ = None
        self._pred = None
        self._idom = None
        self._ipdom = None
        self._defs = None
        self._restrict = None
        self._tcache = {}

    # ---- CFG
    def live_blocks(self):
        return [i for i, b in enumerate(self.blocks) if not b["cleanup"]]

    def edges(self, bi):
        """[(label, target)] — label is the switch value (str), 'otherwise', or None."""
        t = self.blocks[bi]["term"]
        k = t["k"]
        if k == "Goto":
            return [(None, t["target"])]
        if k == "SwitchInt":
            return [(v, b) for v, b in t["arms"]] + [("otherwise", t["otherwise"])]
        if k in ("Call",):
            return [(None, t["target"])] if t["target"] is not None else []
        if k in ("Drop", "Assert"):
            return [(None, t["target"])]
        return []

    def succs(self, bi):
        if self._succ is None:
            self._succ = {}
            for i in range(len(self.blocks)):
                seen = []
                for _, t in self.edges(i):
                    if t not in seen:
                        seen.append(t)
                self._succ[i] = seen
        return self._succ[bi]

    def preds(self, bi):
        if self._pred is None:
            self._pred = defaultdict(list)
            for i in self.live_blocks():
                for s in self.succs(i):
                    self._pred[s].append(i)
        return self._pred[bi]

    def reachable(self, start=0, avoid=()):
        seen = set()
        st = [start]
        while st:
            b = st.pop()
            if b in seen or b in avoid:
                continue
            seen.add(b)
            st.extend(self.succs(b))
        return seen

    def rpo(self):
        seen = set()
        order = []

        def dfs(b):
            stack = [(b, iter(self.succs(b)))]
            seen.add(b)
            while stack:
                n, it = stack[-1]
                adv = False
                for s in it:
                    if s not in seen:
                        seen.add(s)
                        stack.append((s, iter(self.succs(s))))
                        adv = True
                        break
                if not adv:
                    order.append(n)
                    stack.pop()

        dfs(0)
        order.reverse()
        return order

    def idoms(self):
        if self._idom is None:
            order = self.rpo()
            idx = {b: i for i, b in enumerate(order)}
            idom = {0: 0}
            changed = True
            while changed:
                changed = False
                for b in order[1:]:
                    ps = [p for p in self.preds(b) if p in idom]
                    if not ps:
                        continue
                    new = ps[0]
                    for p in ps[1:]:
                        a, c = p, new
                        while a != c:
                            while idx[a] > idx[c]:
                                a = idom[a]
                            while idx[c] > idx[a]:
                                c = idom[c]
                        new = a
                    if idom.get(b) != new:
                        idom[b] = new
                        changed = True
            self._idom = idom
        return self._idom

    def dominates(self, a, b):
        idom = self.idoms()
        if b not in idom:
            return False
        while True:
            if a == b:
                return True
            if b == 0:
                return False
            b = idom[b]

    def dominators(self, b):
        idom = self.idoms()
        out = []
        if b not in idom:
            return out
        while True:
            out.append(b)
            if b == 0:
                break
            b = idom[b]
        return out

    def exits(self):
        return [i for i in self.live_blocks() if self.blocks[i]["term"]["k"] == "Return"]

    def ipdoms(self):
        """Immediate post-dominators w.r.t. a virtual exit joined from Return blocks (-1)."""
        if self._ipdom is None:
            EXIT = -1
            rsucc = defaultdict(list)  # reverse graph successors = preds
            nodes = set(self.reachable())
            for n in nodes:
                for s in self.succs(n):
                    rsucc[s].append(n)
            for e in self.exits():
                rsucc[EXIT].append(e)
            # rpo on reverse graph
            seen = {EXIT}
            order = []
            stack = [(EXIT, iter(rsucc[EXIT]))]
            while stack:
                n, it = stack[-1]
                adv = False
                for s in it:
                    if s not in seen:
                        seen.add(s)
                        stack.append((s, iter(rsucc[s])))
                        adv = True
                        break
                if not adv:
                    order.append(n)
                    stack.pop()
            order.reverse()
            idx = {b: i for i, b in enumerate(order)}
            ipdom = {EXIT: EXIT}
            rpred = defaultdict(list)
            for n in nodes:
                for s in self.succs(n):
                    rpred[n].append(s)  # preds in reverse graph = succs
            for e in self.exits():
                rpred[e].append(EXIT)
            changed = True
            while changed:
                changed = False
                for b in order[1:]:
                    ps = [p for p in rpred[b] if p in ipdom]
                    if not ps:
                        continue
                    new = ps[0]
                    for p in ps[1:]:
                        a, c = p, new
                        while a != c:
                            while idx[a] > idx[c]:
                                a = ipdom[a]
                            while idx[c] > idx[a]:
                                c = ipdom[c]
                        new = a
                    if ipdom.get(b) != new:
                        ipdom[b] = new
                        changed = True
            self._ipdom = ipdom
        return self._ipdom

    def postdominates(self, a, b):
        """a post-dominates b (every path from b to return passes a)."""
        ip = self.ipdoms()
        if b not in ip:
            return False
        while True:
            if a == b:
                return True
            if b == -1:
                return False
            b = ip[b]

    def back_edges(self):
        out = []
        for b in self.reachable():
            for s in self.succs(b):
                if self.dominates(s, b):
                    out.append((b, s))
        return out

    # ---- statements
    def calls(self, reach_only=True):
        """Yield (bi, term) for every Call terminator in non-cleanup (reachable) blocks."""
        bl = sorted(self.reachable()) if reach_only else self.live_blocks()
        for i in bl:
            if self.blocks[i]["cleanup"]:
                continue
            t = self.blocks[i]["term"]
            if t["k"] in ("Call", "TailCall"):
                yield i, t

    def stmts(self):
        for i in sorted(self.reachable()):
            if self.blocks[i]["cleanup"]:
                continue
            for si, s in enumerate(self.blocks[i]["stmts"]):
                yield i, si, s

    def defs(self):
        """local -> list of ('stmt', bi, si, rv, partial) | ('call', bi, term, partial)."""
        if self._defs is None:
            d = defaultdict(list)
            for i in self.live_blocks():
                for si, s in enumerate(self.blocks[i]["stmts"]):
                    if s["k"] == "Assign":
                        d[s["place"]["local"]].append(("stmt", i, si, s["rv"], bool(s["place"]["proj"])))
                t = self.blocks[i]["term"]
                if t["k"] == "Call":
                    d[t["dest"]["local"]].append(("call", i, t, bool(t["dest"]["proj"])))
            self._defs = d
        return self._defs

    def local_ty(self, l):
        return self.locals[l]["ty"]

    def is_arg(self, l):
        return 1 <= l <= self.arg_count

    # ---- value tracing ---------------------------------------------------
    def trace(self, x, depth=0, seen=None):
        """Symbolic expression for an operand/place/local, following single-def temps.

        Expression forms (tuples):
          ('arg', n)                      n-th parameter (1-based)
          ('const', constdict)
          ('call', callee_dict|None, [arg exprs], bi)
          ('ref', expr) ('deref', expr) ('field', expr, i) ('downcast', expr, variant)
          ('index', expr, idxexpr)
          ('cast', kind, expr, to)
          ('agg', kinddict, [exprs])
          ('binop', op, a, b) ('unop', op, a) ('discr', expr)
          ('phi', local, [exprs])        several definitions
          ('upvar', i)                    closure capture field i (closure bodies: _1.i)
          ('undef', local)
        """
        if seen is None:
            seen = frozenset()
        if depth > 400:
            return ("deep",)
        if isinstance(x, int):
            return self._trace_local(x, depth, seen)
        if "k" in x and x["k"] in ("Copy", "Move"):
            return self._trace_place(x["place"], depth, seen)
        if "k" in x and x["k"] == "Const":
            c = x["const"]
            if "promoted" in c:
                pb = self.facts.body(c["promoted"])
                if pb is not None and pb is not self:
                    return pb.trace(0, depth + 1)
            return ("const", c)
        if "local" in x:
            return self._trace_place(x, depth, seen)
        return ("other", x.get("k"))

    def _trace_place(self, p, depth, seen):
        e = self._trace_local(p["local"], depth + 1, seen)
        return self._project(e, p["proj"], None, None, depth, seen)

    def _project(self, e, proj, env=None, walker=None, depth=0, seen=frozenset()):
        """Apply place projections to an expression (env/walker: path-local values, see rules/pathsum.py)."""
        for pr in proj:
            k = pr["k"]
            if k == "Deref":
                e = e[1] if e[0] == "ref" else ("deref", e)
            elif k == "Field":
                if e[0] == "agg" and pr["i"] < len(e[2]) and e[1].get("agg") in ("Tuple", "Adt", "Closure", "fields"):
                    e = e[2][pr["i"]]
                elif e[0] == "phi" and e[2] and all(a[0] == "agg" and pr["i"] < len(a[2]) and a[1].get("agg") in ("Tuple", "Adt") for a in e[2]):
                    # every definition is a constructor: the field is one of the corresponding operands
                    alts = [a[2][pr["i"]] for a in e[2]]
                    e = alts[0] if len(alts) == 1 else ("phi", e[1], alts)
                else:
                    e = ("field", e, pr["i"])
            elif k == "Downcast":
                e = _project_variant(e, pr["variant"])
            elif k == "Index":
                if env is not None and pr["local"] in env:
                    ie = env[pr["local"]]
                else:
                    ie = self._trace_local(pr["local"], depth + 1, seen)
                e = ("index", e, ie)
            elif k == "ConstantIndex":
                e = ("cindex", e, pr["offset"], pr["from_end"])
            else:
                e = ("proj", e, k)
        return e

    def _trace_local(self, l, depth, seen):
        if self.is_arg(l):
            return ("arg", l)
        if l in seen:
            return ("cycle", l)
        if self._restrict is None:
            hit = self._tcache.get(l)
            if hit is not None:
                return hit
            r = self._trace_local_uncached(l, depth, seen)
            if not expr_mentions(r, lambda x: x[0] in ("cycle", "deep")):
                self._tcache[l] = r
            return r
        return self._trace_local_uncached(l, depth, seen)

    def _trace_local_uncached(self, l, depth, seen):
        ds = self.defs().get(l, [])
        if self._restrict is not None:
            ds = [d for d in ds if d[1] in self._restrict]
        full = [d for d in ds if not d[-1]]
        if not ds:
            return ("undef", l)
        seen = seen | {l}
        if len(ds) == 1 and full:
            return self._trace_def(ds[0], depth, seen)
        if any(d[-1] for d in ds):
            return ("partial", l, [self._trace_def(d, depth, seen) for d in ds])
        return ("phi", l, [self._trace_def(d, depth, seen) for d in full])

    def _trace_def(self, d, depth, seen):
        if d[0] == "call":
            t = d[2]
            return ("call", callee_of(t), [self.trace(a, depth + 1, seen) for a in t["args"]], d[1])
        rv = d[3]
        k = rv["k"]
        if k == "Use":
            return self.trace(rv["op"], depth + 1, seen)
        if k == "Ref" or k == "RawPtr":
            return ("ref", self._trace_place(rv["place"], depth + 1, seen))
        if k == "CopyForDeref":
            return self._trace_place(rv["place"], depth + 1, seen)
        if k == "Cast":
            return ("cast", rv["cast"], self.trace(rv["op"], depth + 1, seen), rv["to"])
        if k == "Aggregate":
            return ("agg", {kk: rv[kk] for kk in rv if kk not in ("ops", "k")}, [self.trace(o, depth + 1, seen) for o in rv["ops"]])
        if k == "BinaryOp":
            return ("binop", rv["op"], self.trace(rv["a"], depth + 1, seen), self.trace(rv["b"], depth + 1, seen), rv.get("opty"))
        if k == "UnaryOp":
            return ("unop", rv["op"], self.trace(rv["a"], depth + 1, seen))
        if k == "Discriminant":
            return ("discr", self._trace_place(rv["place"], depth + 1, seen), rv.get("adt"))
        return ("rv", k)

    def threaded_outcome(self, call_bi):
        """In a helper-inlined view (rules/inline.py) the switch that follows a call may have been decided on this
        path (jump threading).  Returns (variant name, target block) for the discriminant switch of the value the
        call at `call_bi` defines, or None."""
        t = self.blocks[call_bi]["term"]
        nxt = t.get("target")
        hops = 0
        while nxt is not None and hops < 4:
            bt = self.blocks[nxt]["term"]
            if bt.get("threaded") and bt.get("switch"):
                sw = bt["switch"]
                # is the decided switch about this call's result?
                saved = self.blocks[nxt]["term"]
                self.blocks[nxt]["term"] = sw
                try:
                    e = self.trace(sw["discr"])
                finally:
                    self.blocks[nxt]["term"] = saved
                if e[0] == "discr":
                    x = strip_refs(e[1])
                    if x[0] == "call" and x[3] == call_bi:
                        name = self.facts.variant_of_discr(e[2], bt.get("decided")) if e[2] else None
                        if name is None and "ControlFlow" in (x[1] or {}).get("path", "") + str(e[2]):
                            name = {"0": "Continue", "1": "Break"}.get(str(bt.get("decided")))
                        if name is None and (x[1] or {}).get("path", "").endswith("as std::ops::Try>::branch"):
                            name = {"0": "Continue", "1": "Break"}.get(str(bt.get("decided")))
                        return (name, bt["target"])
                return None
            if bt["k"] == "Goto":
                nxt = bt["target"]
                hops += 1
                continue
            return None
        return None

    def restricted(self, blocks):
        body = self

        class _R:
            def __enter__(s2):
                s2.old = body._restrict
                body._restrict = set(blocks)

            def __exit__(s2, *a):
                body._restrict = s2.old

        return _R()

    def specialize(self, assume, start=0):
        """Blocks reachable from `start` when every SwitchInt on the discriminant
        of a place whose variant `assume(place_expr, adt)` knows is resolved to
        that variant.  Returns (blocks, decided) where decided lists the
        (block, variant) switch resolutions used."""
        seen = set()
        decided = []
        st = [start]
        while st:
            b = st.pop()
            if b in seen:
                continue
            seen.add(b)
            t = self.blocks[b]["term"]
            if t["k"] == "SwitchInt":
                e = self.trace(t["discr"])
                if e[0] == "discr":
                    v = assume(strip_refs(e[1]), e[2])
                    if v is not None:
                        dv = None
                        for var in self.facts.adts.get(e[2], {}).get("variants", []):
                            if var["name"] == v:
                                dv = str(var["discr"])
                        tgt = None
                        for val, bb in t["arms"]:
                            if val == dv:
                                tgt = bb
                        if tgt is None:
                            tgt = t["otherwise"]
                        decided.append((b, v))
                        st.append(tgt)
                        continue
                else:
                    tgt = decide_kind_test(t, e, assume)
                    if tgt is not None:
                        decided.append((b, "kind-test"))
                        st.append(tgt)
                        continue
            st.extend(self.succs(b))
        return seen, decided

    # ---- cross-closure tracing -------------------------------------------
    def creator(self):
        """(creator body, ops exprs of the closure aggregate) for a closure body, else None."""
        if self.kind != "closure":
            return None
        if getattr(self, "_creator", None) is None:
            self._creator = (None, None)
            pk = self.key.rsplit("::{closure#", 1)[0]
            pb = self.facts.body(pk)
            if pb is not None:
                for bi, si, s in pb.stmts():
                    if s["k"] == "Assign" and s["rv"]["k"] == "Aggregate" and s["rv"].get("closure") == self.key:
                        self._creator = (pb, s["rv"]["ops"])
                        break
        return self._creator if self._creator[0] is not None else None

    def xtrace(self, x, depth=0):
        """Like trace, but closure captures are replaced by the creator's (recursively
        x-traced) operand, and the closure's own parameters become ('carg', key, n)."""
        return self._xsub(self.trace(x), depth)

    def _xsub(self, e, depth):
        if not isinstance(e, tuple) or depth > 12:
            return e
        if self.kind == "closure":
            if e[0] == "field" and isinstance(e[1], tuple) and strip_refs(e[1]) == ("arg", 1):
                cr = self.creator()
                if cr is not None and e[2] < len(cr[1]):
                    return cr[0].xtrace(cr[1][e[2]], depth + 1)
                return ("upvar", self.key, e[2])
            if e[0] == "arg" and e[1] >= 2:
                return ("carg", self.key, e[1])
        out = []
        for x in e:
            if isinstance(x, tuple):
                out.append(self._xsub(x, depth))
            elif isinstance(x, list):
                out.append([self._xsub(y, depth) if isinstance(y, tuple) else y for y in x])
            else:
                out.append(x)
        return tuple(out)

    def where(self, bi=None, si=None):
        if bi is None:
            sp = self.span
        elif si is None:
            sp = self.blocks[bi]["tspan"]
        else:
            sp = self.blocks[bi]["stmts"][si]["span"]
        return "%s:%d" % (sp["file"], sp["line"])


TRY_BRANCH = ("<std::result::Result<T, E> as std::ops::Try>::branch", "<std::option::Option<T> as std::ops::Try>::branch")

# `v.is_object()` asks the question `matches!(v, Value::Object(_))` asks: both are tests on the kind of v
VALUE_ADT = "serde_json::Value"
KIND_TEST = {"serde_json::Value::is_null": "Null", "serde_json::Value::is_boolean": "Bool", "serde_json::Value::is_number": "Number",
             "serde_json::Value::is_string": "String", "serde_json::Value::is_array": "Array", "serde_json::Value::is_object": "Object"}


def kind_test(e):
    """(operand expression, kind, negated) when the boolean expression e is `[!]serde_json::Value::is_<kind>(operand)`."""
    x = strip_refs(e)
    neg = False
    while x[0] == "unop" and x[1] == "Not":
        neg, x = not neg, strip_refs(x[2])
    if x[0] == "call" and x[1] and x[1].get("path") in KIND_TEST and x[2]:
        return strip_refs(x[2][0]), KIND_TEST[x[1]["path"]], neg
    return None


def decide_kind_test(t, e, assume):
    """Target block of the boolean SwitchInt `t` on e when e is a kind test of a value whose kind `assume` knows."""
    kt = kind_test(e)
    if kt is None or t.get("dty") != "bool":
        return None
    v = assume(kt[0], VALUE_ADT)
    if v is None:
        return None
    truth = "1" if ((v == kt[1]) != kt[2]) else "0"
    for val, bb in t["arms"]:
        if str(val) == truth:
            return bb
    return t["otherwise"]


def _residual_variant(a):
    """`?`'s error exit: `from_residual(r)` builds Err(..) of a Result / None of an Option — never the success variant."""
    if a[0] == "call" and a[1] and "FromResidual" in a[1].get("path", "") and a[1]["path"].endswith("::from_residual"):
        if a[1]["path"].startswith("<std::result::Result<"):
            return "Err"
        if a[1]["path"].startswith("<std::option::Option<"):
            return "None"
    return None


def _known_ctor(e):
    """(variant, [payload exprs]) when e is certainly built by that constructor, else None.  Understood:
    enum aggregates; `from_residual(..)` (always Err / None); `branch(x)` for x of a known constructor
    (Ok/Some → Continue(payload), Err/None → Break(x))."""
    if e[0] == "agg" and e[1].get("agg") == "Adt":
        return (e[1].get("variant"), list(e[2]))
    rv = _residual_variant(e)
    if rv:
        return (rv, [])
    if e[0] == "call" and e[1] and e[1].get("path") in TRY_BRANCH and e[2]:
        alts = _alts(e[2][0])
        ks = [_known_ctor(a) for a in alts]
        if ks and all(k is not None for k in ks):
            good = [k for k in ks if k[0] in ("Ok", "Some")]
            bad = [k for k in ks if k[0] in ("Err", "None")]
            if good and not bad and all(len(k[1]) == 1 for k in good):
                return ("Continue", [good[0][1][0] if len(good) == 1 else ("phi", -1, [k[1][0] for k in good])])
            if bad and not good:
                return ("Break", [e[2][0]])
    return None


def _alts(e):
    return list(e[2]) if e[0] == "phi" else [e]


def _project_variant(e, variant):
    """`e as variant` where every definition of e is a known constructor: only the definitions of that variant
    can be meant (the others are different paths).  Anything else stays symbolic."""
    alts = _alts(e)
    ks = [_known_ctor(a) for a in alts]
    if alts and all(k is not None for k in ks):
        sel = [(a, k) for a, k in zip(alts, ks) if k[0] == variant]
        if not sel:
            return ("never", variant)
        outs = []
        for a, k in sel:
            if a[0] == "agg":
                outs.append(a)
            elif k[1] or k[0] in ("Continue", "Break"):
                outs.append(("agg", {"agg": "Adt", "variant": k[0], "via": "known-constructor"}, list(k[1])))
            else:
                return ("downcast", e, variant)
        if len(outs) == 1:
            return outs[0]
        return ("phi", e[1] if e[0] == "phi" else -1, outs)
    return ("downcast", e, variant)


def strip_refs(e):
    """Peel ref/deref/reborrow/identity conversions off an expression."""
    while True:
        if e[0] in ("ref", "deref"):
            e = e[1]
        elif e[0] == "cast" and e[1].startswith("PointerCoercion"):
            e = e[2]
        elif e[0] == "call" and e[1] and e[1]["path"] in TRANSPARENT_CALLS and e[2]:
            e = e[2][0]
        else:
            return e


# calls that return (a view of) their receiver/argument unchanged
TRANSPARENT_CALLS = {
    "<std::vec::Vec<T, A> as std::ops::Deref>::deref",
    "std::vec::Vec::<T, A>::as_slice",
    "<std::string::String as std::ops::Deref>::deref",
    "std::string::String::as_str",
    "std::hint::must_use",
    "<T as std::convert::Into<U>>::into#identity",
    "std::convert::AsRef::as_ref",
    "<std::string::String as std::convert::AsRef<str>>::as_ref",
    "<str as std::convert::AsRef<str>>::as_ref",
    "std::borrow::Borrow::borrow",
    "<T as std::borrow::Borrow<T>>::borrow",
}


def expr_mentions(e, pred):
    """True if any sub-expression satisfies pred."""
    if not isinstance(e, tuple):
        return False
    if pred(e):
        return True
    for x in e[1:]:
        if isinstance(x, tuple):
            if expr_mentions(x, pred):
                return True
        elif isinstance(x, list):
            for y in x:
                if isinstance(y, tuple) and expr_mentions(y, pred):
                    return True
    return False


def expr_calls(e):
    """All callee paths mentioned in an expression."""
    out = []

    def p(x):
        if x[0] == "call" and x[1]:
            out.append(x[1]["path"])
        return False

    expr_mentions(e, p)
    return out


def show_expr(e, depth=0):
    if not isinstance(e, tuple):
        return repr(e)
    if depth > 8:
        return "…"
    k = e[0]
    if k == "arg":
        return "arg%d" % e[1]
    if k == "const":
        c = e[1]
        v = const_value(c)
        if v is not None:
            return repr(v)
        if "fn" in c:
            return "fn:" + c["fn"]["path"]
        if "promoted" in c:
            return "promoted"
        return "const<%s>" % c["ty"]
    if k == "call":
        return "%s(%s)" % (e[1]["path"] if e[1] else "<indirect>", ", ".join(show_expr(a, depth + 1) for a in e[2]))
    if k in ("ref", "deref"):
        return ("&" if k == "ref" else "*") + show_expr(e[1], depth + 1)
    if k == "field":
        return "%s.%d" % (show_expr(e[1], depth + 1), e[2])
    if k == "downcast":
        return "(%s as %s)" % (show_expr(e[1], depth + 1), e[2])
    if k == "phi":
        return "phi(%s)" % " | ".join(show_expr(x, depth + 1) for x in e[2])
    if k == "agg":
        a = e[1]
        h = a.get("variant") or a.get("agg")
        return "%s{%s}" % (h, ", ".join(show_expr(x, depth + 1) for x in e[2]))
    if k == "binop":
        return "%s(%s, %s)" % (e[1], show_expr(e[2], depth + 1), show_expr(e[3], depth + 1))
    if k == "unop":
        return "%s(%s)" % (e[1], show_expr(e[2], depth + 1))
    if k == "cast":
        return "(%s as %s)" % (show_expr(e[2], depth + 1), e[3])
    if k == "discr":
        return "discr(%s)" % show_expr(e[1], depth + 1)
    return str(k)


_LT = __import__("re").compile(r"'[a-z_]\w* ?")


def norm_ty(t):
    """Type string without named lifetimes: `&'a Value` → `&Value`, `Parsed<'a>` stays `Parsed<'_>`-like."""
    t = t.replace("<'_>", "<'_>")
    t = _LT.sub(lambda m: "" if not m.group(0).startswith("'_") else m.group(0), t)
    return t.replace("<>", "")


class Facts:
    def __init__(self, path, j=None):
        if j is None:
            with open(path) as fh:
                j = json.load(fh)
        self.j = j
        self.inlined = None
        self.path = path
        self.crate = self.j["crate"]
        self.features = self.j["features"]
        self.adts = self.j["adts"]
        self.items = {it["key"]: it for it in self.j["items"]}
        for it in self.items.values():
            if "inputs" in it:
                it["inputs_raw"] = list(it["inputs"])
                it["inputs"] = [norm_ty(x) for x in it["inputs"]]
            if "output" in it:
                it["output"] = norm_ty(it["output"])
        self.unsafe_blocks = self.j["unsafe_blocks"]
        self.bodies = {}
        for b in self.j["bodies"]:
            self.bodies[b["key"]] = Body(b, self)
        self._cg = None

    def body(self, key):
        return self.bodies.get(key)

    def fns(self):
        return [b for b in self.bodies.values() if b.kind in ("fn", "closure")]

    def by_name(self, name):
        """Bodies whose pretty name equals name (development/reporting aid, not used to find anchors)."""
        return [b for b in self.bodies.values() if b.name == name and b.kind in ("fn",)]

    def variant_of_discr(self, adt, val):
        a = self.adts.get(adt)
        if not a:
            return None
        for v in a["variants"]:
            if str(v["discr"]) == str(val):
                return v["name"]
        return None

    def variants(self, adt):
        a = self.adts.get(adt)
        return [v["name"] for v in a["variants"]] if a else []

    # ---- call graph ------------------------------------------------------
    def callgraph(self):
        """key -> set of local body keys that may be invoked from it.

        Edges: resolved direct calls to local bodies; the forwarded targets of
        std's blanket impls (Into→From, …); closures constructed in the body;
        fn items/closures mentioned as values (constants, generic arguments);
        promoted constants' contents are attributed to their parent.
        Indirect calls through fn pointers are handled by the caller of this
        API (the operator tables give their targets)."""
        if self._cg is not None:
            return self._cg
        cg = defaultdict(set)
        ext = defaultdict(set)  # key -> set of external callee paths (resolved)
        allrefs = []
        for b in self.bodies.values():
            owner = b.key

            def note_fn(f):
                allrefs.append(f)
                r = f.get("resolved") or f
                if r["local"]:
                    cg[owner].add(r["key"])
                else:
                    ext[owner].add(r["path"])
                for fw in f.get("fwd", []):
                    if fw["local"]:
                        cg[owner].add(fw["key"])
                    else:
                        ext[owner].add(fw["path"])
                for fa in f.get("fnargs", []):
                    if fa["local"]:
                        cg[owner].add(fa["key"])
                    else:
                        ext[owner].add(fa["path"])

            def note_operand(o):
                c = op_const(o)
                if c:
                    if "fn" in c:
                        note_fn(c["fn"])
                    if "promoted" in c:
                        cg[owner].add(c["promoted"])
                    if "item" in c and c["item"] in self.bodies:
                        cg[owner].add(c["item"])

            for i in b.live_blocks():
                blk = b.blocks[i]
                for s in blk["stmts"]:
                    if s["k"] != "Assign":
                        continue
                    rv = s["rv"]
                    for kk in ("op", "a", "b"):
                        if kk in rv and isinstance(rv[kk], dict):
                            note_operand(rv[kk])
                    if rv["k"] == "Aggregate":
                        for o in rv["ops"]:
                            note_operand(o)
                        if rv.get("closure") and rv["closure"] in self.bodies:
                            cg[owner].add(rv["closure"])
                t = blk["term"]
                if t["k"] in ("Call", "TailCall"):
                    if t.get("callee"):
                        note_fn(t["callee"])
                    else:
                        ext[owner].add("<indirect>")
                    note_operand(t["func"])
                    for a in t["args"]:
                        note_operand(a)
                elif t["k"] == "SwitchInt":
                    note_operand(t["discr"])
                elif t["k"] == "Assert":
                    note_operand(t["cond"])
        # A private generic function (`fn error_message<E: Display>(e: E) -> String { e.to_string() }`) calls trait
        # methods on its type parameters; the callee is only known per instantiation.  Every reference to the function
        # lists its type arguments (`targs`, in the order of the item's `generics`): for each instantiation the call
        # goes to the local impl for that type, if there is one (external types: classified by the API tables).
        inst = defaultdict(list)
        for f in allrefs:
            r = f.get("resolved") or f
            if r.get("local") and f.get("targs") and self.items.get(r["key"], {}).get("generics") and list(f["targs"]) not in inst[r["key"]]:
                inst[r["key"]].append(list(f["targs"]))
        self._inst = inst
        by_name = {}
        for k, it in self.items.items():
            if it.get("kind") == "fn" and it.get("name"):
                by_name.setdefault(it["name"], []).append(k)
        for b in self.bodies.values():
            root = b.key.split("::{closure#", 1)[0]
            gen = self.items.get(root, {}).get("generics") or []
            if not gen:
                continue
            for bi, t in b.calls(reach_only=False):
                c = t.get("callee")
                if not c or c.get("resolved") or not c.get("targs"):
                    continue
                selfty = c["targs"][0].lstrip("&").replace("mut ", "")
                if selfty not in gen:
                    continue
                trait, meth = c["path"].rsplit("::", 1)
                if trait == "std::string::ToString" and meth == "to_string":
                    trait, meth = "std::fmt::Display", "fmt"
                for targs in inst.get(root, []):
                    if gen.index(selfty) >= len(targs):
                        continue
                    ty = targs[gen.index(selfty)].lstrip("&")
                    hit = by_name.get("<%s as %s>::%s" % (ty, trait, meth), [])
                    for k in hit:
                        if k in self.bodies:
                            cg[b.key].add(k)
                    if not hit:
                        ext[b.key].add("<%s as %s>::%s" % (ty, trait, meth))
        self._cg = (cg, ext)
        return self._cg

    def instantiations(self, key):
        """Type-argument lists with which the local generic function `key` is referenced anywhere in the crate."""
        self.callgraph()
        return self._inst.get(key, [])

    def reach(self, roots, extra_edges=None):
        cg, _ = self.callgraph()
        seen = set()
        st = list(roots)
        while st:
            k = st.pop()
            if k in seen:
                continue
            seen.add(k)
            st.extend(cg.get(k, ()))
            if extra_edges:
                st.extend(extra_edges.get(k, ()))
        return seen


# ---------------------------------------------------------------- idioms ---
PAYLOAD_CALLS = {
    # calls that hand on the payload of their first argument unchanged
    "<std::result::Result<T, E> as std::ops::Try>::branch",
    "<std::option::Option<T> as std::ops::Try>::branch",
    "std::option::Option::<T>::ok_or_else",
    "std::option::Option::<T>::ok_or",
    "std::option::Option::<T>::unwrap",
    "std::option::Option::<T>::expect",
    "std::result::Result::<T, E>::unwrap",
    "std::result::Result::<T, E>::expect",
    "std::result::Result::<T, E>::map_err",
    "std::result::Result::<T, E>::ok",
    "std::option::Option::<T>::as_ref",
    "std::result::Result::<T, E>::as_ref",
    "std::option::Option::<&T>::copied",
    "std::option::Option::<&T>::cloned",
}
PAYLOAD_VARIANTS = {"Continue", "Some", "Ok"}


def strip_payload(e):
    """Peel `?`, Option/Result payload extraction and reference plumbing."""
    while True:
        e2 = strip_refs(e)
        if e2[0] == "field" and e2[2] == 0 and e2[1][0] == "downcast" and e2[1][2] in PAYLOAD_VARIANTS:
            e = e2[1][1]
            continue
        if e2[0] == "call" and e2[1] and e2[1]["path"] in PAYLOAD_CALLS and e2[2]:
            e = e2[2][0]
            continue
        if e2[0] == "agg" and e2[1].get("agg") == "Adt" and e2[1].get("variant") in ("Some", "Ok") and len(e2[2]) == 1:
            e = e2[2][0]
            continue
        return e2


def edge_dominates(body, u, v, target):
    """Every path entry→target uses the CFG edge u→v."""
    if target not in body.reachable():
        return False
    seen = set()
    st = [0]
    while st:
        b = st.pop()
        if b in seen:
            continue
        seen.add(b)
        for s in body.succs(b):
            if b == u and s == v:
                # the edge is removed — but u may reach v through another label only
                # when two labels share the target; treat the whole u→v as removed
                continue
            st.append(s)
    return target not in seen


def switch_edges_for_variant(body, bi, variant):
    """Targets taken by SwitchInt at bi when the scrutinised discriminant is `variant`,
    plus whether the edge implies exactly that variant."""
    t = body.blocks[bi]["term"]
    e = body.trace(t["discr"])
    if e[0] != "discr":
        return None
    adt = e[2]
    vs = body.facts.adts.get(adt, {}).get("variants", [])
    dv = None
    for v in vs:
        if v["name"] == variant:
            dv = str(v["discr"])
    if dv is None:
        return None
    listed = {val for val, _ in t["arms"]}
    for val, bb in t["arms"]:
        if val == dv:
            exact = sum(1 for vv, b2 in t["arms"] if b2 == bb) == 1 and t["otherwise"] != bb
            return bb, exact
    others = {str(v["discr"]) for v in vs} - listed
    return t["otherwise"], others == {dv}


def bool_edge(body, bi, want):
    """Target of a SwitchInt on a bool when the bool is `want`."""
    t = body.blocks[bi]["term"]
    for val, bb in t["arms"]:
        if (val == "0") == (not want):
            return bb
    return t["otherwise"]


def option_guards(body, same):
    """Tests of an Option/Result value: [(switch block, target when Some/Ok, target when None/Err)].
    `same(expr)` says whether a (ref-stripped) expression is the value of interest.  Recognised:
    a switch on its discriminant, and a switch on is_none()/is_some()/is_ok()/is_err() of it."""
    out = []
    for sb in body.reachable():
        tt = body.blocks[sb]["term"]
        if tt["k"] != "SwitchInt":
            continue
        e = body.trace(tt["discr"])
        if e[0] == "discr" and same(strip_refs(e[1])):
            some = switch_edges_for_variant(body, sb, "Some") or switch_edges_for_variant(body, sb, "Ok")
            none = switch_edges_for_variant(body, sb, "None") or switch_edges_for_variant(body, sb, "Err")
            if some and none:
                out.append((sb, some[0], none[0]))
            continue
        x = strip_refs(e)
        neg = False
        while x[0] == "unop" and x[1] == "Not":
            neg = not neg
            x = strip_refs(x[2])
        if x[0] == "call" and x[1] and x[1]["path"] in ("std::option::Option::<T>::is_none", "std::option::Option::<T>::is_some", "std::result::Result::<T, E>::is_ok", "std::result::Result::<T, E>::is_err"):
            if same(strip_refs(x[2][0])):
                positive = x[1]["path"].endswith(("is_some", "is_ok"))
                if neg:
                    positive = not positive
                out.append((sb, bool_edge(body, sb, positive), bool_edge(body, sb, not positive)))
    return out


NEG_CMP = {"Eq": "Ne", "Ne": "Eq", "Lt": "Ge", "Le": "Gt", "Gt": "Le", "Ge": "Lt"}


def implied_comparisons(body, target, _seen=None):
    """Comparisons known to hold whenever block `target` is reached: [(op, lhs_expr, rhs_expr)] with traced,
    ref-stripped operands.  A boolean test contributes when one of its edges lies on every path to `target`;
    a test on a boolean *variable* (`let ok = a >= b && a < c; if ok {…}`) is resolved through the variable's
    definitions: the definitions that cannot have produced the tested truth value are dropped, and if exactly one
    remains, its comparison holds together with whatever holds at its defining block."""
    _seen = _seen or set()
    if target in _seen:
        return []
    _seen = _seen | {target}
    out = []
    for sb in sorted(body.reachable()):
        tt = body.blocks[sb]["term"]
        if tt["k"] != "SwitchInt" or tt.get("dty") != "bool":
            continue
        for truth in (True, False):
            tg = bool_edge(body, sb, truth)
            if tg == bool_edge(body, sb, not truth):
                continue
            if edge_dominates(body, sb, tg, target):
                out.extend(_facts_of_bool(body, tt["discr"], truth, _seen))
    return out


def _facts_of_bool(body, op, truth, seen, depth=0):
    if depth > 6 or op["k"] not in ("Copy", "Move") or op["place"]["proj"]:
        return []
    l = op["place"]["local"]
    ds = body.defs().get(l, [])
    facts = []
    cands = []
    for d in ds:
        if d[0] != "stmt":
            return []
        rv = d[3]
        if rv["k"] == "Use" and rv["op"]["k"] == "Const" and rv["op"]["const"].get("ty") == "bool":
            if rv["op"]["const"]["bool"] == truth:
                return []          # a constant definition can explain the tested value: nothing follows
            continue               # cannot have produced it
        cands.append(d)
    if len(cands) != 1:
        return []
    d = cands[0]
    rv = d[3]
    if rv["k"] == "BinaryOp" and rv["op"] in NEG_CMP:
        opn = rv["op"] if truth else NEG_CMP[rv["op"]]
        facts.append((opn, strip_refs(body.trace(rv["a"])), strip_refs(body.trace(rv["b"]))))
    elif rv["k"] == "UnaryOp" and rv.get("op") == "Not":
        inner = rv.get("a") or rv.get("operand")
        if inner:
            facts.extend(_facts_of_bool(body, inner, not truth, seen, depth + 1))
    elif rv["k"] == "Use" and rv["op"]["k"] in ("Copy", "Move"):
        facts.extend(_facts_of_bool(body, rv["op"], truth, seen, depth + 1))
    else:
        return []
    if len(ds) > 1:
        # the surviving definition sits in a block of its own: what holds there holds here too
        facts.extend(implied_comparisons(body, d[1], seen))
    return facts
