#!/usr/bin/env python3
"""Analysis of the rule-vs-literal dispatcher (the unique local function that
looks a key up in a phf table).  Shared by C02 and C03."""
from .core import (callee_path, strip_refs, strip_payload, edge_dominates,
                   switch_edges_for_variant, bool_edge, const_value, show_expr, expr_mentions)
from .engine import Inconclusive

PHF_GET = "phf::Map::<K, V>::get"
VALUE = "serde_json::Value"


class Dispatcher:
    def __init__(self, facts):
        self.facts = facts
        cands = []
        for b in facts.fns():
            for bi, t in b.calls():
                if callee_path(t) == PHF_GET:
                    cands.append((b, bi, t))
        self.other_sites = []
        if len(cands) > 1:
            # the dispatcher looks a key up in the table it is *given*; a lookup in a named table elsewhere is a second
            # consultation of the operator tables (reported by C02 K2 / C03 K6), not a second dispatcher
            param = [c for c in cands if strip_refs(c[0].trace(c[2]["args"][0]))[0] == "arg"]
            if len(param) == 1:
                self.other_sites = [c for c in cands if c is not param[0]]
                cands = param
        if len(cands) != 1:
            raise Inconclusive("expected exactly one phf::Map::get call site (the dispatcher), found %d" % len(cands))
        self.body, self.get_bi, self.get_term = cands[0]
        b = self.body
        # parameters by type: the table and the value
        self.map_arg = self.value_arg = None
        for l in range(1, b.arg_count + 1):
            ty = b.local_ty(l)
            if ty.startswith("&phf::Map<") or ty.startswith("&'a phf::Map<"):
                self.map_arg = l
            elif ty.endswith("serde_json::Value"):
                self.value_arg = l
        if self.map_arg is None or self.value_arg is None:
            raise Inconclusive("dispatcher parameters (table, value) not identified by type")
        # success blocks: _0 = Ok(Some(..))
        self.success = []
        for bi, si, s in b.stmts():
            if s["k"] == "Assign" and s["place"]["local"] == 0 and not s["place"]["proj"]:
                rv = s["rv"]
                if rv["k"] == "Aggregate" and rv.get("variant") == "Ok":
                    inner = b.trace(rv["ops"][0])
                    if inner[0] == "agg" and inner[1].get("variant") == "Some":
                        self.success.append((bi, si, inner))
        if not self.success:
            raise Inconclusive("dispatcher has no Ok(Some(..)) exit")

    # ---- guards --------------------------------------------------------
    def object_edge(self):
        b = self.body
        out = []
        for bi in b.reachable():
            t = b.blocks[bi]["term"]
            if t["k"] != "SwitchInt":
                continue
            e = b.trace(t["discr"])
            if e[0] == "discr" and e[2] == VALUE and strip_refs(e[1]) == ("arg", self.value_arg):
                r = switch_edges_for_variant(b, bi, "Object")
                if r and r[1]:
                    out.append((bi, r[0]))
        return out

    def len_one_edge(self):
        """Edges that imply Map::len(object payload) == 1."""
        b = self.body
        out = []
        for bi in b.reachable():
            t = b.blocks[bi]["term"]
            if t["k"] != "SwitchInt":
                continue
            e = strip_refs(b.trace(t["discr"]))
            if e[0] == "binop" and e[1] in ("Eq", "Ne"):
                x, y = strip_refs(e[2]), strip_refs(e[3])
                for p, q in ((x, y), (y, x)):
                    if self._is_len_of_object(p) and q[0] == "const" and const_value(q[1]) == 1:
                        out.append((bi, bool_edge(b, bi, e[1] == "Eq")))
            elif self._is_len_of_object(e):
                for val, bb in t["arms"]:
                    if val == "1" and t["otherwise"] != bb:
                        out.append((bi, bb))
        return out

    def len_interval_at(self, target):
        """Interval [lo, hi] of Map::len(object payload) implied by the comparisons and is_empty tests that hold on
        every path to block `target` (`if obj.len() > 1 || obj.is_empty() { return Ok(None) }`)."""
        from .core import implied_comparisons, edge_dominates
        b = self.body
        lo, hi = 0, float("inf")
        for (op, x, y) in implied_comparisons(b, target):
            if self._is_len_of_object(y) and x[0] == "const":
                x, y = y, x
                op = {"Lt": "Gt", "Le": "Ge", "Gt": "Lt", "Ge": "Le", "Eq": "Eq", "Ne": "Ne"}[op]
            if not (self._is_len_of_object(x) and y[0] == "const" and isinstance(const_value(y[1]), int)):
                continue
            c = const_value(y[1])
            if op == "Eq":
                lo, hi = max(lo, c), min(hi, c)
            elif op == "Lt":
                hi = min(hi, c - 1)
            elif op == "Le":
                hi = min(hi, c)
            elif op == "Gt":
                lo = max(lo, c + 1)
            elif op == "Ge":
                lo = max(lo, c)
            elif op == "Ne":
                if c == lo:
                    lo += 1
                if c == hi:
                    hi -= 1
        for sb in b.reachable():
            tt = b.blocks[sb]["term"]
            if tt["k"] != "SwitchInt" or tt.get("dty") != "bool":
                continue
            e = strip_refs(b.trace(tt["discr"]))
            neg = False
            while e[0] == "unop" and e[1] == "Not":
                neg, e = not neg, strip_refs(e[2])
            if e[0] == "call" and e[1] and e[1]["path"].endswith("::is_empty") and "serde_json::Map" in e[1]["path"] and self._is_object_payload(e[2][0]):
                for truth in (True, False):
                    if edge_dominates(b, sb, bool_edge(b, sb, truth), target) and not edge_dominates(b, sb, bool_edge(b, sb, not truth), target):
                        empty = truth != neg
                        if empty:
                            hi = min(hi, 0)
                        else:
                            lo = max(lo, 1)
        return lo, hi

    def _is_len_of_object(self, e):
        if e[0] == "call" and e[1] and e[1]["path"].endswith("::len") and "serde_json::Map" in e[1]["path"]:
            return self._is_object_payload(e[2][0])
        return False

    def _is_object_payload(self, e):
        e = strip_refs(e)
        return e[0] == "field" and e[1][0] == "downcast" and e[1][2] == "Object" and strip_refs(e[1][1]) == ("arg", self.value_arg)

    def some_edge(self):
        """Edge taken when the table lookup returned Some."""
        b = self.body
        out = []
        for bi in b.reachable():
            t = b.blocks[bi]["term"]
            if t["k"] != "SwitchInt":
                continue
            e = b.trace(t["discr"])
            if e[0] == "discr":
                x = strip_refs(e[1])
                if x[0] == "call" and x[1] and x[1]["path"] == PHF_GET:
                    r = switch_edges_for_variant(b, bi, "Some")
                    if r and r[1]:
                        out.append((bi, r[0]))
        # is_none()/is_some() tests of the lookup result
        from .core import option_guards
        for (sw, t_some, t_none) in option_guards(b, lambda x: x[0] == "call" and x[1] is not None and x[1]["path"] == PHF_GET):
            if (sw, t_some) not in out:
                out.append((sw, t_some))
        return out

    def lookup_key_expr(self):
        return self.body.trace(self.get_term["args"][1])

    def operand_expr(self):
        """Expression of the object's single value (the operand)."""
        return None


# ======================================================================================================================
# Shape-independent reading of the dispatcher's guards (round 6).
#
# What C02 K2 needs is not "an edge `len == 1` dominates the exit" but: on every path on which the dispatcher answers
# Ok(Some(operation)), (a) the value is an Object, (b) the number of its entries is exactly one, (c) the table lookup
# hit.  The paths are read with rules/x_ipaths.py (private helpers expanded at their call sites, `&mut` receivers
# versioned), every atom of a path is turned into primitive facts by a small table of API meanings:
#
#     discriminant(value) = Object | Value::as_object(value) is Some | Value::is_object(value)         → object
#     Map::len(obj) ⋚ c, match Map::len(obj) { c => … }, Map::is_empty(obj)                              → interval of n
#     k-th `next()` of Map::iter/keys/values(obj) is Some → n ≥ k ;  is None → n ≤ k-1
#     ExactSizeIterator::len of that iterator after k `next()`s = n - k
#     Option/Result combinators (ok_or_else, map, copied, …) are looked through with rules/optnorm.py
#
# and the clause compares the conjunction with the requirement.  A path with a fact missing is a violation when every
# question asked about the object on it was understood, and undecided when some call consuming the object is unknown.
# ======================================================================================================================
from . import x_ipaths, optnorm, pathsum as _pathsum

INF = float("inf")
MAP_ITERS = ("::iter", "::keys", "::values", "::into_iter")
OPT_TESTS = {"std::option::Option::<T>::is_some": ("Some", "None"), "std::option::Option::<T>::is_none": ("None", "Some"),
             "std::result::Result::<T, E>::is_ok": ("Ok", "Err"), "std::result::Result::<T, E>::is_err": ("Err", "Ok")}
CMP_CALL_SUFFIX = {"::eq": "Eq", "::ne": "Ne", "::ge": "Ge", "::gt": "Gt", "::le": "Le", "::lt": "Lt"}
_NEG = {"Eq": "Ne", "Ne": "Eq", "Lt": "Ge", "Le": "Gt", "Gt": "Le", "Ge": "Lt"}
_SWAP = {"Gt": "Lt", "Ge": "Le", "Lt": "Gt", "Le": "Ge", "Eq": "Eq", "Ne": "Ne"}


def _path(e):
    return (e[1] or {}).get("path", "") if e[0] == "call" else ""


def _int_const(e):
    e = strip_refs(e)
    if e[0] == "const":
        v = const_value(e[1])
        if isinstance(v, int) and not isinstance(v, bool):
            return v
    return None


class PathReading:
    """What one Ok(Some) path of the dispatcher establishes."""
    def __init__(self):
        self.object = False
        self.lo, self.hi = 0, INF
        self.hit = False
        self.unknown = []        # questions asked of the object that the reader does not understand
        self.len_facts = []      # human-readable


class GuardReader:
    def __init__(self, disp, skip=()):
        self.d = disp
        self.facts = disp.facts
        self.b = disp.body
        skip = set(skip)
        self.w = x_ipaths.summarize(self.b, x_ipaths.loop_free_local(self.facts, skip))
        self.readable = not self.w.overflow and bool(self.w.paths)
        self.success = []
        self.truncated_success = False
        for p in self.w.paths:
            r = p.result
            if p.truncated:
                self.truncated_success = True       # a loop in the dispatcher: whether it ends in a success is not read
                continue
            if r is not None and r[0] == "agg" and r[1].get("variant") == "Ok" and r[2] and strip_refs(r[2][0])[0] == "agg" and strip_refs(r[2][0])[1].get("variant") == "Some":
                self.success.append(p)

    # ---- the object and its iterators -----------------------------------------------------------------
    def is_value(self, e):
        return strip_refs(e) == ("arg", self.d.value_arg)

    def is_as_object(self, e):
        e = strip_refs(e)
        return e[0] == "call" and _path(e) == "serde_json::Value::as_object" and e[2] and self.is_value(e[2][0])

    def is_object_payload(self, e):
        e = strip_refs(e)
        if e[0] == "payload" and len(e) > 2:
            return self.is_as_object(e[2])
        if e[0] == "field" and e[2] == 0 and e[1][0] == "downcast":
            src = strip_refs(e[1][1])
            if e[1][2] == "Object" and self.is_value(src):
                return True
            if e[1][2] in ("Some", "Continue"):
                if src[0] == "call" and _path(src).endswith("as std::ops::Try>::branch") and src[2]:
                    src = strip_refs(src[2][0])
                return self.is_as_object(src)
        if e[0] == "call" and _path(e) in ("std::option::Option::<T>::unwrap", "std::option::Option::<T>::expect") and e[2]:
            return self.is_as_object(e[2][0])
        return False

    def iter_position(self, e):
        """e = iterator over the object's entries after k calls of next() → k; None if not such an iterator;
        -1 if it is one but was advanced by something the reader does not count."""
        e = strip_refs(e)
        k = 0
        while e[0] == "after":
            if not e[2].endswith("Iterator>::next") and e[2] != "std::iter::Iterator::next":
                k = -1
                e = strip_refs(e[1])
                while e[0] == "after":
                    e = strip_refs(e[1])
                break
            if k >= 0:
                k += 1
            e = strip_refs(e[1])
        if e[0] == "call" and "serde_json" in _path(e) and _path(e).endswith(MAP_ITERS) and e[2] and self.is_object_payload(e[2][0]):
            return k
        if e[0] == "call" and _path(e).endswith("IntoIterator>::into_iter") and e[2] and self.is_object_payload(e[2][0]):
            return k
        return None

    def len_offset(self, e):
        """e = n - k for the object's entry count n → k; else None."""
        e = strip_refs(e)
        if e[0] == "cast" and len(e) > 3 and e[3] in ("usize", "u64", "u128", "i128", "i64", "isize"):
            e = strip_refs(e[2])
        if e[0] != "call" or not e[2]:
            return None
        p = _path(e)
        if p.endswith("::len") and "serde_json::Map" in p and self.is_object_payload(e[2][0]):
            return 0
        if p.endswith(("ExactSizeIterator::len", "ExactSizeIterator>::len", "Iterator::count", "Iterator>::count")):
            k = self.iter_position(e[2][0])
            if k is not None and k >= 0:
                return k
        return None

    def consumes_object(self, e):
        """A call one of whose arguments is the value, the object or an iterator over it."""
        e = strip_refs(e)
        if e[0] != "call":
            return False
        for a in e[2]:
            if self.is_value(a) or self.is_object_payload(a) or self.iter_position(a) is not None:
                return True
        return False

    # ---- atoms → primitive facts ----------------------------------------------------------------------
    def read(self, p):
        R = PathReading()
        for key, val0 in p.order:
            val = p.atoms.get(key, val0)
            if key[0] == "variant":
                e = self.w.exprs.get(key)
                if e is not None:
                    self.variant_fact(R, e, val, 0)
                continue
            rw = self.w.raw.get((key, val)) or self.w.raw.get((key, val0))
            if rw is None:
                continue
            x, tv = rw
            if key[0] == "int":
                self.int_fact(R, x, tv)
            else:
                self.bool_fact(R, x, tv)
        return R

    def variant_fact(self, R, e, val, depth):
        e = strip_refs(e)
        if isinstance(val, tuple):        # ("not", {...}): only says which variants it is not
            return
        if self.is_value(e):
            if val == "Object":
                R.object = True
            return
        if self.is_as_object(e):
            if val in ("Some", "Continue"):
                R.object = True
            return
        if e[0] == "call" and _path(e) == PHF_GET:
            if val == "Some" and e[2] and strip_refs(e[2][0]) == ("arg", self.d.map_arg):
                R.hit = True
            return
        if e[0] == "call" and (_path(e).endswith("Iterator>::next") or _path(e) == "std::iter::Iterator::next") and e[2]:
            k = self.iter_position(e[2][0])
            if k is not None:
                if k < 0:
                    R.unknown.append(show_expr(e)[:120])
                elif val == "Some":
                    R.lo = max(R.lo, k + 1)
                    R.len_facts.append("entry #%d exists" % (k + 1))
                elif val == "None":
                    R.hi = min(R.hi, k)
                    R.len_facts.append("no entry #%d" % (k + 1))
                return
        if e[0] == "call" and e[1] and optnorm.M.match(_path(e)) and depth < 6:
            cs = optnorm.cases_expr(self.facts, e)
            if cs and not (len(cs) == 1 and cs[0][0] == ()):
                sel = []
                for conds, v in cs:
                    v = strip_refs(v)
                    vv = v[1].get("variant") if v[0] == "agg" else None
                    if vv is None or vv == val:
                        sel.append(dict(conds))
                if sel:
                    common = set(sel[0].items())
                    for s in sel[1:]:
                        common &= set(s.items())
                    for k2, tag in common:
                        src = optnorm.SRC_EXPRS.get(k2)
                        if src is not None and k2[0] == "variant":
                            self.variant_fact(R, src, tag, depth + 1)
                return
        if self.consumes_object(e):
            R.unknown.append(show_expr(e)[:120])

    def int_fact(self, R, x, v):
        k = self.len_offset(x)
        if k is None:
            if self.consumes_object(x):
                R.unknown.append(show_expr(x)[:120])
            return
        if isinstance(v, tuple):
            for c in sorted(v[1]):
                self.cmp_fact(R, "Ne", k, c)
        else:
            self.cmp_fact(R, "Eq", k, v)

    def cmp_fact(self, R, op, k, c):
        """(n - k) op c"""
        c = c + k
        R.len_facts.append("n %s %d" % (op, c))
        if op == "Eq":
            R.lo, R.hi = max(R.lo, c), min(R.hi, c)
        elif op == "Lt":
            R.hi = min(R.hi, c - 1)
        elif op == "Le":
            R.hi = min(R.hi, c)
        elif op == "Gt":
            R.lo = max(R.lo, c + 1)
        elif op == "Ge":
            R.lo = max(R.lo, c)
        elif op == "Ne":
            if c == R.lo:
                R.lo += 1
            if c == R.hi:
                R.hi -= 1
            # n ≥ k always: `n - k != 0` with lo == k
        return

    def bool_fact(self, R, x, truth):
        x = strip_refs(x)
        op = a = b_ = None
        if x[0] == "binop" and x[1] in _NEG:
            op, a, b_ = x[1], x[2], x[3]
        elif x[0] == "call" and ("PartialEq" in _path(x) or "PartialOrd" in _path(x)) and len(x[2]) == 2:
            for suf, o in CMP_CALL_SUFFIX.items():
                if _path(x).endswith(suf):
                    op, a, b_ = o, x[2][0], x[2][1]
        if op is not None:
            if not truth:
                op = _NEG[op]
            ka, kb = self.len_offset(a), self.len_offset(b_)
            ca, cb = _int_const(a), _int_const(b_)
            if ka is not None and cb is not None:
                self.cmp_fact(R, op, ka, cb)
            elif kb is not None and ca is not None:
                self.cmp_fact(R, _SWAP[op], kb, ca)
            elif ka is not None or kb is not None:
                R.unknown.append(show_expr(x)[:120])
            return
        if x[0] == "call" and _path(x) in OPT_TESTS and x[2]:
            yes, no = OPT_TESTS[_path(x)]
            self.variant_fact(R, x[2][0], yes if truth else no, 1)
            return
        if x[0] == "call" and _path(x).endswith("::is_empty") and "serde_json::Map" in _path(x) and x[2] and self.is_object_payload(x[2][0]):
            if truth:
                R.hi = min(R.hi, 0)
            else:
                R.lo = max(R.lo, 1)
            R.len_facts.append("n == 0" if truth else "n >= 1")
            return
        if x[0] == "call" and _path(x) == "serde_json::Value::is_object" and x[2] and self.is_value(x[2][0]):
            if truth:
                R.object = True
            return
        if self.consumes_object(x):
            R.unknown.append(show_expr(x)[:120])

    # ---- values on a path -------------------------------------------------------------------------------
    def lookup_on(self, p):
        """(key expression, table expression) of the table lookup on path p, with the path's own values."""
        for ev in p.events:
            if ev[0] == "call" and ev[1] and ev[1].get("path") == PHF_GET and len(ev[2]) >= 2:
                return ev[2][1], ev[2][0]
        return None, None
