#!/usr/bin/env python3
"""Analysis of the rule-vs-literal dispatcher (the unique local function that
looks a key up in a phf table).  Shared by C02 and C03."""
from .core import (callee_path, strip_refs, strip_payload, edge_dominates,
                   switch_edges_for_variant, bool_edge, const_value, show_expr, expr_mentions)
from .engine import Inconclusive

PHF_GET = "phf::Map::<K, V>::get"
VALUE = "serde_json::Value"


class Dispatcher:
    def __init__(self, facts):
        self.facts = facts
        cands = []
        for b in facts.fns():
            for bi, t in b.calls():
                if callee_path(t) == PHF_GET:
                    cands.append((b, bi, t))
        self.other_sites = []
        if len(cands) > 1:
            # the dispatcher looks a key up in the table it is *given*; a lookup in a named table elsewhere is a second
            # consultation of the operator tables (reported by C02 K2 / C03 K6), not a second dispatcher
            param = [c for c in cands if strip_refs(c[0].trace(c[2]["args"][0]))[0] == "arg"]
            if len(param) == 1:
                self.other_sites = [c for c in cands if c is not param[0]]
                cands = param
        if len(cands) != 1:
            raise Inconclusive("expected exactly one phf::Map::get call site (the dispatcher), found %d" % len(cands))
        self.body, self.get_bi, self.get_term = cands[0]
        b = self.body
        # parameters by type: the table and the value
        self.map_arg = self.value_arg = None
        for l in range(1, b.arg_count + 1):
            ty = b.local_ty(l)
            if ty.startswith("&phf::Map<") or ty.startswith("&'a phf::Map<"):
                self.map_arg = l
            elif ty.endswith("serde_json::Value"):
                self.value_arg = l
        if self.map_arg is None or self.value_arg is None:
            raise Inconclusive("dispatcher parameters (table, value) not identified by type")
        # success blocks: _0 = Ok(Some(..))
        self.success = []
        for bi, si, s in b.stmts():
            if s["k"] == "Assign" and s["place"]["local"] == 0 and not s["place"]["proj"]:
                rv = s["rv"]
                if rv["k"] == "Aggregate" and rv.get("variant") == "Ok":
                    inner = b.trace(rv["ops"][0])
                    if inner[0] == "agg" and inner[1].get("variant") == "Some":
                        self.success.append((bi, si, inner))
        if not self.success:
            raise Inconclusive("dispatcher has no Ok(Some(..)) exit")

    # ---- guards --------------------------------------------------------
    def object_edge(self):
        b = self.body
        out = []
        for bi in b.reachable():
            t = b.blocks[bi]["term"]
            if t["k"] != "SwitchInt":
                continue
            e = b.trace(t["discr"])
            if e[0] == "discr" and e[2] == VALUE and strip_refs(e[1]) == ("arg", self.value_arg):
                r = switch_edges_for_variant(b, bi, "Object")
                if r and r[1]:
                    out.append((bi, r[0]))
        return out

    def len_one_edge(self):
        """Edges that imply Map::len(object payload) == 1."""
        b = self.body
        out = []
        for bi in b.reachable():
            t = b.blocks[bi]["term"]
            if t["k"] != "SwitchInt":
                continue
            e = strip_refs(b.trace(t["discr"]))
            if e[0] == "binop" and e[1] in ("Eq", "Ne"):
                x, y = strip_refs(e[2]), strip_refs(e[3])
                for p, q in ((x, y), (y, x)):
                    if self._is_len_of_object(p) and q[0] == "const" and const_value(q[1]) == 1:
                        out.append((bi, bool_edge(b, bi, e[1] == "Eq")))
            elif self._is_len_of_object(e):
                for val, bb in t["arms"]:
                    if val == "1" and t["otherwise"] != bb:
                        out.append((bi, bb))
        return out

    def len_interval_at(self, target):
        """Interval [lo, hi] of Map::len(object payload) implied by the comparisons and is_empty tests that hold on
        every path to block `target` (`if obj.len() > 1 || obj.is_empty() { return Ok(None) }`)."""
        from .core import implied_comparisons, edge_dominates
        b = self.body
        lo, hi = 0, float("inf")
        for (op, x, y) in implied_comparisons(b, target):
            if self._is_len_of_object(y) and x[0] == "const":
                x, y = y, x
                op = {"Lt": "Gt", "Le": "Ge", "Gt": "Lt", "Ge": "Le", "Eq": "Eq", "Ne": "Ne"}[op]
            if not (self._is_len_of_object(x) and y[0] == "const" and isinstance(const_value(y[1]), int)):
                continue
            c = const_value(y[1])
            if op == "Eq":
                lo, hi = max(lo, c), min(hi, c)
            elif op == "Lt":
                hi = min(hi, c - 1)
            elif op == "Le":
                hi = min(hi, c)
            elif op == "Gt":
                lo = max(lo, c + 1)
            elif op == "Ge":
                lo = max(lo, c)
            elif op == "Ne":
                if c == lo:
                    lo += 1
                if c == hi:
                    hi -= 1
        for sb in b.reachable():
            tt = b.blocks[sb]["term"]
            if tt["k"] != "SwitchInt" or tt.get("dty") != "bool":
                continue
            e = strip_refs(b.trace(tt["discr"]))
            neg = False
            while e[0] == "unop" and e[1] == "Not":
                neg, e = not neg, strip_refs(e[2])
            if e[0] == "call" and e[1] and e[1]["path"].endswith("::is_empty") and "serde_json::Map" in e[1]["path"] and self._is_object_payload(e[2][0]):
                for truth in (True, False):
                    if edge_dominates(b, sb, bool_edge(b, sb, truth), target) and not edge_dominates(b, sb, bool_edge(b, sb, not truth), target):
                        empty = truth != neg
                        if empty:
                            hi = min(hi, 0)
                        else:
                            lo = max(lo, 1)
        return lo, hi

    def _is_len_of_object(self, e):
        if e[0] == "call" and e[1] and e[1]["path"].endswith("::len") and "serde_json::Map" in e[1]["path"]:
            return self._is_object_payload(e[2][0])
        return False

    def _is_object_payload(self, e):
        e = strip_refs(e)
        return e[0] == "field" and e[1][0] == "downcast" and e[1][2] == "Object" and strip_refs(e[1][1]) == ("arg", self.value_arg)

    def some_edge(self):
        """Edge taken when the table lookup returned Some."""
        b = self.body
        out = []
        for bi in b.reachable():
            t = b.blocks[bi]["term"]
            if t["k"] != "SwitchInt":
                continue
            e = b.trace(t["discr"])
            if e[0] == "discr":
                x = strip_refs(e[1])
                if x[0] == "call" and x[1] and x[1]["path"] == PHF_GET:
                    r = switch_edges_for_variant(b, bi, "Some")
                    if r and r[1]:
                        out.append((bi, r[0]))
        # is_none()/is_some() tests of the lookup result
        from .core import option_guards
        for (sw, t_some, t_none) in option_guards(b, lambda x: x[0] == "call" and x[1] is not None and x[1]["path"] == PHF_GET):
            if (sw, t_some) not in out:
                out.append((sw, t_some))
        return out

    def lookup_key_expr(self):
        return self.body.trace(self.get_term["args"][1])

    def operand_expr(self):
        """Expression of the object's single value (the operand)."""
        return None
