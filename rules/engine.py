#!/usr/bin/env python3
"""Verdict bookkeeping shared by all property checks: obligations, violations,
known findings, evidence files, exit codes."""
import re, json, os, sys, time, hashlib

from . import extract as ex
from .core import Facts

VERIF = ex.VERIF
EVID = os.environ.get("JL_EVIDENCE_DIR") or os.path.join(VERIF, "evidence")
KNOWN = os.path.join(VERIF, "known_findings.json")


class Inconclusive(Exception):
    pass


class Ctx:
    """One run of one property check."""

    def __init__(self, prop, tier, level="other"):
        self.prop = prop
        self.tier = tier
        self.level = level
        self.t0 = time.time()
        self.seed = int(os.environ.get("VERIF_SEED", "0") or 0)
        self.obls = []  # (clause, key, ok, detail)
        self.viol = []  # dicts
        self.samples = []
        self.notes = []
        self.trusted = []
        self.assumptions = []
        self.explanation = ""
        self.rule = ""
        self.configs = []
        self.counts = {}
        self.nontrivial = set()
        self._facts = {}
        self.digest = None
        self.inconclusive = []
        self.selftest = None
        self.undecided = []
        self.inline_set = ()      # helpers inlined in this run's view of the program (rules/inline.py)
        self.fact_paths = {}

    # ---- facts
    def facts(self, cfg, crate="jsonlogic_rs", profile="debug"):
        k = (cfg, crate, profile)
        if k not in self._facts:
            try:
                files, digest = ex.extract(cfg, profile)
            except ex.ExtractionError as e:
                raise Inconclusive("fact extraction failed: %s" % e)
            self.digest = digest
            if crate not in files:
                raise Inconclusive("no fact file for crate %s in config %s" % (crate, cfg))
            self.fact_paths[k] = files[crate]
            if self.inline_set:
                from . import inline
                self._facts[k] = inline.load_view(files[crate], [h for h in self.inline_set if h.startswith(crate + "::")])
            else:
                self._facts[k] = Facts(files[crate])
            tag = "%s/%s/%s" % (cfg, profile, crate)
            if tag not in self.configs:
                self.configs.append(tag)
        return self._facts[k]

    # ---- recording
    def ok(self, clause, key, detail="", nontrivial=False, sample=None):
        self.obls.append((clause, key, True, detail))
        if nontrivial:
            self.nontrivial.add((clause, key))
        if sample is not None and len([s for s in self.samples if s.get("clause") == clause]) < 4:
            self.samples.append({"clause": clause, "instance": key, "detail": sample})

    def fail(self, clause, key, detail, where="", path=None, fn=None):
        self.obls.append((clause, key, False, detail))
        # violation keys identify the construct, not its position: line numbers and block numbers are dropped
        # (the position is reported in `where`), so a known finding survives unrelated edits above it
        key = re.sub(r"\bbb\d+\b", "bb", re.sub(r"(\b[\w/.-]+\.(?:rs|py|toml)):\d+(?::\d+)?", r"\1", str(key)))
        self.viol.append({"clause": clause, "key": "%s|%s" % (clause, key), "detail": detail, "where": where, "function": fn, "path": path})

    def check(self, cond, clause, key, detail="", where="", nontrivial=False, sample=None, fn=None):
        if cond:
            self.ok(clause, key, detail, nontrivial, sample)
        else:
            self.fail(clause, key, detail, where, fn=fn)
        return cond

    def unread(self, clause, key, detail, where="", fn=None):
        """The code under this clause is written in a form the rule cannot read as either satisfying or violating
        it.  Nothing is claimed for that instance: it is listed as undecided in the evidence and on stdout, and the
        verdict is formed from the instances that could be read."""
        self.undecided.append({"clause": clause, "key": "%s|%s" % (clause, key), "detail": detail, "where": where, "function": fn})

    def include(self, other_prop, run_fn, clause, keep=lambda c: True, what=""):
        """Clauses of another property that this property rests on (e.g. C12 "the keys that var cannot find" rests on the
        lookup clauses of C11): run them on the same facts and report their violations under `clause`."""
        sub = Ctx(other_prop, self.tier, self.level)
        sub._facts = self._facts
        sub.fact_paths = self.fact_paths
        sub.inline_set = self.inline_set
        try:
            run_fn(sub)
        except Inconclusive as e:
            self.unread(clause, "%s" % other_prop, "%s could not be read: %s" % (what or other_prop, e))
            return
        self.digest = self.digest or sub.digest
        for c in sub.configs:
            if c not in self.configs:
                self.configs.append(c)
        n = 0
        for (cl, key, ok, detail) in sub.obls:
            if keep(cl):
                n += 1
                if ok:
                    self.obls.append((clause, "%s %s|%s" % (other_prop, cl, key), True, detail))
        for v in sub.viol:
            if keep(v["clause"]):
                self.fail(clause, "%s %s" % (other_prop, v["key"]), "%s: %s" % (what or other_prop, v["detail"]), where=v["where"], fn=v.get("function"))
        for u in sub.undecided:
            if keep(u["clause"]):
                self.undecided.append(u)
        self.count("%s clauses included under %s" % (other_prop, clause), n)

    def need(self, cond, reason):
        """Fail closed: a missing anchor/role/count makes the run inconclusive."""
        if not cond:
            raise Inconclusive(reason)

    def floor(self, name, count, minimum):
        self.counts[name] = count
        if count < minimum:
            raise Inconclusive("instance count for %s fell to %d (floor %d): the rule would pass vacuously" % (name, count, minimum))

    def count(self, name, n):
        self.counts[name] = n

    # ---- finishing
    def finish(self):
        wall = time.time() - self.t0
        known = []
        if os.path.exists(KNOWN):
            with open(KNOWN) as fh:
                known = json.load(fh).get("findings", [])
        known_keys = {(k["property"], k["key"]): k for k in known if k.get("status") == "known"}
        real = []
        lines = []
        seen_keys = set()
        for v in self.viol:
            if v["key"] in seen_keys:
                continue
            seen_keys.add(v["key"])
            kk = (self.prop, v["key"])
            if kk in known_keys:
                lines.append("KNOWN-FINDING: property=%s %s — %s" % (self.prop, v["key"], known_keys[kk].get("what", "")))
            else:
                real.append(v)
        os.makedirs(os.path.join(EVID, "replay"), exist_ok=True)
        replay_path = None
        if real:
            replay_path = os.path.join(EVID, "replay", "%s.json" % self.prop)
            with open(replay_path, "w") as fh:
                json.dump({"property": self.prop, "digest": self.digest, "violations": real}, fh, indent=1)
        n_obl = len(self.obls)
        n_ok = sum(1 for o in self.obls if o[2])
        cov = {
            "explanation": self.explanation,
            "rule": self.rule,
            "obligations": n_obl,
            "discharged": n_ok,
            "evaluations": n_obl,
            "distinct_nontrivial": len(self.nontrivial),
            "samples": self.samples[:40] or [{"note": "no instance recorded"}],
            "checker_cmd": "./check %s --tier %s" % (self.prop, self.tier),
            "trusted_base": self.trusted,
            "exhaustive": not self.inconclusive,
            "configs": self.configs,
            "instance_counts": self.counts,
            "source_digest": self.digest,
            "clauses": sorted({o[0] for o in self.obls}),
            "known_findings_reported": [l for l in lines],
            "notes": self.notes,
            "undecided": self.undecided,
        }
        if self.selftest is not None:
            cov["selftest"] = self.selftest
        ev = {
            "property_id": self.prop,
            "tier": self.tier,
            "seed": self.seed,
            "level": self.level,
            "coverage": cov,
            "assumptions": self.assumptions,
            "wall_s": round(wall, 3),
            "violations": len(real),
        }
        if self.inconclusive:
            ev["coverage"]["inconclusive"] = self.inconclusive
        os.makedirs(EVID, exist_ok=True)
        with open(os.path.join(EVID, "%s.json" % self.prop), "w") as fh:
            json.dump(ev, fh, indent=1)
        for l in lines:
            print(l)
        for u in self.undecided:
            print("UNDECIDED property=%s %s  %s  %s" % (self.prop, u["where"], u["key"], u["detail"]))
        print("[%s] tier=%s configs=%s obligations=%d discharged=%d nontrivial=%d wall=%.1fs" % (self.prop, self.tier, ",".join(self.configs), n_obl, n_ok, len(self.nontrivial), wall))
        for k, v in sorted(self.counts.items()):
            print("    count %-40s %s" % (k, v))
        if real:
            for v in real:
                print("  %s  %s  %s  %s" % (v["where"], v.get("function") or "", v["key"], v["detail"]))
                if v.get("path"):
                    print("      path: %s" % " -> ".join(v["path"]))
            print("VIOLATION property=%s replay=%s" % (self.prop, replay_path))
            return 1
        if self.inconclusive:
            for r in self.inconclusive:
                print("INCONCLUSIVE property=%s reason=%s" % (self.prop, r))
            return 2
        return 0


def _attempt(prop, tier, fn, level, inline_set=()):
    from . import prov
    prov._CALLABLE_CACHE.clear()
    prov._INDEX_CACHE.clear()
    ctx = Ctx(prop, tier, level)
    ctx.inline_set = tuple(sorted(inline_set))
    ok = False
    try:
        try:
            from . import common
            common.prelude(ctx)
        except Inconclusive:
            pass        # the property's own rules name the role that cannot be read
        fn(ctx)
        ok = True
    except Inconclusive as e:
        ctx.inconclusive.append(str(e))
    except Exception as e:  # an idiom the rule cannot read must never look like a verdict
        import traceback
        tb = traceback.format_exc().strip().splitlines()
        ctx.inconclusive.append("internal error while reading the code (%s: %s) at %s" % (type(e).__name__, e, tb[-3].strip() if len(tb) >= 3 else ""))
    return ctx, ok


# Clauses whose reading is stated on dataflow / dominance / decision cases and therefore means the same thing when a
# helper's code stands at its call site.  Only violations of these clauses may be discharged by a helper-inlined view
# (rules/inline.py).  Clauses that look at *which functions are called* ("nothing else is consulted", matrices read by
# forcing a variant onto a place) are not listed: a helper that hides a wrong decision would vanish into its caller.
INLINE_SAFE = {
    "C01": [r"^K1\.source$", r"^K2\.recursion$"],
    "C02": [r"^K2\.(guard-|key-|returns-hit|table-arg)", r"^K4\.(who-may-parse|literal-inside)$"],
    "C03": [r"^K4\.operand$"],
    "C04": [r"^K1\.S1$", r"^K3\.(once|per-argument)$", r"^K4\."],
    "C05": [r"^K2\.(per-element|at-most-once|against-the-data)$"],
    "C08": [r"^K3\.(fresh-operands|owned-by-conversion)$"],
    "C09": [r"^K2\.(to-primitive|case|both-operands)$", r"^K3\.to-primitive-shared$", r"^K1\.(conjunction|three-operand|untouched)$"],
    "C13": [r"^K3\.reduce-(context|fresh|binding)$"],
    "C14": [r"^K4\.predicate-site$"],
    "C15": [r"^K3\.pair$"],
    "C16": [r"^K2\.integer-operands$"],
    "C17": [r"^K3\.(effect|log-once|per-element|at-most-once)$"],
    "C18": [r"^K1\.", r"^K3\.", r"^K4\.fail-"],
    "C19": [r"^K2\.(parse-order|parse-errors-propagate|calls-apply-once)$"],
}


def _inline_safe(prop, ctx0):
    extra = []
    try:      # a rule module may list further inline-safe clauses of its own (module attribute INLINE_SAFE)
        import importlib
        extra = list(getattr(importlib.import_module("rules.%s" % prop.lower()), "INLINE_SAFE", []))
    except Exception:
        pass
    pats = [re.compile(p) for p in INLINE_SAFE.get(prop, []) + extra]
    return all(any(p.search(v["clause"]) for p in pats) for v in ctx0.viol)


def _score(ctx):
    # clause instances that are not discharged: violated, or not read.  An instance that a view merely leaves unread
    # must not count as an improvement over the same instance violated on the program as written (the violation and
    # the 'not read' outcome of one rule may carry different clause ids, so they are counted, not matched)
    return len({v["key"] for v in ctx.viol}) + (50 if ctx.inconclusive else 0) + len({(u["clause"], u["key"]) for u in ctx.undecided})


def _resolve_undecided(prop, tier, fn, level, ctx0):
    """The program as written leaves clause instances undecided (a form the rule cannot read).  Look at the views
    with the helpers of the functions concerned inlined: a view in which everything is decided and nothing is violated
    is adopted; a view in which an instance that is undecided here is *violated* is adopted too (nothing established it
    in any view, and the inlined view shows the construct)."""
    from . import inline
    cands = set()
    for path in set(ctx0.fact_paths.values()):
        try:
            cands |= set(inline.candidates(path))
        except Exception:
            pass
    hot = {u.get("function") for u in ctx0.undecided if u.get("function")}
    rel = []
    try:
        for f in ctx0._facts.values():
            cg, _ = f.callgraph()
            for hf in hot:
                root = hf
                while "::{closure#" in root:
                    root = root.rsplit("::{closure#", 1)[0]
                for k_ in [hf, root]:
                    for c in cg.get(k_, ()):
                        if c in cands and c not in rel:
                            rel.append(c)
                    if k_ in cands and k_ not in rel:
                        rel.append(k_)
    except Exception:
        pass
    deep = list(rel)      # … and the helpers those helpers call (`main → data_text → read_stdin`: the construct may sit two calls down): one more trial, last
    try:
        for f in ctx0._facts.values():
            cg, _ = f.callgraph()
            i = 0
            while i < len(deep) and len(deep) < 8:
                for c in sorted(cg.get(deep[i], ())):
                    if c in cands and c not in deep:
                        deep.append(c)
                i += 1
    except Exception:
        deep = list(rel)
    und_clauses = {u["clause"] for u in ctx0.undecided}
    t0 = time.time()
    trials = [frozenset([h]) for h in rel[:6]]
    if len(rel) > 1:
        trials.append(frozenset(rel[:6]))
    if len(deep) > len(rel) and frozenset(deep[:8]) not in trials:
        trials.append(frozenset(deep[:8]))
    first = shown = None      # the first view that decides more / that shows a violation: adopted unless a later view decides everything; a view that shows a violation goes before one that merely leaves less unread
    for trial in trials:
        if time.time() - t0 > float(os.environ.get("JL_INLINE_BUDGET", "240")):
            break
        c, ok = _attempt(prop, tier, fn, level, trial)
        if not ok or c.inconclusive:
            continue
        if not c.viol and len(c.undecided) < len(ctx0.undecided):
            c.notes.append("decided on a behaviour-preserving view of the program (private helper functions inlined at their call sites: %s); the program as written left %d clause instance(s) unread" % (", ".join(c.inline_set), len(ctx0.undecided)))
            if not c.undecided:
                return c          # everything decided, nothing violated: a view that inlines less and leaves something unread (or reads it as a violation for want of the other helper) does not count against it
            first = first or c
        elif c.viol and any(v["clause"] in und_clauses for v in c.viol):
            c.viol = [v for v in c.viol if v["clause"] in und_clauses]
            c.notes.append("reported on the view of the program with %s inlined at their call sites: the program as written left these clause instances unread, the view shows the construct" % ", ".join(c.inline_set))
            shown = shown or c
    return shown or first


def _helper_views(prop, tier, fn, level, ctx0):
    """The rule did not pass on the program as written.  Inlining a private helper function at its call sites
    is behaviour-preserving, and a rule that holds on a behaviourally identical program holds for the property:
    search (greedily, most relevant helpers first, bounded) for a set of helpers whose inlining lets every clause
    be discharged.  Returns the passing Ctx or None."""
    from . import inline
    budget = float(os.environ.get("JL_INLINE_BUDGET", "240"))
    t0 = time.time()
    cands = set()
    for path in set(ctx0.fact_paths.values()):
        try:
            cands |= set(inline.candidates(path))
        except Exception:
            pass
    if not cands:
        return None
    text = " ".join("%s %s %s %s" % (v["key"], v["detail"], v.get("function") or "", " ".join(v.get("path") or [])) for v in ctx0.viol) + " " + " ".join(ctx0.inconclusive)

    def short(k):
        return k.split("::", 1)[1] if "::" in k else k
    hot_fns = {v.get("function") for v in ctx0.viol if v.get("function")}
    rel = [k for k in sorted(cands) if short(k) in text or k in text or k in hot_fns]
    # helpers called from the functions the violations sit in
    try:
        for f in ctx0._facts.values():
            cg, _ = f.callgraph()
            for hf in hot_fns:
                for c in cg.get(hf, ()):
                    if c in cands and c not in rel:
                        rel.append(c)
            for k in sorted(cands):      # helpers that call a function named in the report
                if k not in rel and any(c in hot_fns or short(c) in text for c in cg.get(k, ())):
                    rel.append(k)
    except Exception:
        pass
    rest = [k for k in sorted(cands) if k not in rel]
    order = rel + rest
    cur, cur_score = set(), _score(ctx0)
    single = {}
    best_ctx = None
    tried = set()
    improved = True
    while improved and time.time() - t0 < budget:
        improved = False
        best = None
        for h in order:
            if h in cur or time.time() - t0 > budget:
                continue
            trial = frozenset(cur | {h})
            if trial in tried:
                continue
            tried.add(trial)
            c, ok = _attempt(prop, tier, fn, level, trial)
            sc = _score(c)
            if not cur:
                single[h] = (sc, bool(c.inconclusive))
            if os.environ.get("JL_INLINE_DEBUG"):
                print("  [inline] try +%s -> score %d %s" % (short(h), sc, (c.inconclusive or [""])[0][:150]))
            if ok and sc == 0:
                return c
            if sc < cur_score and (best is None or sc < best[0]):
                best = (sc, h)
                best_ctx = c
                if h in rel:
                    break          # take the first improving relevant helper at once
        if best:
            cur.add(best[1])
            cur_score = best[0]
            improved = True
    # two helpers that only help together (`borrow_all(&evaluate_arguments(..)?)`): the greedy search needs every single
    # step to improve the score; as a last trial all helpers named in the report / called from the reported functions
    if len(rel) >= 2 and time.time() - t0 < budget:
        harmless = [h for h in rel if h in single and not single[h][1] and single[h][0] <= _score(ctx0)]
        named = [h for h in harmless if short(h) in text or h in text]
        for trial in (frozenset(named[:6]) | frozenset(cur), frozenset(harmless[:6]) | frozenset(cur)):
            if len(trial) < 2:
                continue
            if trial in tried:
                continue
            tried.add(trial)
            c, ok = _attempt(prop, tier, fn, level, trial)
            sc = _score(c)
            if os.environ.get("JL_INLINE_DEBUG"):
                print("  [inline] try together %s -> score %d %s" % (sorted(short(h) for h in trial), sc, (c.inconclusive or [""])[0][:150]))
            if ok and sc == 0:
                return c
            if sc < cur_score and not c.inconclusive:
                best_ctx, cur_score = c, sc
    if best_ctx is not None and not best_ctx.inconclusive:
        best_ctx.partial_view = True
        return best_ctx
    return None


def run_check(prop, tier, fn, level="other"):
    forced = [h for h in os.environ.get("JL_INLINE_SET", "").split(",") if h]     # development aid
    ctx, ok = _attempt(prop, tier, fn, level, forced)
    if (ctx.viol or ctx.inconclusive) and os.environ.get("JL_NO_INLINE") != "1" and not forced and _inline_safe(prop, ctx):
        alt = _helper_views(prop, tier, fn, level, ctx)
        if alt is not None and getattr(alt, "partial_view", False):
            # no view discharges everything: report what is left in the view that discharges most (it is the same
            # program; fewer, more specific complaints)
            alt.notes.append("reported on the view of the program with the private helper functions %s inlined at their call sites; the program as written left %d clause instance(s) undecided, this view %d" % (", ".join(alt.inline_set), _score(ctx), _score(alt)))
            alt.t0 = ctx.t0
            ctx, ok = alt, True
        elif alt is not None:
            alt.notes.append("decided on a behaviour-preserving view of the program: private helper functions inlined at their call sites: %s (the program as written left %d clause instance(s) undecided)" % (", ".join(alt.inline_set), _score(ctx)))
            alt.t0 = ctx.t0
            ctx, ok = alt, True
    if ok and not ctx.viol and not ctx.inconclusive and ctx.undecided and os.environ.get("JL_NO_INLINE") != "1" and not forced:
        alt = _resolve_undecided(prop, tier, fn, level, ctx)
        if alt is not None:
            alt.t0 = ctx.t0
            ctx = alt
    if not ok:
        pass
    else:
        if tier == "thorough" and not ctx.viol and not ctx.inconclusive:
            try:
                from . import selftest
                selftest.run(ctx, prop)
            except Exception as e:
                ctx.notes.append("self-test could not run: %s" % e)
    return ctx.finish()
