#!/usr/bin/env python3
"""R-ERR — error discipline: a Result carrying the crate's error type is never
discarded.  A call site of an error-dropping Result method (`ok`, `unwrap_or*`,
`is_ok`, `is_err`, `err`, `unwrap_or_default`) whose error type is the crate's
Error turns 'an error' into 'some value' — the structural way in which
'rejects with an error' stops being true although the check itself is intact."""
from .core import callee_of

DROPPERS = {"ok", "unwrap_or", "unwrap_or_else", "unwrap_or_default", "is_ok", "is_err", "err", "map_or", "map_or_else", "iter", "into_iter", "and", "or", "or_else"}
# `or`/`or_else` on Result replace the error by another result: listed because they discard the first error


def crate_error_type(facts):
    # the error enum returned by the public entry point
    for it in facts.items.values():
        if it.get("exported") and it.get("output", "").startswith("std::result::Result<serde_json::Value, "):
            return it["output"][len("std::result::Result<serde_json::Value, "):-1]
    return "error::Error"


def dropped_errors(facts, scope=None):
    """[(body, bi, callee full)] for error-dropping calls on Result<_, crate Error> inside `scope` (body keys; None = all)."""
    err = crate_error_type(facts)
    out = []
    for b in facts.fns():
        if scope is not None and b.key not in scope:
            continue
        for bi, t in b.calls():
            c = callee_of(t)
            if not c:
                continue
            p = c["path"]
            if p.startswith("std::result::Result::<T, E>::") and p.rsplit("::", 1)[1] in DROPPERS:
                full = c["full"]
                head = full[len("std::result::Result::<"):]
                # E is the last top-level generic argument of Result::<T, E>
                depth = 0
                cut = None
                for i, ch in enumerate(head):
                    if ch in "<([":
                        depth += 1
                    elif ch in ">)]":
                        if depth == 0:
                            cut = i
                            break
                        depth -= 1
                inner = head[:cut] if cut is not None else head
                depth = 0
                last = 0
                for i, ch in enumerate(inner):
                    if ch in "<([":
                        depth += 1
                    elif ch in ">)]":
                        depth -= 1
                    elif ch == "," and depth == 0:
                        last = i + 1
                e_ty = inner[last:].strip()
                if e_ty == err:
                    out.append((b, bi, full))
    return out


def callers_closure(facts, target_keys, extra_edges=None):
    """All local bodies from which any of target_keys is reachable (including the targets)."""
    cg, _ = facts.callgraph()
    rev = {}
    for k, vs in cg.items():
        for v in vs:
            rev.setdefault(v, set()).add(k)
    if extra_edges:
        for k, vs in extra_edges.items():
            for v in vs:
                rev.setdefault(v, set()).add(k)
    seen = set()
    st = list(target_keys)
    while st:
        k = st.pop()
        if k in seen:
            continue
        seen.add(k)
        st.extend(rev.get(k, ()))
    return seen


def err_to_ok(facts, scope=None):
    """[(body, switch block, what)] — a Result of the crate's error type is tested and, on its Err edge,
    the function produces an Ok value that is not the propagated residual: an error turned into a success."""
    from .core import strip_refs, switch_edges_for_variant
    err = crate_error_type(facts)
    out = []
    for b in facts.fns():
        if scope is not None and b.key not in scope:
            continue
        for sb in b.reachable():
            tt = b.blocks[sb]["term"]
            if tt["k"] != "SwitchInt":
                continue
            e = b.trace(tt["discr"])
            if e[0] != "discr" or e[2] != "std::result::Result":
                continue
            # type of the scrutinised place: find the Discriminant statement
            ty = None
            for st in b.blocks[sb]["stmts"]:
                if st["k"] == "Assign" and st["rv"]["k"] == "Discriminant":
                    ty = b.local_ty(st["rv"]["place"]["local"]) if not st["rv"]["place"]["proj"] else None
            if ty is None or not ty.rstrip(">").endswith(err) and (", %s>" % err) not in ty:
                continue
            r_err = switch_edges_for_variant(b, sb, "Err")
            r_ok = switch_edges_for_variant(b, sb, "Ok")
            if not r_err or not r_ok:
                continue
            # the error is *discarded* on its edge — nothing downstream reads the Err payload of the tested place
            # (`if let Ok(Some(op)) = parse(v) { return … }` falls through to the code after it) — and that code can
            # return a success: the failure is silently turned into whatever follows
            place_l = None
            for st in b.blocks[sb]["stmts"]:
                if st["k"] == "Assign" and st["rv"]["k"] == "Discriminant" and not st["rv"]["place"]["proj"]:
                    place_l = st["rv"]["place"]["local"]
            if place_l is not None:
                down = b.reachable(r_err[0])
                reads_payload = False
                returns_ok = None
                import json as _json
                for bi in sorted(down):
                    blk = b.blocks[bi]
                    txt = _json.dumps(blk["stmts"]) + _json.dumps({k_: v_ for k_, v_ in blk["term"].items() if k_ in ("args", "discr", "func")})
                    if ('"local": %d, "proj": [{"k": "Downcast"' % place_l) in txt and '"Err"' in txt:
                        reads_payload = True
                    for si, st in enumerate(blk["stmts"]):
                        if st["k"] == "Assign" and st["place"]["local"] == 0 and not st["place"]["proj"] and st["rv"]["k"] == "Aggregate" and st["rv"].get("variant") == "Ok" and "Result" in (st["rv"].get("adt") or "Result") and returns_ok is None:
                            returns_ok = (bi, si)
                moved_whole = any(('"k": "Move", "place": {"local": %d, "proj": []}' % place_l) in _json.dumps(b.blocks[bi]) for bi in down)
                if not reads_payload and not moved_whole and returns_ok is not None and returns_ok[0] not in (b.reachable(r_ok[0]) - down):
                    out.append((b, returns_ok[0], returns_ok[1], "the Err case of the test at bb%d is neither propagated nor looked at, and the code that follows returns Ok(..)" % sb))
                    continue
            region = b.reachable(r_err[0]) - b.reachable(r_ok[0])
            for bi in sorted(region | {r_err[0]}):
                for si, st in enumerate(b.blocks[bi]["stmts"]):
                    if st["k"] == "Assign" and st["place"]["local"] == 0 and not st["place"]["proj"] and st["rv"]["k"] == "Aggregate" and st["rv"].get("variant") == "Ok" and "Result" in (st["rv"].get("adt") or ""):
                        out.append((b, bi, si, "on the Err edge of the test at bb%d the function returns Ok(..)" % sb))
    return out
