#!/usr/bin/env python3
"""E1 runner: build fact files for /repo's *current working tree*.

For each requested config (feature set × profile) runs
`cargo +nightly check --offline` with the jlfacts driver injected as
RUSTC_WORKSPACE_WRAPPER, into a per-config target directory under
/verif/.cache (dependencies are cached there; the member crate's fingerprint is
removed before every run so that the driver is never skipped).  Fact files are
cached by a digest of the repository sources + driver binary + flags, so the
per-property commands share one extraction when nothing changed and always
re-extract when something did.
"""
import fcntl, hashlib, json, os, shutil, subprocess, sys, time, glob

VERIF = os.path.dirname(os.path.dirname(os.path.abspath(__file__)))
REPO = os.environ.get("JL_REPO", "/repo")
CACHE = os.environ.get("JL_CACHE", os.path.join(VERIF, ".cache"))
DRIVER = os.path.join(VERIF, "driver", "target", "debug", "jlfacts")

CONFIGS = {
    "default": [],
    "cmdline": ["--features", "cmdline"],
    "python": ["--features", "python"],
    "wasm": ["--features", "wasm"],
}
PROFILES = {
    # debug: overflow-checks + debug-assertions on (superset of panic sources)
    "debug": [],
    # release-like: both off
    "release": ["--release"],
}
BASE_RUSTFLAGS = "-Zmir-opt-level=0 -Awarnings -Zmir-enable-passes=-CheckAlignment,-CheckNull,-CheckEnums"


def nightly_sysroot():
    return subprocess.check_output(["rustc", "+nightly", "--print", "sysroot"], text=True).strip()


def source_digest(repo=REPO):
    h = hashlib.sha256()
    paths = []
    for root in ("src", "py"):
        for dp, dn, fn in os.walk(os.path.join(repo, root)):
            dn.sort()
            for f in sorted(fn):
                if f.endswith((".rs", ".py")):
                    paths.append(os.path.join(dp, f))
    for f in ("Cargo.toml", "Cargo.lock", "setup.py"):
        p = os.path.join(repo, f)
        if os.path.exists(p):
            paths.append(p)
    for p in paths:
        h.update(os.path.relpath(p, repo).encode())
        h.update(b"\0")
        with open(p, "rb") as fh:
            h.update(fh.read())
        h.update(b"\0")
    st = os.stat(DRIVER)
    h.update(("%d:%d" % (st.st_size, int(st.st_mtime))).encode())
    h.update(BASE_RUSTFLAGS.encode())
    return h.hexdigest()[:24]


def ensure_driver():
    if not os.path.exists(DRIVER):
        subprocess.check_call(["cargo", "build", "--offline"], cwd=os.path.join(VERIF, "driver"))


def facts_dir(digest, cfg, profile):
    return os.path.join(CACHE, "facts", digest, "%s-%s" % (cfg, profile))


def extract(cfg, profile="debug", repo=REPO, verbose=False):
    """Return {crate_file_stem: path} of the fact files for (cfg, profile)."""
    ensure_driver()
    os.makedirs(CACHE, exist_ok=True)
    digest = source_digest(repo)
    out = facts_dir(digest, cfg, profile)
    stamp = os.path.join(out, "DONE")
    lock = open(os.path.join(CACHE, "lock-%s-%s" % (cfg, profile)), "w")
    fcntl.flock(lock, fcntl.LOCK_EX)
    try:
        if not os.path.exists(stamp):
            tmp = out + ".tmp%d" % os.getpid()
            shutil.rmtree(tmp, ignore_errors=True)
            os.makedirs(tmp)
            target = os.path.join(CACHE, "target-%s-%s" % (cfg, profile))
            # never let cargo's freshness cache skip the wrapper for the member
            for fp in glob.glob(os.path.join(target, "*", ".fingerprint", "jsonlogic-rs-*")):
                shutil.rmtree(fp, ignore_errors=True)
            env = dict(os.environ)
            env["LD_LIBRARY_PATH"] = nightly_sysroot() + "/lib:" + env.get("LD_LIBRARY_PATH", "")
            env["RUSTFLAGS"] = BASE_RUSTFLAGS
            env["RUSTC_WORKSPACE_WRAPPER"] = DRIVER
            env["JLFACTS_OUT"] = tmp
            env["CARGO_TARGET_DIR"] = target
            env["CARGO_NET_OFFLINE"] = "true"
            env.pop("RUSTC_WRAPPER", None)
            cmd = ["cargo", "+nightly", "check", "--offline", "--quiet"] + CONFIGS[cfg] + PROFILES[profile]
            t0 = time.time()
            r = subprocess.run(cmd, cwd=repo, env=env, stdout=subprocess.PIPE, stderr=subprocess.STDOUT, text=True)
            if r.returncode != 0:
                shutil.rmtree(tmp, ignore_errors=True)
                raise ExtractionError("cargo check failed for config %s/%s:\n%s" % (cfg, profile, r.stdout[-4000:]))
            files = [f for f in os.listdir(tmp) if f.endswith(".json")]
            if not any(f.startswith("jsonlogic_rs.") for f in files):
                shutil.rmtree(tmp, ignore_errors=True)
                raise ExtractionError("driver wrote no library fact file for %s/%s (wrapper skipped?)\n%s" % (cfg, profile, r.stdout[-2000:]))
            with open(os.path.join(tmp, "DONE"), "w") as fh:
                json.dump({"digest": digest, "cfg": cfg, "profile": profile, "wall_s": time.time() - t0, "files": files}, fh)
            shutil.rmtree(out, ignore_errors=True)
            os.makedirs(os.path.dirname(out), exist_ok=True)
            os.rename(tmp, out)
            if verbose:
                sys.stderr.write("[extract] %s/%s in %.1fs\n" % (cfg, profile, time.time() - t0))
            _gc(digest)
    finally:
        fcntl.flock(lock, fcntl.LOCK_UN)
        lock.close()
    res = {}
    for f in os.listdir(out):
        if f.endswith(".json"):
            res[f.split(".")[0]] = os.path.join(out, f)
    return res, digest


def _gc(keep):
    """Keep only the most recent few digests to bound disk use."""
    root = os.path.join(CACHE, "facts")
    try:
        ds = sorted((os.path.getmtime(os.path.join(root, d)), d) for d in os.listdir(root))
    except OSError:
        return
    for _, d in ds[:-6]:
        if d != keep:
            shutil.rmtree(os.path.join(root, d), ignore_errors=True)


class ExtractionError(Exception):
    pass


if __name__ == "__main__":
    cfgs = sys.argv[1:] or list(CONFIGS)
    for c in cfgs:
        prof = "debug"
        if ":" in c:
            c, prof = c.split(":")
        files, dg = extract(c, prof, verbose=True)
        print(c, prof, dg, files)
