#!/usr/bin/env python3
"""Helper inlining — a semantics-preserving *view* of the analysed program.

A maintainer who extracts a private helper function (or moves a few lines into one) changes no behaviour,
but moves the facts an intra-procedural rule needs (a dominating guard, a fold, a conversion) out of the
function the rule is looking at.  Inlining the helper back at its call sites gives a program with the same
behaviour in which the rule can be decided again.  Every rule of this engine states a sufficient condition
for its property on the program it is given; a condition that holds on a behaviourally identical program
holds for the property, so a verdict reached on an inlined view is as valid as one reached on the original.

The transformation works on the fact file (MIR as JSON), not on source text:

  call  dest = h(a1…an) -> bbT       ⇒    arg_i' = a_i ; goto h.bb0'
  h.Return                           ⇒    dest = move ret' ; goto bbT

with h's locals and blocks appended to the caller (renumbered), h's closures copied (so that `parent` stays
a function of one body) and h itself removed from the view when no reference to it is left.

Inlinable: local `fn` bodies that are not externally visible, not address-taken (never used as a value: table
entries, generic arguments, fn pointers), not part of a call-graph cycle.
"""
import copy, json

from .core import Facts, callee_of


def _shift_place(p, loff):
    p["local"] = p["local"] + loff
    for pr in p["proj"]:
        if pr.get("k") == "Index" and "local" in pr:
            pr["local"] = pr["local"] + loff


def _shift_operand(o, loff):
    if isinstance(o, dict) and o.get("k") in ("Copy", "Move") and "place" in o:
        _shift_place(o["place"], loff)


def _shift_rvalue(rv, loff, clos_map):
    for kk in ("op", "a", "b", "operand"):
        if kk in rv and isinstance(rv[kk], dict):
            _shift_operand(rv[kk], loff)
    if "place" in rv and isinstance(rv["place"], dict):
        _shift_place(rv["place"], loff)
    if rv["k"] == "Aggregate":
        for o in rv["ops"]:
            _shift_operand(o, loff)
        if rv.get("closure") in clos_map:
            rv["closure"] = clos_map[rv["closure"]]


def _shift_term(t, loff, boff, clos_map):
    k = t["k"]
    if k in ("Goto", "Drop", "Assert") or (k in ("Call", "TailCall") and t.get("target") is not None):
        t["target"] = t["target"] + boff
    if k == "SwitchInt":
        t["arms"] = [[v, b + boff] for v, b in t["arms"]]
        t["otherwise"] = t["otherwise"] + boff
        _shift_operand(t["discr"], loff)
    if k == "Drop":
        _shift_place(t["place"], loff)
    if k == "Assert":
        _shift_operand(t["cond"], loff)
        for kk in ("len", "index"):
            if isinstance(t.get(kk), dict):
                _shift_operand(t[kk], loff)
    if k in ("Call", "TailCall"):
        _shift_operand(t["func"], loff)
        for a in t["args"]:
            _shift_operand(a, loff)
        if t.get("dest"):
            _shift_place(t["dest"], loff)


class Inliner:
    def __init__(self, j):
        self.j = j
        self.bodies = {b["key"]: b for b in j["bodies"]}
        self.items = {it["key"]: it for it in j["items"]}
        self._n = 0

    # ---- which helpers may be inlined -------------------------------------------------------------
    def _local_callee(self, t):
        if t["k"] not in ("Call", "TailCall"):
            return None
        c = callee_of(t)
        if c and c.get("local") and c.get("key") in self.bodies and self.bodies[c["key"]]["kind"] == "fn":
            return c["key"]
        return None

    def _walk_consts(self, b, fn):
        def operand(o):
            if isinstance(o, dict) and o.get("k") == "Const":
                c = o["const"]
                if isinstance(c.get("fn"), dict):
                    fn(c["fn"], "value")
        for blk in b["blocks"]:
            for s in blk["stmts"]:
                if s["k"] != "Assign":
                    continue
                rv = s["rv"]
                for kk in ("op", "a", "b", "operand"):
                    if isinstance(rv.get(kk), dict):
                        operand(rv[kk])
                if rv["k"] == "Aggregate":
                    for o in rv["ops"]:
                        operand(o)
            t = blk["term"]
            if t["k"] in ("Call", "TailCall"):
                for a in t["args"]:
                    operand(a)
                c = t.get("callee")
                if c:
                    for fa in (c.get("fnargs") or []):
                        fn(fa if isinstance(fa, dict) else {"key": fa}, "generic")
                    r = c.get("resolved") or {}
                    for fa in (r.get("fnargs") or []):
                        fn(fa if isinstance(fa, dict) else {"key": fa}, "generic")
                    for fw in (c.get("fwd") or []):
                        fn(fw if isinstance(fw, dict) else {"key": fw}, "fwd")
                else:
                    operand(t["func"])

    def candidates(self):
        taken = set()

        def note(f, how):
            for kk in ("key",):
                if f.get(kk):
                    taken.add(f[kk])
            r = f.get("resolved")
            if isinstance(r, dict) and r.get("key"):
                taken.add(r["key"])
        for b in self.j["bodies"]:
            self._walk_consts(b, note)
        # call graph among local fns (closures attributed to their parents)
        owner = {}
        for b in self.j["bodies"]:
            k = b["key"]
            while self.bodies.get(k) and self.bodies[k]["kind"] != "fn" and self.bodies[k].get("parent"):
                k = self.bodies[k]["parent"]
            owner[b["key"]] = k
        cg = {}
        for b in self.j["bodies"]:
            o = owner[b["key"]]
            for blk in b["blocks"]:
                c = self._local_callee(blk["term"])
                if c:
                    cg.setdefault(o, set()).add(c)

        def reaches(a, target):
            seen, st = set(), list(cg.get(a, ()))
            while st:
                x = st.pop()
                if x == target:
                    return True
                if x in seen:
                    continue
                seen.add(x)
                st.extend(cg.get(x, ()))
            return False
        out = []
        called = set()
        for vs in cg.values():
            called |= vs
        for k, b in self.bodies.items():
            if b["kind"] != "fn" or k not in called or k in taken:
                continue
            it = self.items.get(k, {})
            if it.get("exported") or it.get("no_mangle") or it.get("reachable"):
                continue
            if k in cg.get(k, ()):        # directly self-recursive; a helper on a longer cycle (the evaluator's) is
                continue                  # inlined one level deep, which takes it off the cycle
            out.append(k)
        return sorted(out)

    # ---- the transformation -----------------------------------------------------------------------
    def _copy_closures(self, parent_key, new_parent):
        """Copy every closure defined (directly or nested) in function parent_key under new_parent, keeping the key
        convention `<parent>::{closure#n}` (nested closures keep their suffix); returns {old key: new key}."""
        m = {}
        pre = parent_key + "::{closure#"
        direct = sorted(k for k, b in self.bodies.items() if b["kind"] == "closure" and k.startswith(pre) and "::{closure#" not in k[len(pre):])
        for old in direct:
            self._n += 1
            nroot = "%s::{closure#%d}" % (new_parent, 100 + self._n)
            for k in sorted(kk for kk, b in self.bodies.items() if b["kind"] == "closure" and (kk == old or kk.startswith(old + "::{closure#"))):
                m[k] = nroot + k[len(old):]
        root_parent = new_parent
        while self.bodies.get(root_parent, {}).get("kind") == "closure":
            root_parent = self.bodies[root_parent].get("parent") or root_parent.rsplit("::{closure#", 1)[0]
        for old, nk in m.items():
            nb = copy.deepcopy(self.bodies[old])
            nb["key"] = nk
            nb["parent"] = root_parent
            nb["inlined_from"] = old
            for blk in nb["blocks"]:
                for s in blk["stmts"]:
                    if s["k"] == "Assign" and s["rv"]["k"] == "Aggregate" and s["rv"].get("closure") in m:
                        s["rv"]["closure"] = m[s["rv"]["closure"]]
            self.j["bodies"].append(nb)
            self.bodies[nk] = nb
        return m

    def inline_into(self, caller_key, helpers, depth=0):
        """Inline calls of `helpers` inside body caller_key (and inside its closures).  Returns number of sites."""
        n = 0
        targets = [caller_key] + [b["key"] for b in self.j["bodies"] if b["kind"] == "closure" and b["key"].startswith(caller_key + "::{closure#")]
        for tk in targets:
            if tk != caller_key:
                n += self.inline_into(tk, helpers, depth)
                continue
            b = self.bodies[tk]
            bi = 0
            here = False
            while bi < len(b["blocks"]):
                blk = b["blocks"][bi]
                t = blk["term"]
                ck = self._local_callee(t)
                if ck in helpers and ck != caller_key and depth < 6 and not blk.get("cleanup"):
                    # make sure the helper itself is already in inlined form
                    self.inline_into(ck, helpers - {ck}, depth + 1)
                    h = self.bodies[ck]
                    if len(t["args"]) != h["arg_count"]:
                        bi += 1
                        continue
                    loff = len(b["locals"])
                    boff = len(b["blocks"])
                    clos_map = self._copy_closures(ck, tk)
                    for l in h["locals"]:
                        b["locals"].append(copy.deepcopy(l))
                    # continuation block: dest = move ret' ; goto target
                    cont = boff + len(h["blocks"])
                    ret_sites = []
                    for hb in h["blocks"]:
                        nb = copy.deepcopy(hb)
                        for s in nb["stmts"]:
                            if s["k"] == "Assign":
                                _shift_place(s["place"], loff)
                                _shift_rvalue(s["rv"], loff, clos_map)
                            elif isinstance(s.get("place"), dict):
                                _shift_place(s["place"], loff)
                        tt = nb["term"]
                        if tt["k"] == "Return":
                            nb["term"] = {"k": "Goto", "target": cont}
                            ret_sites.append(len(b["blocks"]))
                        else:
                            _shift_term(tt, loff, boff, clos_map)
                        nb["inlined_from"] = ck
                        b["blocks"].append(nb)
                    span = blk.get("tspan") or b["span"]
                    ret_stmt = {"k": "Assign", "place": copy.deepcopy(t["dest"]), "pty": h["locals"][0]["ty"],
                                "rv": {"k": "Use", "op": {"k": "Move", "place": {"local": loff, "proj": []}}}, "span": span}
                    if t.get("target") is not None:
                        b["blocks"].append({"stmts": [ret_stmt], "term": {"k": "Goto", "target": t["target"]}, "tspan": span, "cleanup": False, "inlined_from": ck})
                    else:
                        b["blocks"].append({"stmts": [], "term": {"k": "Unreachable"}, "tspan": span, "cleanup": False, "inlined_from": ck})
                    for i, a in enumerate(t["args"]):
                        blk["stmts"].append({"k": "Assign", "place": {"local": loff + 1 + i, "proj": []}, "pty": h["locals"][1 + i]["ty"],
                                             "rv": {"k": "Use", "op": copy.deepcopy(a)}, "span": span})
                    blk["term"] = {"k": "Goto", "target": boff}
                    blk.setdefault("inlined_calls", []).append(ck)
                    # every block of the helper copy that builds the return value starts a path of its own
                    starts = [i for i in range(boff, cont) if any(st["k"] == "Assign" and st["place"]["local"] == loff and not st["place"]["proj"]
                                                                   and st["rv"]["k"] == "Aggregate" for st in b["blocks"][i]["stmts"])]
                    # … and every `?` error exit of the helper (`ret = from_residual(..)`): known to be Err / None
                    for i in range(boff, cont):
                        tt = b["blocks"][i]["term"]
                        if tt["k"] == "Call" and tt.get("dest") and tt["dest"]["local"] == loff and not tt["dest"]["proj"] and (callee_of(tt) or {}).get("path", "").endswith("::from_residual") and tt.get("target") is not None:
                            # give the path a block of its own to start from
                            nbk = {"stmts": [], "term": {"k": "Goto", "target": tt["target"]}, "tspan": b["blocks"][i].get("tspan"), "cleanup": False, "inlined_from": ck,
                                   "residual_of": "Err" if (callee_of(tt) or {}).get("path", "").startswith("<std::result::Result<") else "None"}
                            b["locals"].append(copy.deepcopy(b["locals"][loff]))
                            fl = len(b["locals"]) - 1
                            tt["dest"] = {"local": fl, "proj": []}
                            nbk["stmts"].append({"k": "Assign", "place": {"local": loff, "proj": []}, "pty": b["locals"][loff]["ty"],
                                                 "rv": {"k": "Use", "op": {"k": "Move", "place": {"local": fl, "proj": []}}}, "span": b["blocks"][i].get("tspan") or b["span"]})
                            b["blocks"].append(nbk)
                            tt["target"] = len(b["blocks"]) - 1
                            starts.append(len(b["blocks"]) - 1)
                    if len(starts) > 1:
                        for rs in starts:
                            self._thread(b, rs, ret_local=loff)
                        self.prune_unreachable(b)
                    n += 1
                    here = True
                bi += 1
            if here:
                # a function item handed to the helper and called through its `fn(..)` parameter is, at the call site,
                # a call of that function (rules/x_devirt.py: single-definition constant function pointers only)
                from . import x_devirt
                x_devirt.devirtualize(b)
        return n

    # ---- jump threading after an inlined return ------------------------------------------------------
    # The helper returned `Ok(Some(x))` on one path and `Ok(None)` on another; the caller immediately asks which.
    # In the inlined program that question is answered on each path: follow the path from the return site with
    # the constructors known so far, copy the blocks it runs through and replace every switch they decide by a
    # jump.  Copies run the same statements on the same locals, so behaviour is unchanged; what changes is that
    # the facts established inside the helper (its guards) dominate what the caller does under each answer.
    def _thread(self, b, start, limit=24, ret_local=None):
        know = {}
        blocks = b["blocks"]

        def k_of(o):
            if isinstance(o, dict) and o.get("k") in ("Copy", "Move"):
                p = o["place"]
                v = know.get(p["local"])
                for pr in p["proj"]:
                    if v is None:
                        return None
                    if pr["k"] == "Downcast":
                        if v[0] != "adt" or v[1] != pr.get("variant"):
                            return None
                    elif pr["k"] == "Field":
                        if v[0] not in ("adt", "tuple") or pr["i"] >= len(v[2]):
                            return None
                        v = v[2][pr["i"]]
                    else:
                        return None
                return v
            return None

        def step_stmts(stmts):
            for s in stmts:
                if s["k"] != "Assign":
                    continue
                pl = s["place"]
                if pl["proj"]:
                    if not any(pr["k"] == "Deref" for pr in pl["proj"]):
                        know.pop(pl["local"], None)
                    continue
                rv = s["rv"]
                v = None
                if rv["k"] == "Aggregate" and rv.get("agg") == "Adt":
                    v = ("adt", rv.get("variant"), [k_of(o) for o in rv["ops"]], int(rv.get("idx", 0)))
                elif rv["k"] == "Aggregate" and rv.get("agg") == "Tuple":
                    v = ("tuple", None, [k_of(o) for o in rv["ops"]], 0)
                elif rv["k"] == "Use":
                    v = k_of(rv["op"])
                elif rv["k"] == "Discriminant" and not rv["place"]["proj"]:
                    kv = know.get(rv["place"]["local"])
                    if kv and kv[0] == "adt":
                        v = ("int", kv[3])
                elif rv["k"] == "Discriminant":
                    kv = k_of({"k": "Copy", "place": rv["place"]})
                    if kv and kv[0] == "adt":
                        v = ("int", kv[3])
                if v is None:
                    know.pop(pl["local"], None)
                else:
                    know[pl["local"]] = v

        # dry run: walk the path, remember which switches the known constructors decide
        step_stmts(blocks[start]["stmts"])
        if blocks[start].get("residual_of") and ret_local is not None:
            know[ret_local] = ("adt", blocks[start]["residual_of"], [None], 1 if blocks[start]["residual_of"] == "Err" else 0)
        nxt = blocks[start]["term"].get("target") if blocks[start]["term"]["k"] == "Goto" else None
        path = []          # (original block, decided target or None)
        visited = set()
        last_useful = -1
        while nxt is not None and len(path) < limit and nxt not in visited and know:
            visited.add(nxt)
            orig = blocks[nxt]
            if orig.get("cleanup"):
                break
            step_stmts(orig["stmts"])
            t = orig["term"]
            if t["k"] == "SwitchInt":
                kv = k_of(t["discr"])
                if kv and kv[0] == "int":
                    tgt = None
                    for val, bb in t["arms"]:
                        if str(val) == str(kv[1]):
                            tgt = bb
                    if tgt is None:
                        tgt = t["otherwise"]
                    path.append((nxt, tgt, str(kv[1])))
                    last_useful = len(path) - 1
                    nxt = tgt
                    continue
                break
            path.append((nxt, None, None))
            if t["k"] == "Goto":
                nxt = t["target"]
            elif t["k"] == "Drop":
                if not t["place"]["proj"]:
                    know.pop(t["place"]["local"], None)
                nxt = t["target"]
            elif t["k"] == "Call":
                c = callee_of(t)
                cpath = c.get("path") if c else None
                dest = t.get("dest")
                v = None
                if cpath in ("<std::result::Result<T, E> as std::ops::Try>::branch", "<std::option::Option<T> as std::ops::Try>::branch") and t["args"]:
                    kv = k_of(t["args"][0])
                    if kv and kv[0] == "adt":
                        if kv[1] in ("Ok", "Some"):
                            v = ("adt", "Continue", [kv[2][0] if kv[2] else None], 0)
                        elif kv[1] in ("Err", "None"):
                            v = ("adt", "Break", [kv], 1)
                for a in t["args"]:          # moved-from arguments are gone
                    if a.get("k") == "Move" and not a["place"]["proj"]:
                        know.pop(a["place"]["local"], None)
                if dest and not dest["proj"]:
                    if v is None:
                        know.pop(dest["local"], None)
                    else:
                        know[dest["local"]] = v
                nxt = t.get("target")
            else:
                break
        # materialise copies up to the last switch that was decided.  Locals assigned on the copied path get fresh
        # names there (and are copied back at its end), so that a value defined on this path is not confused with
        # the value the same local receives on a sibling path.
        if last_useful < 0:
            return
        ren = {}

        def use(obj):
            if isinstance(obj, dict):
                if "proj" in obj and isinstance(obj.get("local"), int):
                    obj["local"] = ren.get(obj["local"], obj["local"])
                elif obj.get("k") == "Index" and isinstance(obj.get("local"), int):
                    obj["local"] = ren.get(obj["local"], obj["local"])
                for kk, v in obj.items():
                    if kk in ("callee", "const", "span", "tspan"):
                        continue
                    use(v)
            elif isinstance(obj, list):
                for v in obj:
                    use(v)

        def fresh(l):
            b["locals"].append(copy.deepcopy(b["locals"][l]))
            ren[l] = len(b["locals"]) - 1
            return ren[l]

        def rename_block(blk, from_stmt=0):
            for s in blk["stmts"][from_stmt:]:
                if s["k"] == "Assign":
                    use(s["rv"])
                    pl = s["place"]
                    if not pl["proj"] and pl["local"] > b["arg_count"]:
                        pl["local"] = fresh(pl["local"])
                    else:
                        use(pl)
                else:
                    use(s)
            t = blk["term"]
            if t["k"] in ("Call", "TailCall"):
                use(t["func"])
                use(t["args"])
                d = t.get("dest")
                if d is not None:
                    if not d["proj"] and d["local"] > b["arg_count"]:
                        d["local"] = fresh(d["local"])
                    else:
                        use(d)
            elif t["k"] == "SwitchInt":
                use(t["discr"])
            elif t["k"] == "Drop":
                use(t["place"])
            elif t["k"] == "Assert":
                use(t["cond"])

        # the start block: from the statement that builds the return value on
        sb = blocks[start]
        first = next((i for i, st in enumerate(sb["stmts"]) if st["k"] == "Assign" and not st["place"]["proj"] and (st["rv"]["k"] == "Aggregate" or sb.get("residual_of")) and st["place"]["local"] == ret_local), None) if ret_local is not None else None
        if first is not None:
            rename_block(sb, first)
        owner = start
        for i in range(last_useful + 1):
            oi, tgt, dval = path[i]
            cp = copy.deepcopy(blocks[oi])
            cp["threaded_from"] = oi
            rename_block(cp)
            ci = len(blocks)
            blocks.append(cp)
            pt = blocks[owner]["term"]
            if pt["k"] in ("Goto", "Call", "Drop", "Assert", "TailCall"):
                pt["target"] = ci
            if tgt is not None:
                cp["term"] = {"k": "Goto", "target": tgt, "threaded": True, "decided": dval, "switch": copy.deepcopy(cp["term"])}
            owner = ci
        last = blocks[owner]
        span = last.get("tspan") or b["span"]
        for l, l2 in sorted(ren.items()):
            last["stmts"].append({"k": "Assign", "place": {"local": l, "proj": []}, "pty": b["locals"][l]["ty"],
                                  "rv": {"k": "Use", "op": {"k": "Move", "place": {"local": l2, "proj": []}}}, "span": span, "copy_back": True})

    @staticmethod
    def prune_unreachable(b):
        seen, st = set(), [0]
        while st:
            x = st.pop()
            if x in seen:
                continue
            seen.add(x)
            t = b["blocks"][x]["term"]
            k = t["k"]
            if k == "SwitchInt":
                st.extend(bb for _, bb in t["arms"])
                st.append(t["otherwise"])
            elif t.get("target") is not None and k in ("Goto", "Call", "Drop", "Assert", "TailCall"):
                st.append(t["target"])
        for i, blk in enumerate(b["blocks"]):
            if i not in seen and not blk.get("cleanup"):
                blk["stmts"] = []
                blk["term"] = {"k": "Unreachable"}
                blk["pruned"] = True

    def apply(self, helpers):
        helpers = set(helpers)
        sites = 0
        for k in [b["key"] for b in self.j["bodies"] if b["kind"] == "fn"]:
            if k in self.bodies and k not in helpers:
                sites += self.inline_into(k, helpers)
        # closures that live in a constant or static item (the operator tables' `|items| adapter(js_op::f, items)`) call
        # helpers too; the item's own initialiser is left alone
        for k in [b["key"] for b in self.j["bodies"] if b["kind"] not in ("fn", "closure", "promoted")]:
            pre = k + "::{closure#"
            for ck in sorted(c for c, cb in self.bodies.items() if cb["kind"] == "closure" and c.startswith(pre) and "::{closure#" not in c[len(pre):]):
                sites += self.inline_into(ck, helpers)
        # helpers inside helpers were handled recursively; now drop helpers that nothing refers to any more
        still = set()

        def note(f, how):
            if f.get("key"):
                still.add(f["key"])
            r = f.get("resolved")
            if isinstance(r, dict) and r.get("key"):
                still.add(r["key"])
        for b in self.j["bodies"]:
            if b["key"] in helpers:
                continue
            self._walk_consts(b, note)
            for blk in b["blocks"]:
                c = self._local_callee(blk["term"])
                if c:
                    still.add(c)
        dead = {h for h in helpers if h not in still}
        if dead:
            def owned(b):
                return any(b["key"] == d or b["key"].startswith(d + "::{closure#") for d in dead)
            self.j["bodies"] = [b for b in self.j["bodies"] if not (owned(b) and b["kind"] in ("fn", "closure"))]
            self.j["items"] = [it for it in self.j["items"] if it["key"] not in dead]
            self.bodies = {b["key"]: b for b in self.j["bodies"]}
        return sites, dead


def load_view(path, helpers):
    """Facts of the fact file `path` with `helpers` inlined."""
    with open(path) as fh:
        j = json.load(fh)
    inl = Inliner(j)
    sites, dead = inl.apply(helpers)
    f = Facts(path, j=j)
    f.inlined = {"helpers": sorted(helpers), "sites": sites, "removed": sorted(dead)}
    return f


def candidates(path):
    with open(path) as fh:
        j = json.load(fh)
    return Inliner(j).candidates()
