#!/usr/bin/env python3
"""The comma-join of an array's string forms written as a loop, read off the MIR.

Accepted shape: one loop over `iter()` (optionally `.enumerate()`) of the array
payload that appends to one String.  Every acyclic path through one iteration is
enumerated with its decisions (index compared with 0; element is Null or not)
and effects (separator pushed, element's own string form pushed, anything else):

    index 0                 : no separator
    index > 0               : exactly one separator "," pushed first
    element is null         : nothing else pushed
    element is anything else: push_str(string form of *that element*), once

A separator test that is not a comparison of the enumerate index with 0 (a
`first` flag, `out.is_empty()`) is reported as unreadable, not as a violation —
except `is_empty()` of the output, which is wrong for a leading null element.
Nothing is executed."""
import re
from .core import callee_of, callee_path, strip_refs, show_expr, const_value, switch_edges_for_variant
from .engine import Inconclusive
from . import panic as PN
from .splitter import Transducer

VALUE = "serde_json::Value"


class JoinLoop(Transducer):
    """Reuses the raw def-use helpers of the splitter reader."""

    def __init__(self, body, within, ts_key):
        self.b = body
        self.within = within
        self.ts_key = ts_key
        self.recognised = False
        self.problems = []
        self.paths = []
        self.flag = None
        self.elems = set()
        self._read_join()

    def _read_join(self):
        b = self.b
        loops = [(h, bl, s) for (h, bl, s) in PN.loops_of(b) if h in self.within]
        if len(loops) != 1:
            return
        header, blocks, srcs = loops[0]
        self.header, self.blocks = header, blocks
        nxt = [bi for bi in sorted(blocks) if b.blocks[bi]["term"]["k"] == "Call" and (callee_path(b.blocks[bi]["term"]) or "").endswith("::next")]
        if len(nxt) != 1:
            return
        self.next_bi = nxt[0]
        nt = b.blocks[self.next_bi]["term"]
        self.next_path = callee_path(nt)
        self.iter_expr = strip_refs(b.trace(nt["args"][0]))
        opt_local = nt["dest"]["local"]
        some_t = None
        for sb in sorted(blocks):
            tt = b.blocks[sb]["term"]
            if tt["k"] != "SwitchInt":
                continue
            e = b.trace(tt["discr"])
            if e[0] == "discr" and strip_refs(e[1])[0] == "call" and strip_refs(e[1])[3] == self.next_bi:
                r = switch_edges_for_variant(b, sb, "Some")
                if r:
                    some_t = r[0]
        if some_t is None:
            return
        # element (a &Value) and index (usize) locals out of the Some payload
        self.idx = set()
        for bi in blocks:
            for s in b.blocks[bi]["stmts"]:
                if s["k"] == "Assign" and s["rv"]["k"] == "Use" and s["rv"]["op"]["k"] in ("Copy", "Move"):
                    pl = s["rv"]["op"]["place"]
                    if pl["local"] == opt_local and any(p["k"] == "Downcast" and p.get("variant") == "Some" for p in pl["proj"]):
                        ty = b.locals[s["place"]["local"]]["ty"]
                        if ty == "usize":
                            self.idx.add(s["place"]["local"])
                        elif ty.endswith("serde_json::Value"):
                            self.elems.add(s["place"]["local"])
        if not self.elems:
            return
        self.recognised = True
        self._enum_join(some_t)

    def _elem_of(self, op):
        """Does operand `op` denote the loop element (the &Value itself, a reborrow of it)?"""
        b = self.b
        if op["k"] not in ("Copy", "Move"):
            return False
        l = op["place"]["local"]
        if not op["place"]["proj"] and self.root(l) in self.elems:
            return True
        ds = b.defs().get(l, [])
        if len(ds) == 1 and ds[0][0] == "stmt" and ds[0][3]["k"] == "Ref":
            pl = ds[0][3]["place"]
            if self.root(pl["local"]) in self.elems and all(p["k"] == "Deref" for p in pl["proj"]):
                return True
        return False

    def _decision_join(self, n, tt, lab):
        b = self.b
        d = tt["discr"]
        if d["k"] not in ("Copy", "Move"):
            return ("opaque", "const")
        l = self.root(d["place"]["local"])
        ds = b.defs().get(l, [])
        if len(ds) == 1 and ds[0][0] == "stmt":
            rv = ds[0][3]
            if rv["k"] == "Discriminant" and self.root(rv["place"]["local"]) in self.elems and rv.get("adt") == VALUE:
                # which variants does this edge stand for?
                vs = self.b.facts.variants(VALUE)
                if lab == "otherwise":
                    taken = {str(i) for i, _ in enumerate(vs)} - {v for v, _ in tt["arms"]}
                else:
                    taken = {lab}
                names = {vs[int(i)] for i in taken if int(i) < len(vs)}
                return ("kind", frozenset(names))
            if rv["k"] == "BinaryOp" and rv["op"] in ("Gt", "Ne", "Eq", "Ge", "Lt", "Le"):
                ops = [rv["a"], rv["b"]]
                ix = [o for o in ops if o["k"] in ("Copy", "Move") and not o["place"]["proj"] and self.root(o["place"]["local"]) in self.idx]
                cs = [o for o in ops if o["k"] == "Const"]
                if len(ix) == 1 and len(cs) == 1:
                    c = int(cs[0]["const"].get("int", "-1"))
                    truth = lab != "0"
                    first_is_left = ops[0] is ix[0]
                    op = rv["op"] if first_is_left else {"Gt": "Lt", "Lt": "Gt", "Ge": "Le", "Le": "Ge", "Eq": "Eq", "Ne": "Ne"}[rv["op"]]
                    # meaning of (op, c) being true, as "index is zero?"
                    zero_when_true = {("Eq", 0): True, ("Ne", 0): False, ("Gt", 0): False, ("Ge", 1): False, ("Lt", 1): True, ("Le", 0): True}.get((op, c))
                    if zero_when_true is None:
                        # a linear comparison of the index with another constant cannot separate exactly "index 0" from the rest
                        return ("bad-index-test", "index %s %d" % ({"Gt": ">", "Ge": ">=", "Lt": "<", "Le": "<=", "Eq": "==", "Ne": "!="}[op], c))
                    return ("first", zero_when_true if truth else not zero_when_true)
        e = strip_refs(b.trace(d))
        neg = False
        e2 = e
        while e2[0] == "unop" and e2[1] == "Not":
            neg, e2 = not neg, strip_refs(e2[2])
        if e2[0] == "call" and e2[1] and e2[1]["path"] == "serde_json::Value::is_null":
            # `item.is_null()` on the loop element: the kind test spelled as a method
            tdef = b.blocks[e2[3]]["term"] if isinstance(e2[3], int) and e2[3] >= 0 else None
            if tdef is not None and tdef["args"] and self._elem_of(tdef["args"][0]):
                truth = (lab != "0") != neg
                vs = set(self.b.facts.variants(VALUE))
                return ("kind", frozenset({"Null"}) if truth else frozenset(vs - {"Null"}))
        if e[0] == "call" and e[1] and e[1]["path"].endswith("String::is_empty"):
            return ("out-empty", lab != "0")
        if e[0] == "unop" and strip_refs(e[2])[0] == "call" and strip_refs(e[2])[1]["path"].endswith("String::is_empty"):
            return ("out-empty", lab == "0")
        return ("opaque", show_expr(e)[:60])

    def _enum_join(self, start):
        b = self.b
        out = []

        def walk(n, decisions, effects, results, seen):
            if len(out) > 2000:
                raise Inconclusive("array string form: too many paths through one iteration")
            if n == self.header:
                out.append((list(decisions), list(effects)))
                return
            if n in seen or n not in self.blocks:
                out.append((list(decisions), list(effects) + [("leaves", n)]))
                return
            seen = seen | {n}
            t = b.blocks[n]["term"]
            if t["k"] == "Call":
                p = callee_path(t) or "?"
                c = callee_of(t)
                results = dict(results)
                effects = list(effects)
                if c and c.get("key") == self.ts_key:
                    results[t["dest"]["local"]] = ("form-of-elem" if self._elem_of(t["args"][0]) else "form-of-other")
                elif re.search(r"Deref>::deref$|::as_str$|as std::convert::AsRef<.*>>::as_ref$|as std::borrow::Borrow", p):
                    src = self.ref_target(t["args"][0])
                    if src in results:
                        results[t["dest"]["local"]] = results[src]
                elif p == "std::string::String::push":
                    x = t["args"][1]
                    effects.append(("sep", x["const"].get("char")) if x["k"] == "Const" else ("push-other", "char"))
                elif p == "std::string::String::push_str":
                    x = t["args"][1]
                    if x["k"] == "Const":
                        effects.append(("sep", const_value(x["const"])))
                    else:
                        e = strip_refs(b.trace(x))
                        if e[0] == "const" and isinstance(const_value(e[1]), str):
                            effects.append(("sep", const_value(e[1])))
                        else:
                            src = self.ref_target(x)
                            tag = results.get(src) or results.get(x["place"]["local"])
                            effects.append(("elem", tag or "unknown"))
                elif re.search(r"as std::ops::Drop>::drop$|::next$|^serde_json::Value::is_(null|string|number|boolean|array|object)$", p):
                    pass       # pure reads of the element's kind: decisions, not effects
                else:
                    effects.append(("call", p))
                if t["target"] is not None:
                    walk(t["target"], decisions, effects, results, seen)
                return
            if t["k"] == "SwitchInt":
                for lab, tg in b.edges(n):
                    if b.blocks[tg]["term"]["k"] == "Unreachable":
                        continue
                    walk(tg, decisions + [self._decision_join(n, t, lab)], effects, results, seen)
                return
            for lab, tg in b.edges(n):
                walk(tg, decisions, effects, results, seen)

        walk(start, [], [], {}, frozenset())
        self.paths = out


def judge(ctx, jl, K, cfg, where, fn):
    """Record the verdicts for a recognised join loop; returns False when the separator test is unreadable."""
    kinds_all = set(jl.b.facts.variants(VALUE))
    seen_classes = set()
    ok_all = True
    for decisions, effects in jl.paths:
        first = None
        kinds = set(kinds_all)
        opaque = []
        infeasible = False
        for d in decisions:
            if d[0] == "first":
                if first is not None and first != d[1]:
                    infeasible = True
                first = d[1]
            elif d[0] == "kind":
                kinds &= set(d[1])
            elif d[0] == "bad-index-test":
                ctx.fail(K + ".array-join", "string form of Array|separator test (%s)" % cfg, "the separator is decided by `%s`, which does not separate exactly the first element from the later ones" % d[1], where=where, fn=fn)
                return True
            elif d[0] == "out-empty":
                ctx.fail(K + ".array-join", "string form of Array|separator-by-emptiness (%s)" % cfg, "the separator is pushed when the output is non-empty: a leading null (or empty-string) element loses its comma", where=where, fn=fn)
                return True
            else:
                opaque.append(d[1])
        if infeasible or not kinds:
            continue
        if first is None or opaque:
            ctx.unread(K + ".array-join", "string form of Array (%s)" % cfg, "array string form written as a loop whose separator test is not a comparison of the element index with 0 (%s)" % (opaque or "no index test"), where=where, fn=fn)
            return True
        is_null = kinds == {"Null"}
        mixed = "Null" in kinds and len(kinds) > 1
        seps = [e for e in effects if e[0] == "sep"]
        elems = [e for e in effects if e[0] == "elem"]
        others = [e for e in effects if e[0] in ("call", "push-other", "leaves")]
        want_sep = 0 if first else 1
        good = len(seps) == want_sep and all(s_[1] == "," for s_ in seps) and not others
        if is_null:
            good = good and not elems
        elif mixed:
            good = False
        else:
            good = good and len(elems) == 1 and elems[0][1] == "form-of-elem"
            if seps and elems:
                good = good and effects.index(seps[0]) < effects.index(elems[0])
        label = "%s element, %s" % ("null" if is_null else ("/".join(sorted(kinds)) if len(kinds) < 5 else "non-null"), "first" if first else "later")
        seen_classes.add((is_null, first))
        if not good:
            ok_all = False
            ctx.fail(K + ".array-join", "string form of Array|%s (%s)" % (label, cfg),
                     "array string form, %s: pushes separators %s and element forms %s%s; expected %s separator and %s" % (label, [s_[1] for s_ in seps], [e[1] for e in elems], (" and also %s" % others) if others else "",
                                                                                                              "no" if first else "one \",\"", "nothing else" if is_null else "the element's own string form once"), where=where, fn=fn)
    for cls in ((True, True), (True, False), (False, True), (False, False)):
        if cls not in seen_classes:
            ok_all = False
            ctx.fail(K + ".array-join", "string form of Array|missing case %s (%s)" % (cls, cfg), "the loop has no path for (null element=%s, first=%s)" % cls, where=where, fn=fn)
    if ok_all:
        ctx.ok(K + ".array-join", "string form of Array (%s)" % cfg, nontrivial=True, sample={"form": "loop", "paths": len(jl.paths)})
        ctx.ok(K + ".array-element", "loop form: null elements contribute nothing, others their own string form (%s)" % cfg, nontrivial=True)
    return True


# ======================================================================================================================
# Emission table of the array string form — shape-independent reading (abstract unrolling over path summaries)
# ======================================================================================================================
"""What K4 (array) needs, stated without naming a statement shape: *the sequence of appends to the result buffer as a
function of the element sequence*.  It is read as a table

      (position of the element: first | later) × (kind of the element: Null | anything else)  →  what is appended

plus what is appended outside any element (must be nothing).  The table is obtained from the path summaries
(rules/pathsum.py) of the array arm by abstract unrolling: every call of `next()` on the one forward iterator over the
array payload starts an element; whether that element is the first one is known from the iterator's abstract state on
the path (fresh → first, advanced → later), not from how the code tests it — a peeled first iteration, an
`enumerate()` index compared with a constant (evaluated for index 0 / index ≥ 1), a constant-valued local flag are
the same thing here; loops are continued from their header with the environment of the back edge until the abstract
state (iterator state, constant-valued locals) repeats; private helpers that receive the buffer or the element are
read in place with their parameters bound to the caller's expressions.  Nothing is executed."""
from . import pathsum as _PS
from .core import expr_mentions as _mentions

_ADAPTORS = re.compile(r"(Iterator::|Iterator>::)(rev|skip|take|filter|filter_map|step_by|chain|zip|peekable|skip_while|take_while|flat_map|flatten|map|cycle|scan|fuse)$")
_IDENT_ITER = "<I as std::iter::IntoIterator>::into_iter"
_TRANSPARENT_STR = re.compile(r"Deref>::deref$|::as_str$|as std::convert::AsRef<.*>>::as_ref$|as std::borrow::Borrow<.*>>::borrow$|::as_mut_str$|DerefMut>::deref_mut$")
_BUF_NEW = re.compile(r"^std::string::String::(new|with_capacity)$")
_IGNORED = re.compile(r"as std::ops::Drop>::drop$|^serde_json::Value::is_(null|string|number|boolean|array|object)$|::iter$|IntoIterator>::into_iter$|Iterator::enumerate$|Deref>::deref$|::len$|::is_empty$|::size_hint$|String::(capacity|len|reserve|is_empty)$")


class Unreadable(Exception):
    pass


def _peel(e):
    """Strip reference plumbing and payload projections; returns (root expr, [variant names projected through])."""
    vs = []
    while True:
        e = strip_refs(e)
        if e[0] == "field":
            e = e[1]
        elif e[0] == "downcast":
            vs.append(e[2])
            e = e[1]
        elif e[0] == "call" and e[1] and _TRANSPARENT_STR.search(e[1]["path"]) and e[2]:
            e = e[2][0]
        else:
            return e, vs


class EmissionTable:
    """rows: [(position, kinds frozenset, effects, opaque atoms)], frame: effects outside any element,
    unread: reasons that make the table incomplete."""

    def __init__(self, facts, ts, max_runs=60):
        self.f, self.ts = facts, ts
        self.rows, self.frame, self.unread = [], [], []
        self.buffers, self.results, self.roots, self.call_results = set(), set(), {}, {}
        self.runs = 0
        self.max_runs = max_runs
        known = lambda e, a: "Array" if (a == VALUE and strip_refs(e) == ("arg", 1)) else None
        try:
            st0 = {"status": {}, "cur": None, "seg": None}
            for (st, res) in self._run(ts, 0, {}, st0, known, (ts.key,), top=True):
                self._close(st)
                if res is not None:
                    self.results.add(_PS.canon(strip_refs(res)))
                if any(v == "advanced" for v in st["status"].values()) or (st["status"] and all(v == "fresh" for v in st["status"].values())):
                    self.frame.append(("leaves", "returns before the iterator is exhausted"))
        except Unreadable as e:
            self.unread.append(str(e))
        except RecursionError:
            self.unread.append("too deep")

    # ---- element segments
    def _close(self, st):
        seg = st.get("seg")
        if seg is not None and not seg.get("closed"):
            seg["closed"] = True
            self.rows.append(seg)

    def _effect(self, st, eff, atoms):
        if st["cur"] is None:
            self.frame.append(eff)
        else:
            st["seg"]["effects"].append(eff)
            st["seg"]["atoms"].update(atoms)

    # ---- iterator over the array payload
    def _iter_root(self, e):
        x = strip_refs(e)
        enum = False
        while x[0] == "call" and x[1] and (x[1]["path"] == _IDENT_ITER or x[1]["path"].endswith("Iterator::enumerate")) and x[2]:
            enum = enum or x[1]["path"].endswith("enumerate")
            x = strip_refs(x[2][0])
        if x[0] == "call" and x[1] and _ADAPTORS.search(x[1]["path"]):
            raise Unreadable("the elements come through the iterator adaptor %s" % x[1]["path"].rsplit("::", 1)[1])
        if not (x[0] == "call" and x[1] and re.search(r"::iter$|IntoIterator>::into_iter$", x[1]["path"]) and x[2]):
            return None
        if not _mentions(x[2][0], lambda y: y[0] == "downcast" and y[2] == "Array" and strip_refs(y[1]) == ("arg", 1)):
            return None
        src, _ = _peel(x[2][0])
        if src != ("arg", 1):
            raise Unreadable("iteration over something derived from the array payload: %s" % show_expr(x[2][0])[:80])
        return (_PS.canon(x), enum)

    # ---- one function, from `start`, with loops continued from their headers
    def _run(self, body, start, env, st, known, stack, top=False, seen=None):
        """yields (state, result expr) for every way of reaching Return of `body`."""
        self.runs += 1
        if self.runs > self.max_runs:
            raise Unreadable("too many loop continuations / helper paths")
        seen = seen or set()
        w = _PS.summarize(body, known=known, start=start, env=env, max_paths=400)
        if w.overflow:
            raise Unreadable("too many paths in %s" % body.key)
        for p in w.paths:
            for st2 in self._events(body, p, list(p.events), 0, self._copy(st), stack):
                if not p.truncated:
                    yield st2, p.result
                    continue
                header = p.blocks[-1]
                consts = tuple(sorted((l, _PS.canon(v)) for l, v in p.env.items() if isinstance(v, tuple) and v[0] == "const"))
                key = (body.key, header, tuple(sorted(st2["status"].items())), st2["cur"] and st2["cur"]["pos"], consts)
                if key in seen:
                    self._close(st2)
                    continue
                for out in self._run(body, header, p.env, st2, known, stack, seen=seen | {key}):
                    yield out

    @staticmethod
    def _copy(st):
        seg = st["seg"]
        if seg is not None:
            seg = dict(seg, effects=list(seg["effects"]), atoms=dict(seg["atoms"]))
        return {"status": dict(st["status"]), "cur": st["cur"], "seg": seg}

    def _events(self, body, p, evs, i, st, stack):
        """interpret the events of path p from index i; yields the states at the end of the path (helpers fork)."""
        while i < len(evs):
            ev = evs[i]
            i += 1
            c, args = ev[1], ev[2]
            path = c["path"] if c else None
            if path and path.endswith("::next") and args:
                root = self._iter_root(args[0])
                if root is None:
                    continue
                rk, enum = root
                self.roots[rk] = enum
                if len(self.roots) > 1:
                    raise Unreadable("more than one iterator over the array payload")
                out = p.atoms.get(("variant", _PS.canon(("call", c, args, ev[3]))))
                if out not in ("Some", "None"):
                    if out is None and i == len(evs) and p.truncated:
                        raise Unreadable("loop header not at the iterator's next()")
                    raise Unreadable("the outcome of next() is not tested where it is called")
                status = st["status"].get(rk, "fresh")
                if status == "exhausted":
                    if out == "Some":
                        return          # infeasible: the iterator has already answered None
                    continue
                self._close(st)
                st = self._copy(st)
                if out == "None":
                    st["status"][rk] = "exhausted"
                    st["cur"], st["seg"] = None, None
                else:
                    st["status"][rk] = "advanced"
                    call = ("call", c, args, ev[3])
                    st["cur"] = {"pos": "first" if status == "fresh" else "later", "canon": _PS.canon(call), "enum": enum}
                    st["seg"] = {"pos": st["cur"]["pos"], "canon": st["cur"]["canon"], "enum": enum, "effects": [], "atoms": {}, "where": body.where(ev[3])}
                    st["seg"]["atoms"].update(p.atoms)
                continue
            if path in ("std::string::String::push_str", "std::string::String::push") and len(args) == 2:
                buf, _ = _peel(args[0])
                if buf[0] == "call" and buf[1] and _BUF_NEW.search(buf[1]["path"]):
                    self.buffers.add(_PS.canon(buf))
                    self._effect(st, self._classify(args[1], st), p.atoms)
                else:
                    self._effect(st, ("other", "%s on %s" % (path.rsplit("::", 1)[1], show_expr(buf)[:60])), p.atoms)
                continue
            if c is not None and c.get("key") == self.ts.key:
                continue            # the value is read where it is appended
            touches = [a for a in args if self._touches(a, st)]
            if c is not None and c.get("local") and self.f.body(c["key"]) is not None and touches:
                if c["key"] in stack or len(stack) > 4:
                    self._effect(st, ("other", "recursive call of %s with %s" % (path, ", ".join(show_expr(strip_refs(a))[:50] for a in args))), p.atoms)
                    continue
                callee = self.f.body(c["key"])
                cenv = {j + 1: a for j, a in enumerate(args)}
                for (st3, res_) in self._run(callee, 0, cenv, st, None, stack + (c["key"],)):
                    if res_ is not None:
                        self.call_results.setdefault(_PS.canon(("call", c, args, ev[3])), set()).add(_PS.canon(strip_refs(res_)))
                    for fin in self._events(body, p, evs, i, self._copy(st3), stack):
                        yield fin
                return
            if path is None or not _IGNORED.search(path):
                if c is None or any(self._is_buffer(a) for a in args):
                    self._effect(st, ("other", "call %s" % (path or "<indirect>")), p.atoms)
        if st["seg"] is not None:
            st["seg"]["atoms"].update(p.atoms)
        yield st

    def _is_buffer(self, a):
        b, _ = _peel(a)
        return b[0] == "call" and b[1] is not None and _BUF_NEW.search(b[1]["path"]) is not None

    def _touches(self, a, st):
        if self._is_buffer(a):
            return True
        if st["cur"] is not None and st["cur"]["canon"] in _PS.canon(a):
            return True
        return _mentions(a, lambda y: y[0] == "downcast" and y[2] == "Array" and strip_refs(y[1]) == ("arg", 1))

    def _classify(self, x, st):
        e = strip_refs(x)
        if e[0] == "const":
            v = const_value(e[1])
            if v is None and isinstance(e[1], dict) and "char" in e[1]:
                v = e[1]["char"]
            return ("sep", v)
        root, vs = _peel(e)
        cur = st["cur"]
        if root[0] == "call" and root[1] and root[1].get("key") == self.ts.key and root[2]:
            a, avs = _peel(root[2][0])
            if cur is not None and a[0] == "call" and _PS.canon(a) == cur["canon"] and not [v for v in avs if v != "Some"]:
                return ("elem", "form-of-elem")
            return ("elem", "form of %s" % show_expr(strip_refs(root[2][0]))[:60])
        if cur is not None and root[0] == "call" and _PS.canon(root) == cur["canon"] and [v for v in vs if v != "Some"] == ["String"]:
            return ("elem", "payload-String")
        return ("elem", "other: %s" % show_expr(e)[:60])


def _index_truth(key, val, canon, pos):
    """Is the atom (key=val) about the enumerate index of the element `canon` feasible for an element at `pos`?
    True / False, or None when the atom is not such a test."""
    def is_idx(t):
        return canon in t and not t.startswith("c:")
    if key[0] == "cmp":
        _, o, A, B = key
        cA = int(A[2:]) if re.match(r"^c:-?\d+$", A) else None
        cB = int(B[2:]) if re.match(r"^c:-?\d+$", B) else None
        if cA is not None and is_idx(B):          # o(cA, idx)
            if pos == "first":
                return ({"Eq": cA == 0, "Lt": cA < 0}[o]) == val
            if o == "Lt":
                return (val is True) if cA <= 0 else True
            return (val is False) if cA <= 0 else True
        if cB is not None and is_idx(A):          # o(idx, cB)
            if pos == "first":
                return ({"Eq": cB == 0, "Lt": 0 < cB}[o]) == val
            if o == "Lt":
                return (val is False) if cB <= 1 else True
            return (val is False) if cB <= 0 else True
        return None
    if key[0] == "int" and is_idx(key[1]):
        if isinstance(val, tuple):
            return (0 not in val[1]) if pos == "first" else True
        return (val == 0) if pos == "first" else (val != 0)
    return None


def judge_table(ctx, tab, K, cfg, where, fn):
    """Verdicts for an emission table.  Returns True when a verdict (pass, violation or undecided) was recorded."""
    kinds_all = set(tab.f.variants(VALUE))
    key0 = "string form of Array (%s)" % cfg
    if not tab.rows and tab.unread:
        return False
    viol, und, classes = [], list(tab.unread), set()
    results = set()
    for r_ in tab.results:
        results |= tab.call_results.get(r_, {r_})
    if len(tab.buffers) > 1 or (results and results != tab.buffers):
        und.append("the result is not the one buffer that is appended to (%s / %s)" % (sorted(results)[:2], sorted(tab.buffers)[:2]))
    for eff in tab.frame:
        if eff[0] == "sep":
            viol.append(("outside any element", "a separator %r is appended outside any element (leading/trailing separator)" % (eff[1],)))
        elif eff[0] == "leaves":
            viol.append(("early exit", "the array arm %s: later elements contribute nothing" % eff[1]))
        else:
            und.append("appended outside any element: %s" % (eff[1],))
    for row in tab.rows:
        kinds, opaque, feasible = set(kinds_all), [], True
        for k, val in row["atoms"].items():
            txt = k[1] if k[0] in ("variant", "pure", "int", "expr") else " ".join(map(str, k[1:]))
            if k[0] == "variant" and val in ("Some", "None") :
                continue
            if row["canon"] not in txt:
                if k[0] == "variant" and "::next(" in txt:
                    continue
                opaque.append(txt[:70])
                continue
            if k[0] == "variant" and (val in kinds_all or (isinstance(val, tuple) and val[0] == "not")):
                kinds &= ({val} if val in kinds_all else (kinds_all - set(val[1])))
            elif k[0] == "pure" and re.match(r"^serde_json::(Value|value::\{impl#\d+\})::is_(null|string|number|boolean|array|object)\(", txt) and isinstance(val, bool):
                kd = {"null": "Null", "string": "String", "number": "Number", "boolean": "Bool", "array": "Array", "object": "Object"}[re.match(r"^.*?::is_(\w+)\(", txt).group(1)]
                kinds &= ({kd} if val else kinds_all - {kd})
            else:
                it = _index_truth(k, val, row["canon"], row["pos"]) if row["enum"] else None
                if it is None:
                    opaque.append(txt[:70])
                elif not it:
                    feasible = False
        if not feasible or not kinds:
            continue
        label = "%s element, %s" % ("null" if kinds == {"Null"} else ("/".join(sorted(kinds)) if len(kinds) < 5 else ("non-null" if "Null" not in kinds else "null-or-other")), row["pos"])
        if opaque:
            und.append("%s: decided by %s" % (label, opaque[:2]))
            continue
        effects = row["effects"]
        seps = [e for e in effects if e[0] == "sep"]
        elems = [e for e in effects if e[0] == "elem"]
        others = [e for e in effects if e[0] == "other"]
        if others:
            und.append("%s: %s" % (label, others[0][1]))
            continue
        is_null = kinds == {"Null"}
        want_sep = 0 if row["pos"] == "first" else 1
        good = len(seps) == want_sep and all(s_[1] == "," for s_ in seps)
        if is_null:
            good = good and not elems
        elif "Null" in kinds:
            good = good and not elems and False
        else:
            good = good and len(elems) == 1 and (elems[0][1] == "form-of-elem" or (elems[0][1] == "payload-String" and kinds == {"String"}))
            if seps and elems:
                good = good and effects.index(seps[0]) < effects.index(elems[0])
        classes.add((is_null, row["pos"]))
        if not good:
            viol.append((label, "array string form, %s: appends separators %s and element forms %s; expected %s separator and %s" % (
                label, [s_[1] for s_ in seps], [e[1] for e in elems], "no" if want_sep == 0 else "one \",\"", "nothing else" if is_null else "the element's own string form once")))
    for cls in ((True, "first"), (True, "later"), (False, "first"), (False, "later")):
        if cls not in classes and not viol and not und:
            und.append("no readable case for (null element=%s, %s)" % cls)
    seen = set()
    for label, msg in viol:
        if label not in seen:
            seen.add(label)
            ctx.fail(K + ".array-join", "string form of Array|%s (%s)" % (label, cfg), msg, where=where, fn=fn)
    if viol:
        return True
    if und:
        ctx.unread(K + ".array-join", key0, "array string form not fully readable as an emission table: %s" % "; ".join(und[:3]), where=where, fn=fn)
        return True
    ctx.ok(K + ".array-join", key0, nontrivial=True, sample={"form": "emission table", "rows": len(tab.rows)})
    ctx.ok(K + ".array-element", "emission table: null elements contribute nothing, others their own string form (%s)" % cfg, nontrivial=True)
    return True


def shared_state_across_nesting(facts, ts):
    """Positive evidence that an array element's contribution is not a function of that element alone: a helper in
    the array arm's reach (not through the string-form function) calls itself with the payload of an Array element
    *and* forwards one of its own `&mut` parameters that is not the output text (a position flag, a counter, the list
    of slots) — the nested array's elements are enumerated into the enclosing array's separator state / slot list,
    so the nested array does not contribute its own string form (an empty nested array loses its slot).
    Returns the description or None."""
    seen, todo = set(), [c["key"] for _, t in ts.calls() for c in [callee_of(t)] if c and c.get("local") and c.get("key") != ts.key]
    while todo:
        k = todo.pop()
        if k in seen or k == ts.key:
            continue
        seen.add(k)
        b = facts.body(k)
        if b is None:
            continue
        for bi, t in b.calls():
            c = callee_of(t)
            if not c or not c.get("local"):
                continue
            if c.get("key") != k:
                todo.append(c["key"])
                continue
            payload = [a for a in t["args"] if expr_mentions_array_payload(b, a)]
            fwd = []
            for a in t["args"]:
                e = strip_refs(b.trace(a))
                if e[0] == "arg" and b.local_ty(e[1]).startswith("&mut ") and "String" not in b.local_ty(e[1]):
                    fwd.append(b.local_ty(e[1]))
            if payload and fwd:
                return "%s enumerates the elements of a nested array into the enclosing array's state (recursive call on the element's payload forwarding %s): an array element does not contribute its own string form" % (k.split("::", 1)[1], ", ".join(fwd))
    return None


def descends_into_elements(facts, ts):
    """A second form of the same evidence, without recursion: the array arm (or a helper in its reach, not through the
    string-form function) opens an *element* as an Array — a value it got from `next()` / as the parameter of a
    per-element closure, not its own parameter — and iterates over that payload or puts it on a worklist itself.  The
    elements of the nested array are then enumerated by the enclosing walk (one separator state, one buffer), so the
    nested array does not contribute its own string form: an empty nested array loses its slot."""
    from .core import expr_mentions
    seen, todo = set(), [ts.key]
    while todo:
        k = todo.pop()
        if k in seen:
            continue
        seen.add(k)
        b = facts.body(k)
        if b is None:
            continue
        for bi, t in b.calls():
            c = callee_of(t)
            if c and c.get("local") and c.get("key") != ts.key:
                todo.append(c["key"])
            p = callee_path(t) or ""
            if not re.search(r"::(iter|into_iter|iter_mut|push|push_back|push_front|extend|extend_from_slice|append|insert)$", p):
                continue
            for a in t["args"]:
                e = b.xtrace(a) if hasattr(b, "xtrace") else b.trace(a)

                def opened_element(y):
                    if not (isinstance(y, tuple) and y and y[0] == "downcast" and y[2] == "Array"):
                        return False
                    return expr_mentions(y[1], lambda z: (z[0] == "call" and z[1] and re.search(r"::(next|next_back|pop|pop_front|pop_back)$", z[1].get("path", "")) is not None) or z[0] == "carg")
                if expr_mentions(e, opened_element):
                    return "%s opens an element of the array as an Array and walks its payload itself (%s at %s): the nested array's elements are enumerated by the enclosing walk, so an array element does not contribute its own string form" % (k.split("::", 1)[1], p.rsplit("::", 1)[-1], b.where(bi))
        for ck in [x.key for x in facts.bodies.values() if x.kind == "closure" and x.key.startswith(k + "::{closure#")]:
            todo.append(ck)
    return None


def expr_mentions_array_payload(b, a):
    from .core import expr_mentions
    return expr_mentions(b.trace(a), lambda y: y[0] == "downcast" and y[2] == "Array")
