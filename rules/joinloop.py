#!/usr/bin/env python3
"""The comma-join of an array's string forms written as a loop, read off the MIR.

Accepted shape: one loop over `iter()` (optionally `.enumerate()`) of the array
payload that appends to one String.  Every acyclic path through one iteration is
enumerated with its decisions (index compared with 0; element is Null or not)
and effects (separator pushed, element's own string form pushed, anything else):

    index 0                 : no separator
    index > 0               : exactly one separator "," pushed first
    element is null         : nothing else pushed
    element is anything else: push_str(string form of *that element*), once

A separator test that is not a comparison of the enumerate index with 0 (a
`first` flag, `out.is_empty()`) is reported as unreadable, not as a violation —
except `is_empty()` of the output, which is wrong for a leading null element.
Nothing is executed."""
import re
from .core import callee_of, callee_path, strip_refs, show_expr, const_value, switch_edges_for_variant
from .engine import Inconclusive
from . import panic as PN
from .splitter import Transducer

VALUE = "serde_json::Value"


class JoinLoop(Transducer):
    """Reuses the raw def-use helpers of the splitter reader."""

    def __init__(self, body, within, ts_key):
        self.b = body
        self.within = within
        self.ts_key = ts_key
        self.recognised = False
        self.problems = []
        self.paths = []
        self.flag = None
        self.elems = set()
        self._read_join()

    def _read_join(self):
        b = self.b
        loops = [(h, bl, s) for (h, bl, s) in PN.loops_of(b) if h in self.within]
        if len(loops) != 1:
            return
        header, blocks, srcs = loops[0]
        self.header, self.blocks = header, blocks
        nxt = [bi for bi in sorted(blocks) if b.blocks[bi]["term"]["k"] == "Call" and (callee_path(b.blocks[bi]["term"]) or "").endswith("::next")]
        if len(nxt) != 1:
            return
        self.next_bi = nxt[0]
        nt = b.blocks[self.next_bi]["term"]
        self.next_path = callee_path(nt)
        self.iter_expr = strip_refs(b.trace(nt["args"][0]))
        opt_local = nt["dest"]["local"]
        some_t = None
        for sb in sorted(blocks):
            tt = b.blocks[sb]["term"]
            if tt["k"] != "SwitchInt":
                continue
            e = b.trace(tt["discr"])
            if e[0] == "discr" and strip_refs(e[1])[0] == "call" and strip_refs(e[1])[3] == self.next_bi:
                r = switch_edges_for_variant(b, sb, "Some")
                if r:
                    some_t = r[0]
        if some_t is None:
            return
        # element (a &Value) and index (usize) locals out of the Some payload
        self.idx = set()
        for bi in blocks:
            for s in b.blocks[bi]["stmts"]:
                if s["k"] == "Assign" and s["rv"]["k"] == "Use" and s["rv"]["op"]["k"] in ("Copy", "Move"):
                    pl = s["rv"]["op"]["place"]
                    if pl["local"] == opt_local and any(p["k"] == "Downcast" and p.get("variant") == "Some" for p in pl["proj"]):
                        ty = b.locals[s["place"]["local"]]["ty"]
                        if ty == "usize":
                            self.idx.add(s["place"]["local"])
                        elif ty.endswith("serde_json::Value"):
                            self.elems.add(s["place"]["local"])
        if not self.elems:
            return
        self.recognised = True
        self._enum_join(some_t)

    def _elem_of(self, op):
        """Does operand `op` denote the loop element (the &Value itself, a reborrow of it)?"""
        b = self.b
        if op["k"] not in ("Copy", "Move"):
            return False
        l = op["place"]["local"]
        if not op["place"]["proj"] and self.root(l) in self.elems:
            return True
        ds = b.defs().get(l, [])
        if len(ds) == 1 and ds[0][0] == "stmt" and ds[0][3]["k"] == "Ref":
            pl = ds[0][3]["place"]
            if self.root(pl["local"]) in self.elems and all(p["k"] == "Deref" for p in pl["proj"]):
                return True
        return False

    def _decision_join(self, n, tt, lab):
        b = self.b
        d = tt["discr"]
        if d["k"] not in ("Copy", "Move"):
            return ("opaque", "const")
        l = self.root(d["place"]["local"])
        ds = b.defs().get(l, [])
        if len(ds) == 1 and ds[0][0] == "stmt":
            rv = ds[0][3]
            if rv["k"] == "Discriminant" and self.root(rv["place"]["local"]) in self.elems and rv.get("adt") == VALUE:
                # which variants does this edge stand for?
                vs = self.b.facts.variants(VALUE)
                if lab == "otherwise":
                    taken = {str(i) for i, _ in enumerate(vs)} - {v for v, _ in tt["arms"]}
                else:
                    taken = {lab}
                names = {vs[int(i)] for i in taken if int(i) < len(vs)}
                return ("kind", frozenset(names))
            if rv["k"] == "BinaryOp" and rv["op"] in ("Gt", "Ne", "Eq", "Ge", "Lt", "Le"):
                ops = [rv["a"], rv["b"]]
                ix = [o for o in ops if o["k"] in ("Copy", "Move") and not o["place"]["proj"] and self.root(o["place"]["local"]) in self.idx]
                cs = [o for o in ops if o["k"] == "Const"]
                if len(ix) == 1 and len(cs) == 1:
                    c = int(cs[0]["const"].get("int", "-1"))
                    truth = lab != "0"
                    first_is_left = ops[0] is ix[0]
                    op = rv["op"] if first_is_left else {"Gt": "Lt", "Lt": "Gt", "Ge": "Le", "Le": "Ge", "Eq": "Eq", "Ne": "Ne"}[rv["op"]]
                    # meaning of (op, c) being true, as "index is zero?"
                    zero_when_true = {("Eq", 0): True, ("Ne", 0): False, ("Gt", 0): False, ("Ge", 1): False, ("Lt", 1): True, ("Le", 0): True}.get((op, c))
                    if zero_when_true is None:
                        # a linear comparison of the index with another constant cannot separate exactly "index 0" from the rest
                        return ("bad-index-test", "index %s %d" % ({"Gt": ">", "Ge": ">=", "Lt": "<", "Le": "<=", "Eq": "==", "Ne": "!="}[op], c))
                    return ("first", zero_when_true if truth else not zero_when_true)
        e = strip_refs(b.trace(d))
        neg = False
        e2 = e
        while e2[0] == "unop" and e2[1] == "Not":
            neg, e2 = not neg, strip_refs(e2[2])
        if e2[0] == "call" and e2[1] and e2[1]["path"] == "serde_json::Value::is_null":
            # `item.is_null()` on the loop element: the kind test spelled as a method
            tdef = b.blocks[e2[3]]["term"] if isinstance(e2[3], int) and e2[3] >= 0 else None
            if tdef is not None and tdef["args"] and self._elem_of(tdef["args"][0]):
                truth = (lab != "0") != neg
                vs = set(self.b.facts.variants(VALUE))
                return ("kind", frozenset({"Null"}) if truth else frozenset(vs - {"Null"}))
        if e[0] == "call" and e[1] and e[1]["path"].endswith("String::is_empty"):
            return ("out-empty", lab != "0")
        if e[0] == "unop" and strip_refs(e[2])[0] == "call" and strip_refs(e[2])[1]["path"].endswith("String::is_empty"):
            return ("out-empty", lab == "0")
        return ("opaque", show_expr(e)[:60])

    def _enum_join(self, start):
        b = self.b
        out = []

        def walk(n, decisions, effects, results, seen):
            if len(out) > 2000:
                raise Inconclusive("array string form: too many paths through one iteration")
            if n == self.header:
                out.append((list(decisions), list(effects)))
                return
            if n in seen or n not in self.blocks:
                out.append((list(decisions), list(effects) + [("leaves", n)]))
                return
            seen = seen | {n}
            t = b.blocks[n]["term"]
            if t["k"] == "Call":
                p = callee_path(t) or "?"
                c = callee_of(t)
                results = dict(results)
                effects = list(effects)
                if c and c.get("key") == self.ts_key:
                    results[t["dest"]["local"]] = ("form-of-elem" if self._elem_of(t["args"][0]) else "form-of-other")
                elif re.search(r"Deref>::deref$|::as_str$|as std::convert::AsRef<.*>>::as_ref$|as std::borrow::Borrow", p):
                    src = self.ref_target(t["args"][0])
                    if src in results:
                        results[t["dest"]["local"]] = results[src]
                elif p == "std::string::String::push":
                    x = t["args"][1]
                    effects.append(("sep", x["const"].get("char")) if x["k"] == "Const" else ("push-other", "char"))
                elif p == "std::string::String::push_str":
                    x = t["args"][1]
                    if x["k"] == "Const":
                        effects.append(("sep", const_value(x["const"])))
                    else:
                        e = strip_refs(b.trace(x))
                        if e[0] == "const" and isinstance(const_value(e[1]), str):
                            effects.append(("sep", const_value(e[1])))
                        else:
                            src = self.ref_target(x)
                            tag = results.get(src) or results.get(x["place"]["local"])
                            effects.append(("elem", tag or "unknown"))
                elif re.search(r"as std::ops::Drop>::drop$|::next$|^serde_json::Value::is_(null|string|number|boolean|array|object)$", p):
                    pass       # pure reads of the element's kind: decisions, not effects
                else:
                    effects.append(("call", p))
                if t["target"] is not None:
                    walk(t["target"], decisions, effects, results, seen)
                return
            if t["k"] == "SwitchInt":
                for lab, tg in b.edges(n):
                    if b.blocks[tg]["term"]["k"] == "Unreachable":
                        continue
                    walk(tg, decisions + [self._decision_join(n, t, lab)], effects, results, seen)
                return
            for lab, tg in b.edges(n):
                walk(tg, decisions, effects, results, seen)

        walk(start, [], [], {}, frozenset())
        self.paths = out


def judge(ctx, jl, K, cfg, where, fn):
    """Record the verdicts for a recognised join loop; returns False when the separator test is unreadable."""
    kinds_all = set(jl.b.facts.variants(VALUE))
    seen_classes = set()
    ok_all = True
    for decisions, effects in jl.paths:
        first = None
        kinds = set(kinds_all)
        opaque = []
        infeasible = False
        for d in decisions:
            if d[0] == "first":
                if first is not None and first != d[1]:
                    infeasible = True
                first = d[1]
            elif d[0] == "kind":
                kinds &= set(d[1])
            elif d[0] == "bad-index-test":
                ctx.fail(K + ".array-join", "string form of Array|separator test (%s)" % cfg, "the separator is decided by `%s`, which does not separate exactly the first element from the later ones" % d[1], where=where, fn=fn)
                return True
            elif d[0] == "out-empty":
                ctx.fail(K + ".array-join", "string form of Array|separator-by-emptiness (%s)" % cfg, "the separator is pushed when the output is non-empty: a leading null (or empty-string) element loses its comma", where=where, fn=fn)
                return True
            else:
                opaque.append(d[1])
        if infeasible or not kinds:
            continue
        if first is None or opaque:
            ctx.unread(K + ".array-join", "string form of Array (%s)" % cfg, "array string form written as a loop whose separator test is not a comparison of the element index with 0 (%s)" % (opaque or "no index test"), where=where, fn=fn)
            return True
        is_null = kinds == {"Null"}
        mixed = "Null" in kinds and len(kinds) > 1
        seps = [e for e in effects if e[0] == "sep"]
        elems = [e for e in effects if e[0] == "elem"]
        others = [e for e in effects if e[0] in ("call", "push-other", "leaves")]
        want_sep = 0 if first else 1
        good = len(seps) == want_sep and all(s_[1] == "," for s_ in seps) and not others
        if is_null:
            good = good and not elems
        elif mixed:
            good = False
        else:
            good = good and len(elems) == 1 and elems[0][1] == "form-of-elem"
            if seps and elems:
                good = good and effects.index(seps[0]) < effects.index(elems[0])
        label = "%s element, %s" % ("null" if is_null else ("/".join(sorted(kinds)) if len(kinds) < 5 else "non-null"), "first" if first else "later")
        seen_classes.add((is_null, first))
        if not good:
            ok_all = False
            ctx.fail(K + ".array-join", "string form of Array|%s (%s)" % (label, cfg),
                     "array string form, %s: pushes separators %s and element forms %s%s; expected %s separator and %s" % (label, [s_[1] for s_ in seps], [e[1] for e in elems], (" and also %s" % others) if others else "",
                                                                                                              "no" if first else "one \",\"", "nothing else" if is_null else "the element's own string form once"), where=where, fn=fn)
    for cls in ((True, True), (True, False), (False, True), (False, False)):
        if cls not in seen_classes:
            ok_all = False
            ctx.fail(K + ".array-join", "string form of Array|missing case %s (%s)" % (cls, cfg), "the loop has no path for (null element=%s, first=%s)" % cls, where=where, fn=fn)
    if ok_all:
        ctx.ok(K + ".array-join", "string form of Array (%s)" % cfg, nontrivial=True, sample={"form": "loop", "paths": len(jl.paths)})
        ctx.ok(K + ".array-element", "loop form: null elements contribute nothing, others their own string form (%s)" % cfg, nontrivial=True)
    return True
