#!/usr/bin/env python3
"""Resolved dependency features per build configuration, from cargo's own resolver
(`cargo tree`, offline; resolves the manifest and lock file — nothing is compiled or run).

A front end (command-line binary, Python module, WASM module) is a wrapper of *the*
library only if enabling its cargo feature does not change how the packages the
library itself is built from are configured: cargo unifies features per package, so
a front-end feature that switches on e.g. `serde_json/arbitrary_precision` silently
rebuilds the library against a different serde_json."""
import os, re, subprocess
from . import extract as ex
from .engine import Inconclusive


def resolved(features=None, repo=None):
    repo = repo or ex.REPO
    cmd = ["cargo", "tree", "--offline", "-e", "normal", "-f", "{p}|{f}", "--prefix", "none", "--manifest-path", os.path.join(repo, "Cargo.toml")]
    if features:
        cmd += ["--features", features]
    env = dict(os.environ, CARGO_NET_OFFLINE="true")
    r = subprocess.run(cmd, capture_output=True, text=True, env=env)
    if r.returncode != 0:
        raise Inconclusive("cargo tree failed for features=%s: %s" % (features, r.stderr.strip()[-300:]))
    out = {}
    for line in r.stdout.splitlines():
        line = line.replace(" (*)", "").strip()
        if "|" not in line:
            continue
        p, f = line.split("|", 1)
        name = re.sub(r" \(.*\)$", "", p).strip()
        out.setdefault(name, set()).update(x for x in f.split(",") if x)
    return out


def library_config_changes(feature, repo=None):
    """[(package, added features, removed features)] for packages of the default (library) build whose
    resolved feature set differs once `feature` is enabled; the root package itself is excluded."""
    base = resolved(None, repo)
    withf = resolved(feature, repo)
    root = [p for p in base if "(" not in p and p.startswith("jsonlogic")]
    out = []
    for p, fs in sorted(base.items()):
        if p.split(" ")[0] in ("jsonlogic-rs",):
            continue
        if p not in withf:
            # version changed
            same_name = [q for q in withf if q.split(" ")[0] == p.split(" ")[0]]
            out.append((p, {"<resolved to %s>" % ", ".join(same_name) if same_name else "<absent>"}, set()))
            continue
        if withf[p] != fs:
            out.append((p, withf[p] - fs, fs - withf[p]))
    return out, len(base)


def same_library_clause(ctx, clause, features=("cmdline", "python"), why="the number model (serde_json::Number::as_f64 total, numbers parsed as i64/u64/f64)"):
    """The front-end features reconfigure no package of the library build — so what the rules establish for the
    default build (in particular %s) holds for the library inside the command and the Python module too."""
    # the library build itself: serde_json with its default number model (i64 / u64 / finite f64, as_f64 total) and
    # without its private number token (`arbitrary_precision` makes numbers keep their spelling, lets literals beyond
    # the f64 range parse with as_f64() == None, and turns {"$serde_json::private::Number": "5"} in a text into 5)
    base = resolved(None)
    sj = [(p_, fs) for p_, fs in base.items() if p_.split(" ")[0] == "serde_json"]
    ctx.check(bool(sj) and not any("arbitrary_precision" in fs for _, fs in sj), clause, "the library is built on serde_json's standard number model (no arbitrary_precision)",
              "the library build enables serde_json/arbitrary_precision: numbers are kept as text (their spelling shows in string forms, literals beyond the f64 range parse and have no f64 value, a private token object is read as a number)",
              where="Cargo.toml", nontrivial=True)
    for feat in features:
        changes, npk = library_config_changes(feat)
        ctx.floor("packages of the library build compared (%s)" % feat, npk, 10)
        ctx.check(not changes, clause, "feature %s leaves every package of the library build configured as in the default build (%d packages)" % (feat, npk),
                  "enabling feature %s reconfigures packages the library itself is built from: %s — %s no longer holds in that build" % (feat, "; ".join("%s +%s -%s" % (p_, sorted(a), sorted(r_)) for p_, a, r_ in changes), why),
                  where="Cargo.toml", nontrivial=True)
