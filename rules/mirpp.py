#!/usr/bin/env python3
"""Pretty-printer for jlfacts bodies (development aid and replay output)."""
import json, sys

def pl(p):
    s = "_%d" % p["local"]
    for e in p["proj"]:
        k = e["k"]
        if k == "Deref": s = "(*%s)" % s
        elif k == "Field": s = "%s.%d" % (s, e["i"])
        elif k == "Downcast": s = "(%s as %s)" % (s, e["variant"])
        elif k == "Index": s = "%s[_%d]" % (s, e["local"])
        elif k == "ConstantIndex": s = "%s[%s%d]" % (s, "-" if e["from_end"] else "", e["offset"])
        else: s = "%s.<%s>" % (s, k)
    return s

def cst(c):
    if "fn" in c:
        f = c["fn"]; r = f.get("resolved")
        return "fn:" + (r["full"] if r else f["full"])
    for k in ("bool", "int", "float", "char"):
        if k in c: return "const %s" % (c[k],)
    if "str" in c: return "const %r" % c["str"]
    if "promoted" in c: return "promoted(%s)" % c["promoted"].split("::")[-1]
    if "item" in c: return "item(%s)" % c["item_path"]
    return "const<%s>" % c["ty"]

def op(o):
    if o["k"] == "Copy": return "copy " + pl(o["place"])
    if o["k"] == "Move": return "move " + pl(o["place"])
    if o["k"] == "Const": return cst(o["const"])
    return o["k"]

def rv(r):
    k = r["k"]
    if k == "Use": return op(r["op"])
    if k == "Ref": return "&%s%s" % ("mut " if r["mut"] else "", pl(r["place"]))
    if k == "RawPtr": return "&raw %s" % pl(r["place"])
    if k == "Cast": return "%s as %s (%s)" % (op(r["op"]), r["to"], r["cast"])
    if k == "BinaryOp": return "%s(%s, %s)" % (r["op"], op(r["a"]), op(r["b"]))
    if k == "UnaryOp": return "%s(%s)" % (r["op"], op(r["a"]))
    if k == "Discriminant": return "discriminant(%s)" % pl(r["place"])
    if k == "CopyForDeref": return "deref_copy " + pl(r["place"])
    if k == "Aggregate":
        a = r["agg"]
        if a == "Adt": h = "%s::%s" % (r["adt"], r["variant"])
        elif a == "Closure": h = "closure(%s)" % r["closure"].split("::", 1)[-1]
        else: h = a
        return "%s{%s}" % (h, ", ".join(op(x) for x in r["ops"]))
    return k

def callee_name(t):
    c = t.get("callee")
    if not c: return "<indirect %s>" % op(t["func"])
    r = c.get("resolved")
    return (r["full"] if r else c["full"] + " [unresolved]")

def term(t):
    k = t["k"]
    if k == "Goto": return "goto bb%d" % t["target"]
    if k == "SwitchInt":
        return "switchInt(%s) -> [%s, otherwise: bb%d]" % (op(t["discr"]), ", ".join("%s: bb%d" % (v, b) for v, b in t["arms"]), t["otherwise"])
    if k == "Call":
        return "%s = %s(%s) -> %s" % (pl(t["dest"]), callee_name(t), ", ".join(op(a) for a in t["args"]), "bb%s" % t["target"] if t["target"] is not None else "!")
    if k == "Drop": return "drop(%s) -> bb%d" % (pl(t["place"]), t["target"])
    if k == "Assert": return "assert(%s == %s, %s) -> bb%d" % (op(t["cond"]), t["expected"], t["msg"], t["target"])
    return k

def show(b, out=sys.stdout):
    out.write("fn %s  [%s]  %s:%d\n" % (b["key"], b["kind"], b["span"]["file"], b["span"]["line"]))
    for i, l in enumerate(b["locals"]):
        out.write("    let _%d: %s%s\n" % (i, l["ty"], "  // " + l["name"] if l["name"] else ""))
    for i, bb in enumerate(b["blocks"]):
        if bb["cleanup"]: continue
        out.write("  bb%d:\n" % i)
        for s in bb["stmts"]:
            if s["k"] == "Assign":
                out.write("    %s = %s   // L%d\n" % (pl(s["place"]), rv(s["rv"]), s["span"]["line"]))
            else:
                out.write("    %s\n" % s["k"])
        out.write("    %s   // L%d\n" % (term(bb["term"]), bb["tspan"]["line"]))

if __name__ == "__main__":
    d = json.load(open(sys.argv[1]))
    for b in d["bodies"]:
        if len(sys.argv) < 3 or any(b["key"].endswith(a) or a in b["key"] for a in sys.argv[2:]):
            show(b)
