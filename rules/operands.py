#!/usr/bin/env python3
"""Which operand of the operand list does a piece of code touch?

A lazy operator (`if`, `and`, `or`, …) receives its operands as rule text and must evaluate each of them at most once
— and a maintainer may walk the list in many ways: one fold over `iter().enumerate()`, a `for` loop, `split_last()`
and a loop over the front, `chunks_exact(2)` plus `remainder()`, a prologue on `args[0]` followed by a loop over the
rest.  The rules therefore do not ask *where* the evaluation is written (inside a closure, inside a loop) but *which
operands it can denote*:

    view        ::= ALL | init(view) | tail(view) | chunks(view, n) | windows(view, n) | rem(view, n) | skip(view, n) | unknown
    descriptor  ::= elem(view, iteration, sub)     the element an iteration over `view` is at (sub: position inside a chunk)
                 |  fixed(view, index)             view[index], index ∈ ℕ ∪ {last}

Two descriptors are *disjoint* when no operand can be denoted by both (init/last, tail/first, chunks/remainder, two
positions of one chunk, two different constant indices); two sites *conflict* when their descriptors are not disjoint
and one run can execute both for the same operand (one is reachable from the other; inside one iteration: without
taking the back edge).  "Every operand is evaluated at most once" = no evaluation site conflicts with another
evaluation site (nor, inside one iteration, with itself through a second path).
"""
import re
from .core import callee_of, callee_path, strip_refs, strip_payload, const_value, show_expr
from . import panic as PN

ELEM_ADAPTOR = re.compile(r"(^std::iter::Iterator::|as std::iter::Iterator>::)(fold|try_fold|for_each|map|filter|any|all|find|position|filter_map|find_map|take_while|skip_while|rfold|try_for_each|scan|inspect|map_while)$")
PASS_ITER = re.compile(r"(^std::iter::Iterator::|as std::iter::Iterator>::|as std::iter::IntoIterator>::|<impl std::iter::IntoIterator for .*>::)(into_iter|iter|by_ref|peekable|fuse|copied|cloned|inspect)$|^core::slice::<impl \[T\]>::iter$|^std::vec::Vec::<T, A>::iter$")


OPT_PAYLOAD_COMBINATOR = re.compile(r"^std::(option::Option|result::Result)::<T(, E)?>::(map|and_then|map_or|map_or_else|is_some_and|is_ok_and|is_none_or|filter|inspect|zip_with)$")


def _first_param(e):
    return e[0] == "carg" and e[2] == 2


def is_args(e, body_root, args_param):
    e = strip_refs(e)
    while e[0] == "call" and e[1] and (e[1]["path"].endswith("Deref>::deref") or e[1]["path"].endswith("::as_slice")):
        e = strip_refs(e[2][0])
    return e == ("arg", args_param) or (e[0] == "carg" and False)


def _norm_payload(e, depth=0):
    """`args.split_last().ok_or_else(..)?` hands on the payload of `split_last()`: the success payload of `x.ok_or(..)`,
    `x.ok_or_else(..)`, `x?`, `x.unwrap()`, `x.expect(..)` is rewritten to the `Some` payload of x, so that the readers below
    meet `(split_last(V) as Some).0` however the absence of a last operand is turned into an error."""
    if not isinstance(e, tuple) or depth > 40:
        return e
    if e[0] == "field" and e[2] == 0 and isinstance(e[1], tuple) and e[1][0] == "downcast" and e[1][2] in ("Some", "Ok", "Continue"):
        src = strip_refs(e[1][1])
        changed = False
        for _ in range(6):
            if src[0] == "call" and src[1] and src[2] and (src[1].get("path", "").endswith("as std::ops::Try>::branch") or re.search(r"^std::option::Option::<T>::(ok_or|ok_or_else)$", src[1].get("path", ""))):
                src, changed = strip_refs(src[2][0]), True
            else:
                break
        if changed:
            return ("field", ("downcast", _norm_payload(src, depth + 1), "Some"), 0)
    if e[0] == "call" and e[1] and e[2] and re.search(r"^std::option::Option::<T>::(unwrap|expect)$", e[1].get("path", "")):
        return ("field", ("downcast", _norm_payload(strip_refs(e[2][0]), depth + 1), "Some"), 0)
    out = []
    for x in e:
        if isinstance(x, tuple):
            out.append(_norm_payload(x, depth + 1))
        elif isinstance(x, list):
            out.append([_norm_payload(y, depth + 1) if isinstance(y, tuple) else y for y in x])
        else:
            out.append(x)
    return tuple(out)


def view_of(e, args_param, depth=0):
    """View term of a slice/iterator-valued expression over the operand list, or ("unknown", text)."""
    if depth == 0:
        e = _norm_payload(e)
    e = strip_refs(e)
    if depth > 12:
        return ("unknown", "deep")
    if e == ("arg", args_param):
        return ("all",)
    if e[0] == "upvar" or e[0] == "carg":
        return ("unknown", str(e[:2]))
    if e[0] == "field" and e[1][0] == "downcast" and e[1][2] in ("Some", "Continue"):
        # payload of split_last / split_first: a tuple (element, rest)
        return ("unknown", "payload")
    if e[0] == "field" and isinstance(e[2], int):
        inner = strip_refs(e[1])
        # (split_last(V) as Some).0 .1  → init(V);  (split_first(V) as Some).0 .1 → tail(V)
        if inner[0] == "field" and inner[2] == 0 and inner[1][0] == "downcast" and inner[1][2] == "Some":
            src = strip_refs(inner[1][1])
            if src[0] == "call" and src[1]:
                p = src[1]["path"]
                if p.endswith("::split_last") and e[2] == 1:
                    return ("init", view_of(src[2][0], args_param, depth + 1))
                if p.endswith("::split_first") and e[2] == 1:
                    return ("tail", view_of(src[2][0], args_param, depth + 1))
        return ("unknown", "field")
    if e[0] == "call" and e[1]:
        p = e[1]["path"]
        if p.endswith("Deref>::deref") or p.endswith("::as_slice") or PASS_ITER.search(p):
            return view_of(e[2][0], args_param, depth + 1)
        if re.search(r"::(enumerate|rev)$", p) and "Iterator" in p:
            v = view_of(e[2][0], args_param, depth + 1)
            return v if p.endswith("enumerate") else ("rev", v)
        m = re.search(r"::(chunks_exact|chunks)$", p)
        if m and len(e[2]) == 2:
            n = strip_refs(e[2][1])
            return ("chunks", view_of(e[2][0], args_param, depth + 1), const_value(n[1]) if n[0] == "const" else None)
        m = re.search(r"::(windows)$", p)
        if m and len(e[2]) == 2:
            n = strip_refs(e[2][1])
            return ("windows", view_of(e[2][0], args_param, depth + 1), const_value(n[1]) if n[0] == "const" else None)
        if p.endswith("ChunksExact::<'a, T>::remainder") or p.endswith("::remainder"):
            v = view_of(e[2][0], args_param, depth + 1)
            if v[0] == "chunks":
                return ("rem", v[1], v[2])
            return ("unknown", "remainder")
        m = re.search(r"Iterator>?::(skip|take)$|^std::iter::Iterator::(skip|take)$", p)
        if m and len(e[2]) == 2:
            n = strip_refs(e[2][1])
            kind = "skip" if p.endswith("skip") else "take"
            return (kind, view_of(e[2][0], args_param, depth + 1), const_value(n[1]) if n[0] == "const" else None)
        if re.search(r"Index<.*Range", p + (e[1].get("full") or "")) and len(e[2]) == 2:
            rg = strip_refs(e[2][1])
            if rg[0] == "agg" and "RangeFrom" in (rg[1].get("adt") or "") and rg[2] and strip_refs(rg[2][0])[0] == "const":
                return ("skip", view_of(e[2][0], args_param, depth + 1), const_value(strip_refs(rg[2][0])[1]))
            return ("unknown", "range")
    return ("unknown", show_expr(e)[:60])


class Descriptor:
    def __init__(self, kind, view, index=None, iteration=None, sub=None, text="", src=None):
        self.kind, self.view, self.index, self.iteration, self.sub, self.text = kind, view, index, iteration, sub, text
        self.src = src      # the expression iterated over / indexed into (for views that could not be read)
        self.iter_obj = None    # (body key, constructing call site) of the iterator object whose next() yields the element

    def __repr__(self):
        if self.kind == "elem":
            return "elem(%s @%s%s)" % (self.view, self.iteration, "" if self.sub is None else "[%s]" % (self.sub,))
        if self.kind == "fixed":
            return "fixed(%s)[%s]" % (self.view, (self.index,))
        return "unknown(%s)" % self.text


def describe(body, e, args_param, depth=0):
    """Descriptor of the operand reference expression e (x-traced in `body`)."""
    if depth == 0:
        e = _norm_payload(e)
    e = strip_refs(e)
    if depth > 10:
        return Descriptor("unknown", None, text="deep")
    # the success payload of a private helper that was handed the operand list and returns one of its operands
    # (`deciding_operand(data, args)?`): described inside the helper, at its return
    hx = e
    for _ in range(4):
        if hx[0] == "field" and hx[2] == 0 and isinstance(hx[1], tuple) and hx[1][0] == "downcast" and hx[1][2] in ("Some", "Ok", "Continue"):
            hx = strip_refs(hx[1][1])
        elif hx[0] == "call" and hx[1] and hx[1].get("path", "").endswith("as std::ops::Try>::branch") and hx[2]:
            hx = strip_refs(hx[2][0])
        else:
            break
    if hx[0] == "call" and hx[1] and hx[1].get("local") and depth < 4:
        cb = body.facts.body(hx[1]["key"])
        cap = [i + 1 for i, a in enumerate(hx[2]) if strip_refs(a) == ("arg", args_param)]
        if cb is not None and cb.kind == "fn" and len(cap) == 1:
            r = strip_refs(cb.trace(0))
            alts = [strip_refs(x) for x in r[2]] if r[0] == "phi" else [r]
            ds = []
            for a in alts:
                while a[0] == "agg" and a[1].get("variant") in ("Ok", "Some") and a[2]:
                    a = strip_refs(a[2][0])
                if (a[0] == "agg" and a[1].get("variant") in ("Err", "None")) or (a[0] == "call" and a[1] and "from_residual" in a[1].get("path", "")):
                    continue
                ds.append(describe(cb, cb.xtrace_expr(a) if hasattr(cb, "xtrace_expr") else a, cap[0], depth + 1))
            known_ = [d for d in ds if d.kind in ("elem", "fixed") and d.view is not None and d.view[0] != "unknown"]
            if known_:
                if len(known_) == len(ds) and all(repr(d) == repr(ds[0]) for d in ds):
                    return ds[0]
                # one of several operands of the list: may be any of them
                return Descriptor("elem", ("all",), iteration=("helper-return", hx[1]["key"]), src=hx)
    # positions inside a chunk / slice pattern:  (*X)[i of n]
    if e[0] == "cindex":
        inner = describe(body, e[1], args_param, depth + 1)
        if inner.kind == "elem":
            return Descriptor("elem", inner.view, iteration=inner.iteration, sub=(inner.sub, e[2], e[3]))
        v = view_of(e[1], args_param)
        if v[0] != "unknown":
            return Descriptor("fixed", v, index=("last-%d" % e[2]) if e[3] else e[2])
        return Descriptor("unknown", None, text="cindex of " + show_expr(e[1])[:40])
    if e[0] == "index":
        i = strip_refs(e[2])
        inner = describe(body, e[1], args_param, depth + 1)
        if i[0] == "const" and inner.kind == "elem":
            return Descriptor("elem", inner.view, iteration=inner.iteration, sub=(inner.sub, const_value(i[1]), False))
        v = view_of(e[1], args_param)
        if v[0] != "unknown" and i[0] == "const":
            return Descriptor("fixed", v, index=const_value(i[1]))
        return Descriptor("unknown", None, text="index")
    # the element of a `for`/`while let` iteration: (next(iter) as Some).0 ; of an enumerate: .1 of that
    if e[0] == "field" and isinstance(e[2], int):
        inner = strip_refs(e[1])
        if inner[0] == "downcast" and inner[2] == "Some" and e[2] == 0:
            src = strip_refs(inner[1])
            if src[0] == "call" and src[1]:
                p = src[1]["path"]
                if p.endswith("::next") or p.endswith("::next_back"):
                    v = view_of(src[2][0], args_param)
                    bi_ = src[3]
                    at_site = isinstance(bi_, int) and 0 <= bi_ < len(body.blocks) and body.blocks[bi_]["term"]["k"] == "Call" and len(body.blocks[bi_]["term"]["args"]) >= 1
                    d_ = Descriptor("elem", v, iteration=("loop", body.key, bi_), src=body.xtrace(body.blocks[bi_]["term"]["args"][0]) if at_site else src[2][0])
                    d_.iter_obj = _iter_object(body, d_.src)
                    return d_
                if re.search(r"::(first|last|get|split_first|split_last)$", p):
                    v = view_of(src[2][0], args_param)
                    if p.endswith("::first"):
                        return Descriptor("fixed", v, index=0)
                    if p.endswith("::last"):
                        return Descriptor("fixed", v, index="last")
                    if p.endswith("::get") and len(src[2]) == 2:
                        i = strip_refs(src[2][1])
                        return Descriptor("fixed", v, index=const_value(i[1]) if i[0] == "const" else "?")
                    return Descriptor("unknown", None, text="split payload")
        # tuple positions: (elem).1 of enumerate, (split_last payload).0
        d = describe(body, e[1], args_param, depth + 1)
        if d.kind == "elem":
            return d     # (i, x) of enumerate / a reference to the element: the same operand
        if inner[0] == "field" and inner[2] == 0 and inner[1][0] == "downcast" and inner[1][2] == "Some":
            src = strip_refs(inner[1][1])
            if src[0] == "call" and src[1] and e[2] == 0:
                p = src[1]["path"]
                v = view_of(src[2][0], args_param)
                if p.endswith("::split_last"):
                    return Descriptor("fixed", v, index="last")
                if p.endswith("::split_first"):
                    return Descriptor("fixed", v, index=0)
        return Descriptor("unknown", None, text="field of " + show_expr(e[1])[:50])
    if e[0] == "carg":
        # parameter of a closure: which adaptor receives the closure, over which view
        cb = body.facts.body(e[1])
        cr = cb.creator() if cb is not None else None
        if cr is not None:
            parent = cr[0]
            for bi, t in parent.calls():
                p = callee_path(t) or ""
                for ai, a in enumerate(t["args"]):
                    x = strip_refs(parent.trace(a))
                    if x[0] == "agg" and x[1].get("closure") == e[1]:
                        if ELEM_ADAPTOR.search(p):
                            recv = parent.xtrace(t["args"][0])
                            v = view_of(recv, args_param)
                            return Descriptor("elem", v, iteration=("adaptor", parent.key, bi), src=recv)
                        if ai >= 1 and OPT_PAYLOAD_COMBINATOR.search(p) and x[1].get("closure") and _first_param(e):
                            # `args.last().map(|last| …)`, `args.get(2).map_or(d, |x| …)`, `first().and_then(|x| …)`: the
                            # closure's parameter is the success payload of the receiver — the operand the receiver denotes
                            recv = strip_refs(parent.xtrace(t["args"][0]))
                            d = describe(parent, ("field", ("downcast", recv, "Ok" if "Result" in p else "Some"), 0), args_param, depth + 1)
                            if d.kind != "unknown":
                                return d
                        return Descriptor("unknown", None, text="closure handed to " + p.rsplit("::", 1)[-1])
        return Descriptor("unknown", None, text="closure parameter")
    if e[0] == "call" and e[1]:
        p = e[1]["path"]
        if p == "<std::vec::Vec<T, A> as std::ops::Index<I>>::index" and len(e[2]) == 2:
            i = strip_refs(e[2][1])
            v = view_of(e[2][0], args_param)
            if v[0] != "unknown":
                return Descriptor("fixed", v, index=const_value(i[1]) if i[0] == "const" else "?")
        if p.endswith("Deref>::deref") or re.search(r"Clone>::clone$|::as_ref$|::borrow$", p):
            return describe(body, e[2][0], args_param, depth + 1)
    if e[0] == "phi":
        ds = [describe(body, a, args_param, depth + 1) for a in e[2]]
        if ds and all(repr(d) == repr(ds[0]) for d in ds):
            return ds[0]
    return Descriptor("unknown", None, text=show_expr(e)[:60])


def _norm_view(v):
    return v


def _in_cycle(body, bi):
    return any(bi in body.reachable(start=s) for s in body.succs(bi))


def _iter_object(body, recv):
    """Identity of the iterator object a `next()` is called on: the call site that constructed it, when the receiver
    is (a reference to) a local defined once by that call and the construction is not repeated (not inside a loop).
    Two `next()`/`next_back()` calls on one iterator object over a known view never yield the same element."""
    x = strip_refs(recv)
    if x[0] == "call" and x[1] and len(x) > 3 and isinstance(x[3], int) and 0 <= x[3] < len(body.blocks) \
            and body.blocks[x[3]]["term"]["k"] == "Call" and not _in_cycle(body, x[3]):
        return (body.key, x[3])
    return None


def disjoint(a, b):
    """No operand can be denoted by both descriptors."""
    if a.kind == "unknown" or b.kind == "unknown":
        return False
    va, vb = a.view, b.view
    if a.kind == "elem" and b.kind == "elem":
        if a.iteration == b.iteration:
            # two positions of one chunk are different operands; two positions of one *window* are not (position 1 of
            # a window is position 0 of the next); of an element of a view that was not read nothing is known
            return a.sub != b.sub and va[0] in ("chunks",)
        if a.iter_obj is not None and a.iter_obj == b.iter_obj and va == vb and va[0] != "unknown" and a.sub is None and b.sub is None:
            return True     # two different next() sites on one iterator object: the iterator has moved on in between
        return views_disjoint(va, vb)
    if a.kind == "fixed" and b.kind == "fixed":
        if va == vb:
            ia, ib = a.index, b.index
            if isinstance(ia, int) and isinstance(ib, int):
                return ia != ib
            return False
        return views_disjoint(va, vb)
    f, e = (a, b) if a.kind == "fixed" else (b, a)
    # fixed(V, last) vs elem(init(V)); fixed(V, 0) vs elem(tail(V)); fixed(V, i<n) vs elem(skip(V, n))
    ev = e.view
    if ev[0] == "init" and ev[1] == f.view and f.index == "last":
        return True
    if ev[0] == "tail" and ev[1] == f.view and f.index == 0:
        return True
    if ev[0] == "skip" and ev[1] == f.view and isinstance(f.index, int) and isinstance(ev[2], int) and f.index < ev[2]:
        return True
    return views_disjoint(f.view, ev)


def views_disjoint(a, b):
    if a[0] == "unknown" or b[0] == "unknown":
        return False
    for x, y in ((a, b), (b, a)):
        if x[0] == "chunks" and y[0] == "rem" and x[1] == y[1] and x[2] == y[2]:
            return True
    return False


def absolute_index(d):
    """n when the descriptor denotes exactly operand n of the whole list (fixed(all)[n], fixed(tail(all))[n-1], …)."""
    if d.kind != "fixed" or not isinstance(d.index, int):
        return None
    v, off = d.view, 0
    while True:
        if v == ("all",):
            return d.index + off
        if v[0] == "tail":
            off += 1
            v = v[1]
            continue
        if v[0] == "skip" and isinstance(v[2], int):
            off += v[2]
            v = v[1]
            continue
        return None
