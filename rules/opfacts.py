#!/usr/bin/env python3
"""Facts about one operator implementation unit (function + nested closures),
shared by the per-operator properties C05, C06, C12–C16."""
import re
from .core import callee_of, callee_path, strip_refs, strip_payload, show_expr, const_value, bool_edge, op_const, expr_mentions
from . import panic as PN

ITER_ADAPTOR = re.compile(r"(^std::iter::Iterator::|as std::iter::Iterator>::)(fold|try_fold|for_each|map|filter|any|all|find|position|filter_map|flat_map|find_map|take_while|skip_while|rfold|try_for_each|scan|inspect)$")


class Site:
    def __init__(self, body, bi, term):
        self.body, self.bi, self.term = body, bi, term

    def where(self):
        return self.body.where(self.bi)


class Unit:
    def __init__(self, roles, fn_key, extended=False, stop=()):
        """extended: also the crate's helper functions reachable from the unit without going
        through the interpreter (parser/evaluators) or through the keys in `stop`."""
        self.roles = roles
        self.facts = roles.facts
        self.root = self.facts.body(fn_key)
        self.bodies = roles.unit(fn_key)
        if extended:
            cg, _ = self.facts.callgraph()
            halt = set(roles.sinks) | set(roles.evaluators) | set(stop)
            # another operator of the tables is not a helper of this one: a function that merely *mentions* a table
            # (`LAZY_OPERATOR_MAP.get(key)`) refers, through the constant, to every function bound in it (a direct
            # call of a bound function is C03 K6's violation, and is followed)
            bound = {e.fn_key for t in roles.tables for e in t.entries} - {fn_key}

            def directly_called(k):
                b_ = self.facts.body(k)
                return {callee_of(t_).get("key") for _, t_ in b_.calls() if callee_of(t_)} if b_ is not None and hasattr(b_, "calls") else set()
            seen = set()
            st = [fn_key]
            while st:
                k = st.pop()
                if k in seen or k in halt:
                    continue
                seen.add(k)
                dc = directly_called(k)
                st.extend(x for x in cg.get(k, ()) if x not in bound or x in dc)
            self.bodies = [self.facts.body(k) for k in sorted(seen) if self.facts.body(k) is not None and self.facts.body(k).kind in ("fn", "closure")]
        self.keys = {b.key for b in self.bodies}

    def calls(self, pred=None):
        for b in self.bodies:
            for bi, t in b.calls():
                c = callee_of(t)
                if pred is None or (c is not None and pred(c)):
                    yield Site(b, bi, t)

    def calls_to(self, key):
        return [s for s in self.calls(lambda c: c.get("key") == key)]

    def calls_path(self, rx):
        r = re.compile(rx)
        return [s for s in self.calls(lambda c: r.search(c["path"]))]

    def per_element(self, site, _depth=0):
        """Is the site executed once per element of some iteration?  'closure' when its body
        is (nested in) a closure handed to an iterator adaptor, 'loop' when inside a natural
        loop of its body, 'helper' when it sits in a helper function all of whose call sites in
        the unit are per-element, else None."""
        r = self._per_element_local(site)
        if r is not None or _depth > 4:
            return r
        # a helper function of the unit: per-element iff every call site of it is
        root = site.body
        while root.kind == "closure" and root.creator():
            root = root.creator()[0]
        if root.key == self.root.key or root.kind != "fn":
            return None
        callers = [s for s in self.calls(lambda c: c.get("key") == root.key)]
        if callers and all(self.per_element(s, _depth + 1) is not None for s in callers):
            return "helper"
        return None

    def _per_element_local(self, site):
        b = site.body
        for (h, blocks, srcs) in PN.loops_of(b):
            if site.bi in blocks:
                return "loop"
        cur = b
        while cur.kind == "closure":
            cr = cur.creator()
            if cr is None:
                break
            parent = cr[0]
            # is `cur` passed to an iterator adaptor in parent?
            for bi, t in parent.calls():
                p = callee_path(t) or ""
                if ITER_ADAPTOR.search(p):
                    for a in t["args"]:
                        e = strip_refs(parent.trace(a))
                        if e[0] == "agg" and e[1].get("closure") == cur.key:
                            return "closure"
            # a closure created inside a loop of its parent
            for bj, sj, s in parent.stmts():
                if s["k"] == "Assign" and s["rv"]["k"] == "Aggregate" and s["rv"].get("closure") == cur.key:
                    for (h, blocks, srcs) in PN.loops_of(parent):
                        if bj in blocks:
                            return "loop"
            cur = parent
        return None

    def value_aggregates(self):
        """(body, bi, si, variant) for every serde_json::Value constructed in the unit."""
        out = []
        for b in self.bodies:
            for bi, si, s in b.stmts():
                if s["k"] == "Assign" and s["rv"]["k"] == "Aggregate" and s["rv"].get("adt") == "serde_json::Value":
                    out.append((b, bi, si, s["rv"]["variant"]))
        return out

    def const_items(self):
        """Named constants of the crate used as values in the unit (e.g. NULL)."""
        out = []
        for b in self.bodies:
            for bi, si, s in b.stmts():
                if s["k"] == "Assign" and s["rv"]["k"] == "Use":
                    c = op_const(s["rv"]["op"])
                    if c and "item" in c:
                        out.append((b, bi, si, c["item"]))
        return out


def max_calls_on_a_path(body, is_counted):
    """Maximum number of counted call sites on any entry→return path of an acyclic body
    (back edges ignored)."""
    order = body.rpo()
    idx = {b: i for i, b in enumerate(order)}
    best = {}
    for b in order:
        preds = [p for p in body.preds(b) if p in idx and idx[p] < idx[b]]
        base = max([best.get(p, 0) for p in preds], default=0)
        t = body.blocks[b]["term"]
        inc = 1 if (t["k"] == "Call" and is_counted(t)) else 0
        best[b] = base + inc
    return max([best.get(e, 0) for e in body.exits()], default=0)


def path_avoiding(body, is_blocked):
    """Is there an entry→return path that executes no blocked call?"""
    seen = set()
    st = [0]
    exits = set(body.exits())
    while st:
        b = st.pop()
        if b in seen:
            continue
        seen.add(b)
        t = body.blocks[b]["term"]
        if t["k"] == "Call" and is_blocked(t):
            continue
        if b in exits:
            return True
        st.extend(body.succs(b))
    return False


def const_under_edge(body, sb, truth):
    """Constant value of the body's result on the paths leaving switch `sb` through its
    `truth` edge (None if not a single constant)."""
    tgt = bool_edge(body, sb, truth)
    other = bool_edge(body, sb, not truth)
    region = body.reachable(tgt) - (body.reachable(other) - body.reachable(tgt) if False else set())
    only = body.reachable(tgt) - body.reachable(other) | {tgt}
    with body.restricted(only):
        r = body.trace(0)
    r = strip_refs(r)
    if r[0] == "const":
        return const_value(r[1])
    if r[0] == "agg" and r[1].get("variant") in ("Ok", "Some") and r[2]:
        x = strip_refs(r[2][0])
        if x[0] == "const":
            return const_value(x[1])
        if x[0] == "agg" and x[1].get("adt") == "serde_json::Value" and x[1].get("variant") == "Bool" and strip_refs(x[2][0])[0] == "const":
            return const_value(strip_refs(x[2][0])[1])
    return None


def in_context(u, b, x, site, depth=0):
    """[(expression, site)] — x (x-traced in body b) with the parameters of a helper function of the unit replaced by the
    arguments of each of its call sites in the unit (context-sensitive, bounded depth)."""
    owner = b
    while owner.kind == "closure" and owner.creator():
        owner = owner.creator()[0]
    if depth < 3 and owner.key != u.root.key and owner.kind == "fn" and expr_mentions(x, lambda y: y[0] == "arg"):
        callers = [s2 for s2 in u.calls(lambda c, _k=owner.key: c.get("key") == _k)]
        if callers:
            out = []
            for s2 in callers:
                def sub(e_, _s2=s2):
                    if not isinstance(e_, tuple):
                        return e_
                    if e_[0] == "arg" and isinstance(e_[1], int) and 0 <= e_[1] - 1 < len(_s2.term["args"]):
                        return _s2.body.xtrace(_s2.term["args"][e_[1] - 1])
                    return tuple([sub(y) for y in z] if isinstance(z, list) else sub(z) for z in e_)
                out.extend(in_context(u, s2.body, sub(x), s2, depth + 1))
            return out
    return [(x, site)]
