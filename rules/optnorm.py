#!/usr/bin/env python3
"""Case normal form of Option/Result plumbing.

`x.map(f).unwrap_or(d)`, `match x { Some(v) => f(v), None => d }`, `x.map_or(d, f)` and `if let Some(v) = x { f(v) }
else { d }` are one and the same decision.  `cases(body, expr)` rewrites an expression built from the std
combinators into the list of its cases

        [(conditions, value)]     conditions = ((canonical source expression, "Some" | "None" | "Ok" | "Err"), …)

where a *source* is an Option/Result-valued expression that is not itself a combinator (a call, a parameter, …) and
`value` may mention ("payload", source) for the value bound by the Some/Ok case.  Closures handed to combinators are
read through their own path summaries (rules/pathsum.py) with the closure parameter bound to the payload.
Together with the path summaries of `match`/`if let` code (whose atoms are ("variant", source) = Some/None) this gives
rules one representation to compare with their table, however the maintainer spelled the plumbing.
"""
import re
from .core import strip_refs, const_value
from . import pathsum

SRC_EXPRS = {}     # atom key -> source expression, for atoms introduced by combinator normalisation
M = re.compile(r"^std::(option::Option|result::Result)::<.*?>::(\w+)$")


def _closure_cases(facts, clo_expr, argvals, depth):
    """Cases of calling the closure/fn value `clo_expr` with arguments argvals → [(conds, value)]."""
    ce = strip_refs(clo_expr)
    if ce[0] == "const" and "fn" in ce[1]:
        fn = ce[1]["fn"]
        r = fn.get("resolved") or fn
        return [((), ("call", r, list(argvals), -1))]
    if ce[0] == "agg" and ce[1].get("closure"):
        cb = facts.body(ce[1]["closure"])
        if cb is None:
            return None
        env = {}
        for i, v in enumerate(argvals):
            env[2 + i] = v
        # captured variables: the closure environment is _1; its fields are the creator's operands
        ups = list(ce[2])
        env[1] = ("agg", {"agg": "Closure"}, ups)
        w = pathsum.summarize(cb, env=env, max_paths=400)
        if w.overflow or not w.paths or any(p.truncated for p in w.paths):
            return None
        out = []
        for p in w.paths:
            conds = tuple((k, v) for k, v in p.order)
            sub = cases_expr(facts, p.result, depth + 1)
            if sub is None:
                return None
            for c2, v2 in sub:
                out.append((conds + c2, v2))
        return out
    return None


def cases_expr(facts, e, depth=0):
    """[(conds, value)] — value is an expression that is not an Option/Result combinator call any more."""
    if depth > 10:
        return None
    x = strip_refs(e)
    if x[0] == "phi":
        out = []
        for a in x[2]:
            s = cases_expr(facts, a, depth + 1)
            if s is None:
                return None
            out.extend(s)
        return out
    if x[0] == "agg" and x[1].get("agg") == "Adt" and len(x[2]) == 1:
        # a constructor around a combinator expression: the cases are those of the operand
        sub = cases_expr(facts, x[2][0], depth + 1)
        if sub is None:
            return None
        if len(sub) == 1 and sub[0][0] == ():
            # nothing to split; keep the operand's expansion (a combinator over a known constructor, e.g.
            # `Some(d).map_or(NULL, clone)`, reduces to one unconditional case that is not the operand as written)
            return [((), x if sub[0][1] is x[2][0] or sub[0][1] == strip_refs(x[2][0]) else ("agg", x[1], [sub[0][1]]))]
        return [(c2, ("agg", x[1], [v2])) for c2, v2 in sub]
    if x[0] != "call" or not x[1]:
        return [((), x)]
    m = M.match(x[1]["path"])
    if not m:
        return [((), x)]
    kind = "opt" if "option" in m.group(1) else "res"
    meth = m.group(2)
    good, bad = ("Some", "None") if kind == "opt" else ("Ok", "Err")
    recv = src_cases(facts, x[2][0], kind, depth + 1)
    if recv is None:
        return None
    args = x[2][1:]
    out = []

    def wrap(v, variant=good):
        return ("agg", {"agg": "Adt", "variant": variant}, [v])
    for conds, tag, payload in recv:
        if meth in ("map",):
            if tag == good:
                cc = _closure_cases(facts, args[0], [payload], depth)
                if cc is None:
                    return None
                out.extend((conds + c2, wrap(v2)) for c2, v2 in cc)
            else:
                out.append((conds, ("agg", {"agg": "Adt", "variant": bad}, [payload] if kind == "res" else [])))
        elif meth in ("unwrap_or",):
            out.append((conds, payload if tag == good else strip_refs(args[0])))
        elif meth in ("unwrap_or_default",):
            out.append((conds, payload if tag == good else ("default",)))
        elif meth in ("unwrap_or_else",):
            if tag == good:
                out.append((conds, payload))
            else:
                cc = _closure_cases(facts, args[0], [payload] if kind == "res" else [], depth)
                if cc is None:
                    return None
                out.extend((conds + c2, v2) for c2, v2 in cc)
        elif meth in ("map_or",):
            if tag == good:
                cc = _closure_cases(facts, args[1], [payload], depth)
                if cc is None:
                    return None
                out.extend((conds + c2, v2) for c2, v2 in cc)
            else:
                out.append((conds, strip_refs(args[0])))
        elif meth in ("map_or_else",):
            cc = _closure_cases(facts, args[1] if tag == good else args[0], [payload] if (tag == good or kind == "res") else [], depth)
            if cc is None:
                return None
            out.extend((conds + c2, v2) for c2, v2 in cc)
        elif meth in ("and_then",):
            if tag == good:
                cc = _closure_cases(facts, args[0], [payload], depth)
                if cc is None:
                    return None
                out.extend((conds + c2, v2) for c2, v2 in cc)
            else:
                out.append((conds, ("agg", {"agg": "Adt", "variant": bad}, [payload] if kind == "res" else [])))
        elif meth in ("or_else",):
            if tag == good:
                out.append((conds, wrap(payload)))
            else:
                cc = _closure_cases(facts, args[0], [payload] if kind == "res" else [], depth)
                if cc is None:
                    return None
                out.extend((conds + c2, v2) for c2, v2 in cc)
        elif meth in ("or",):
            out.append((conds, wrap(payload) if tag == good else strip_refs(args[0])))
        elif meth in ("unwrap", "expect"):
            out.append((conds, payload if tag == good else ("panic",)))
        elif meth in ("ok_or", "ok_or_else") and kind == "opt":
            if tag == good:
                out.append((conds, ("agg", {"agg": "Adt", "variant": "Ok"}, [payload])))
            else:
                out.append((conds, ("agg", {"agg": "Adt", "variant": "Err"}, [("error",)])))
        elif meth in ("ok",) and kind == "res":
            out.append((conds, wrap(payload, "Some") if tag == good else ("agg", {"agg": "Adt", "variant": "None"}, [])))
        elif meth in ("is_some", "is_ok"):
            out.append((conds, ("const", {"ty": "bool", "bool": tag == good})))
        elif meth in ("is_none", "is_err"):
            out.append((conds, ("const", {"ty": "bool", "bool": tag != good})))
        elif meth in ("is_some_and", "is_ok_and"):
            if tag == good:
                cc = _closure_cases(facts, args[0], [payload], depth)
                if cc is None:
                    return None
                out.extend((conds + c2, v2) for c2, v2 in cc)
            else:
                out.append((conds, ("const", {"ty": "bool", "bool": False})))
        elif meth == "filter" and kind == "opt":
            # Some(p) stays Some(p) exactly when the predicate holds for p
            if tag != good:
                out.append((conds, ("agg", {"agg": "Adt", "variant": "None"}, [])))
            else:
                cc = _closure_cases(facts, args[0], [payload], depth)
                if cc is None:
                    return None
                for c2, v2 in cc:
                    b2 = strip_refs(v2)
                    neg2 = False
                    while b2[0] == "unop" and b2[1] == "Not":
                        neg2, b2 = not neg2, strip_refs(b2[2])
                    if b2[0] == "const" and isinstance(const_value(b2[1]), bool):
                        keep = const_value(b2[1]) != neg2
                        out.append((conds + c2, wrap(payload) if keep else ("agg", {"agg": "Adt", "variant": "None"}, [])))
                    else:
                        key = ("truth", pathsum.canon(b2))
                        SRC_EXPRS[key] = b2
                        out.append((conds + c2 + ((key, not neg2),), wrap(payload)))
                        out.append((conds + c2 + ((key, neg2),), ("agg", {"agg": "Adt", "variant": "None"}, [])))
        elif meth == "transpose":
            # Option<Result<T, E>> → Result<Option<T>, E>   /   Result<Option<T>, E> → Option<Result<T, E>>
            if kind == "opt":
                if tag != good:
                    out.append((conds, ("agg", {"agg": "Adt", "variant": "Ok"}, [("agg", {"agg": "Adt", "variant": "None"}, [])])))
                else:
                    inner = src_cases(facts, payload, "res", depth + 1)
                    if inner is None:
                        return None
                    for c2, t2, p2 in inner:
                        out.append((conds + c2, ("agg", {"agg": "Adt", "variant": "Ok"}, [wrap(p2, "Some")]) if t2 == "Ok" else ("agg", {"agg": "Adt", "variant": "Err"}, [p2])))
            else:
                if tag != good:
                    out.append((conds, wrap(("agg", {"agg": "Adt", "variant": "Err"}, [payload]), "Some")))
                else:
                    inner = src_cases(facts, payload, "opt", depth + 1)
                    if inner is None:
                        return None
                    for c2, t2, p2 in inner:
                        out.append((conds + c2, wrap(("agg", {"agg": "Adt", "variant": "Ok"}, [p2]), "Some") if t2 == "Some" else ("agg", {"agg": "Adt", "variant": "None"}, [])))
        elif meth in ("copied", "cloned", "as_ref", "as_deref", "map_err", "as_mut"):
            out.append((conds, wrap(payload) if tag == good else ("agg", {"agg": "Adt", "variant": bad}, [payload] if kind == "res" else [])))
        else:
            return [((), x)]
    # values that are themselves combinator expressions (nested) are expanded
    final = []
    for conds, v in out:
        sub = cases_expr(facts, v, depth + 1) if (isinstance(v, tuple) and v and v[0] == "call") else [((), v)]
        if sub is None:
            return None
        final.extend((conds + c2, v2) for c2, v2 in sub)
    return final


def src_cases(facts, e, kind, depth=0):
    """The Option/Result-valued expression e as [(conds, tag, payload)]."""
    good, bad = ("Some", "None") if kind == "opt" else ("Ok", "Err")
    sub = cases_expr(facts, e, depth)
    if sub is None:
        return None
    out = []
    for conds, v in sub:
        v = strip_refs(v)
        if v[0] == "agg" and v[1].get("variant") in (good, bad):
            out.append((conds, v[1]["variant"], v[2][0] if v[2] else ("unit",)))
        else:
            key = pathsum.canon(v)
            SRC_EXPRS[("variant", key)] = v
            out.append((conds + ((("variant", key), good),), good, ("payload", key, v)))
            out.append((conds + ((("variant", key), bad),), bad, ("payload-err", key, v)))
    return out


def normalise(e, depth=0):
    """Rewrite `(X as Some).0` / `(X as Ok).0` into ("payload", canon(X), X) so that values read from match code and
    from combinator code compare equal."""
    if not isinstance(e, tuple) or depth > 30:
        return e
    if e[0] == "field" and e[2] == 0 and isinstance(e[1], tuple) and e[1][0] == "downcast" and e[1][2] in ("Some", "Ok", "Continue"):
        src = strip_refs(e[1][1])
        if e[1][2] == "Continue" and src[0] == "call" and src[1] and src[1].get("path", "").endswith("as std::ops::Try>::branch") and src[2]:
            src = strip_refs(src[2][0])
        # the payload of `x.map(f)` is f(payload of x); of `x.cloned()` / `x.as_ref()` / `x.ok()` … the payload of x
        # (the same placeholders the combinator expansion of cases_expr produces)
        inner_ = pathsum.through_variant_preserving(src)[0] if src[0] == "call" else None
        if inner_ is not None and inner_[0] == "call" and inner_[1] and M.match(inner_[1].get("path") or ""):
            inner_ = None       # the chain bottoms out in a combinator that is not variant-preserving (and_then, or_else …): left to cases_expr
        if inner_ is not None and src[0] == "call" and src[1] and src[2]:
            pth = src[1].get("path") or ""
            m = M.match(pth)
            if m and m.group(2) in ("copied", "cloned", "as_ref", "as_deref", "as_mut", "as_deref_mut", "inspect", "map_err", "inspect_err", "ok", "ok_or", "ok_or_else"):
                good_in = "Ok" if ("result::Result" in pth) else "Some"
                return normalise(("field", ("downcast", src[2][0], good_in), 0), depth + 1)
            if m and m.group(2) == "map" and len(src[2]) == 2:
                fn = strip_refs(src[2][1])
                if fn[0] == "const" and "fn" in fn[1]:
                    good_in = "Ok" if ("result::Result" in pth) else "Some"
                    r = fn[1]["fn"].get("resolved") or fn[1]["fn"]
                    return ("call", r, [normalise(("field", ("downcast", src[2][0], good_in), 0), depth + 1)], -1)
        return ("payload", pathsum.canon(src), src)
    if e[0] == "payload":
        return e
    out = []
    for x in e:
        if isinstance(x, tuple):
            out.append(normalise(x, depth + 1))
        elif isinstance(x, list):
            out.append([normalise(y, depth + 1) if isinstance(y, tuple) else y for y in x])
        else:
            out.append(x)
    return tuple(out)


class Cases(list):
    exprs = None


def decision_cases(facts, body, known=None, env=None, max_paths=3000):
    """Every way `body` can produce its result: [(conds dict, value expr)] with match/if-let code and combinator
    code brought to the same form.  None when the body has loops or too many paths."""
    w = pathsum.summarize(body, known=known, env=env, max_paths=max_paths)
    if w.overflow or not w.paths or any(p.truncated for p in w.paths):
        return None
    out = Cases()
    out.exprs = dict(w.exprs)
    for p in w.paths:
        sub = cases_expr(facts, p.result)
        if sub is None:
            return None
        for c2, v in sub:
            conds = dict(p.atoms)
            ok = True
            for k, val in c2:
                if k in conds and conds[k] != val:
                    ok = False
                conds[k] = val
            if ok:
                out.append((conds, normalise(strip_refs(v)), p))
    return out
