#!/usr/bin/env python3
"""R-ARMS over pairs: outcome of a two-operand JSON predicate for each of the 36 kind pairs.

`decision_matrix` (C07, C08) reads the matrix off the *decision cases* of the predicate (rules/optnorm.py): for each
pair of kinds the kinds of both parameters are fixed (`known`), private helpers are inlined (rules/inline.py view),
public two-value predicates the case delegates to are expanded in place, serde_json's kind tests / accessors are
answered from the fixed kinds, and every remaining case is *read*: a constant, a comparison of the two payloads
(doubles of as_f64 / the shared string→number conversion, strings, booleans), or the recursion with an operand
replaced by a converted value (number of a boolean, string form of a container).  A case that cannot be read makes the
pair UNREAD (neither pass nor fail).  How the arms are spelled — tuple match, match on one operand plus accessors on
the other, guards with predicates, helpers — does not matter.

`pair_matrix` (C15's membership equality, which iterates) is the older reading by forcing variants onto places
(variant specialisation of the function and its closures)."""
import itertools, re
from .core import (callee_of, callee_path, strip_refs, strip_payload, show_expr, const_value, expr_mentions, op_const, edge_dominates, bool_edge)
from .engine import Inconclusive
from . import prov as P

VALUE = "serde_json::Value"
KINDS = ["Null", "Bool", "Number", "String", "Array", "Object"]


def _payload_of(e, arg, variant=None):
    """Does expression e read the payload of parameter `arg` (optionally of a given variant)?"""
    return expr_mentions(e, lambda x: x[0] == "downcast" and strip_refs(x[1]) == ("arg", arg) and (variant is None or x[2] == variant))


class Outcome:
    def __init__(self):
        self.kind = None
        self.detail = {}

    def __repr__(self):
        return self.kind


def _distinct_refs(x):
    """The operands are distinct references (the rule interface evaluates them into fresh values)."""
    if x[0] == "call" and x[1] and x[1]["path"] == "std::ptr::eq":
        return False
    return None


def pair_matrix(roles, f, to_string_key=None, str_to_number_key=None):
    facts = roles.facts
    unit = roles.unit(f.key)
    res = {}
    for v1, v2 in itertools.product(KINDS, KINDS):
        def assume(e, adt, _a=v1, _b=v2):
            if adt == VALUE and e == ("arg", 1):
                return _a
            if adt == VALUE and e == ("arg", 2):
                return _b
            return None
        restrict = P.specialise_unit(roles, f.key, assume, assume_bool=_distinct_refs)
        res[(v1, v2)] = classify(roles, f, unit, restrict, v1, v2, to_string_key, str_to_number_key)
    # a pair that only re-dispatches with its operands unchanged (typically swapped: `(String, Number) => eq(second, first)`)
    # is decided as the pair it re-dispatches to
    for _ in range(2):
        for k, o in list(res.items()):
            recs = o.detail.get("rec") or []
            if o.kind.startswith("REC:") and recs and all(not conv for (_n, conv, _b, _bi) in recs):
                targets = {n for (n, conv, _b, _bi) in recs}
                if len(targets) == 1:
                    tk = next(iter(targets))
                    if tk != k and tk in res and not res[tk].kind.startswith("REC:"):
                        o2 = Outcome()
                        o2.kind = res[tk].kind
                        o2.detail = dict(res[tk].detail)
                        o2.detail["via"] = "re-dispatch to %s,%s" % tk
                        res[k] = o2
    return res


def classify(roles, f, unit, restrict, v1, v2, to_string_key, str_to_number_key, depth=0):
    facts = roles.facts
    calls = []
    cmps = []
    casts = []
    for b in unit:
        bl = restrict.get(b.key, set())
        for bi in sorted(bl):
            t = b.blocks[bi]["term"]
            if t["k"] == "Call" and callee_of(t):
                calls.append((b, bi, t, callee_of(t)))
            for si, s in enumerate(b.blocks[bi]["stmts"]):
                if s["k"] == "Assign" and s["rv"]["k"] == "BinaryOp" and s["rv"]["op"] in ("Eq", "Ne", "Lt", "Le", "Gt", "Ge"):
                    cmps.append((b, bi, si, s["rv"]))
                if s["k"] == "Assign" and s["rv"]["k"] == "Cast" and s["rv"].get("cast") in ("FloatToInt", "IntToFloat"):
                    casts.append(s["rv"]["cast"])
    # the code of the pair is also the code of the private helpers it hands its payloads to (`numbers_eq(x, y)`,
    # `arrays_eq(xs, ys)`): everything but the predicate itself, the interpreter, and another two-value predicate
    # (read by delegation below, under the same kinds)
    own = {b.key for b in unit}
    halt = set(roles.sinks) | set(roles.evaluators)
    seen_h = set()
    work = [c for (_, _, _, c) in calls]
    while work:
        c = work.pop()
        k = c.get("key")
        if not c.get("local") or k is None or k in own or k in seen_h or k == f.key or k in halt or len(seen_h) > 12:
            continue
        it = facts.items.get(k, {})
        if it.get("output") == "bool" and it.get("inputs") == ["&serde_json::Value", "&serde_json::Value"]:
            continue
        seen_h.add(k)
        for hb in roles.unit(k):
            for bi in sorted(hb.reachable()):
                t = hb.blocks[bi]["term"]
                if t["k"] == "Call" and callee_of(t):
                    calls.append((hb, bi, t, callee_of(t)))
                    work.append(callee_of(t))
                for si, s in enumerate(hb.blocks[bi]["stmts"]):
                    if s["k"] == "Assign" and s["rv"]["k"] == "BinaryOp" and s["rv"]["op"] in ("Eq", "Ne", "Lt", "Le", "Gt", "Ge"):
                        cmps.append((hb, bi, si, s["rv"]))
                    if s["k"] == "Assign" and s["rv"]["k"] == "Cast" and s["rv"].get("cast") in ("FloatToInt", "IntToFloat"):
                        casts.append(s["rv"]["cast"])
    blocks = restrict[f.key]
    with f.restricted(blocks):
        r = strip_refs(f.trace(0))
    # recursion
    rec = []
    for (b, bi, t, c) in calls:
        if c.get("key") == f.key:
            nxt = []
            conv = []
            for p, cur in ((1, v1), (2, v2)):
                e = strip_refs(b.xtrace(t["args"][p - 1]))
                if b.key not in own and e[0] == "arg":
                    nxt.append("?")         # a helper's own parameter: a payload, not the operand
                elif e == ("arg", p):
                    nxt.append(cur)
                elif e == ("arg", 3 - p) and b.key == f.key:
                    nxt.append(v2 if p == 1 else v1)   # the other operand, handed on unchanged (a swap)
                elif e[0] == "agg" and e[1].get("adt") == VALUE:
                    nxt.append(e[1]["variant"])
                    inner = strip_refs(e[2][0]) if e[2] else None
                    if inner is not None and inner[0] == "call" and inner[1]:
                        conv.append((p, inner[1].get("key") if inner[1]["local"] else inner[1]["path"], inner))
                    elif inner is not None:
                        conv.append((p, "payload", inner))
                else:
                    nxt.append("?")
            rec.append((tuple(nxt), conv, b, bi))
    paths = [c["key"] if c["local"] else c["path"] for (_, _, _, c) in calls]
    o = Outcome()
    if rec:
        targets = sorted({x[0] for x in rec})
        o.kind = "REC:" + "|".join("(%s,%s)" % t for t in targets)
        o.detail["rec"] = rec
        return o
    if r[0] == "const" and isinstance(const_value(r[1]), bool) and not [p for p in paths if not p.startswith("std::ptr::eq")]:
        o.kind = "CONST:%s" % str(const_value(r[1])).lower()
        return o
    feq = [c for c in cmps if c[3].get("opty") in ("f64", "f32")]
    other_cmp = [c for c in cmps if c[3].get("opty") not in ("f64", "f32", "bool") and c[3]["op"] != "Eq"]
    as_f64 = [x for x in calls if x[3]["path"] == "serde_json::Number::as_f64"]
    int_acc = [x for x in calls if re.search(r"serde_json::Number::(as_i64|as_u64|is_\w+)$", x[3]["path"])]
    def _spelling(x):
        if re.search(r"<serde_json::(Number|Value) as std::cmp::PartialEq>::(eq|ne)$", x[3]["path"]):
            return True
        for fw in (x[2].get("callee") or {}).get("fwd", []):
            if re.search(r"<serde_json::(Number|Value) as std::cmp::PartialEq>::(eq|ne)$", fw["path"]):
                return True
        return False
    num_eq = [x for x in calls if _spelling(x)]
    s2n = [x for x in calls if str_to_number_key and x[3].get("key") == str_to_number_key]
    streq = [x for x in calls if re.search(r"PartialEq.*::(eq|ne)$", x[3]["path"]) and re.search(r"String|str", x[3].get("full") or x[3]["path"]) and not re.search(r"serde_json::(Number|Value) as", x[3]["path"])]
    booleq = [c for c in cmps if c[3].get("opty") == "bool"] + [x for x in calls if re.search(r"PartialEq.*::(eq|ne)$", x[3]["path"]) and "bool" in (x[3].get("full") or "")]
    o.detail.update({"casts": sorted(casts), "ne_calls": [x[3]["path"] for x in calls if re.search(r"PartialEq.*::ne$", x[3]["path"])], "int_accessors": [x[3]["path"] for x in int_acc], "value_eq": [x[3]["path"] for x in num_eq], "ops": sorted({c[3]["op"] for c in cmps})})
    if num_eq:
        o.kind = "SPELLING-EQ"
    elif int_acc and feq:
        o.kind = "MIXED-INT/FLOAT"
    elif int_acc:
        o.kind = "INT-EQ"
    elif s2n and as_f64 and feq:
        o.kind = "NUMSTR" if all(c[3]["op"] == "Eq" for c in feq) else "NUMSTR:" + ",".join(sorted({c[3]["op"] for c in feq}))
    elif len(as_f64) >= 2 and feq:
        o.kind = "FEQ" if all(c[3]["op"] == "Eq" for c in feq) else "F" + ",".join(sorted({c[3]["op"] for c in feq}))
    elif streq and not feq:
        o.kind = "STREQ" if all(x[3]["path"].endswith("::eq") for x in streq) else "STRNE"
    elif booleq and not feq:
        o.kind = "BOOLEQ"
    else:
        # plain delegation of this pair to another two-value predicate of the crate with the same operands:
        # the outcome is that predicate's outcome for the same pair
        dele = [x for x in calls if x[3]["local"] and x[3].get("key") != f.key and facts.items.get(x[3]["key"], {}).get("output") == "bool"
                and facts.items[x[3]["key"]].get("inputs") == ["&serde_json::Value", "&serde_json::Value"]]
        if len(dele) == 1 and depth == 0:
            b, bi, t, c = dele[0]
            args = [strip_refs(b.xtrace(a)) for a in t["args"]]
            rr = strip_refs(r)
            direct = rr[0] == "call" and rr[3] == bi and b.key == f.key
            if args == [("arg", 1), ("arg", 2)] and direct:
                g = facts.body(c["key"])
                gunit = roles.unit(g.key)

                def assume(e, adt, _a=v1, _b=v2):
                    if adt == VALUE and e == ("arg", 1):
                        return _a
                    if adt == VALUE and e == ("arg", 2):
                        return _b
                    return None
                grestrict = P.specialise_unit(roles, g.key, assume, assume_bool=_distinct_refs)
                return classify(roles, g, gunit, grestrict, v1, v2, to_string_key, str_to_number_key, depth + 1)
        o.kind = "OTHER(%s)" % ",".join(sorted({p.rsplit("::", 1)[-1] for p in paths}))[:80]
    return o


# =====================================================================================================================
# decision-case reading (shape independent)
# =====================================================================================================================
from . import optnorm, pathsum        # noqa: E402

KIND_TEST = {"is_null": "Null", "is_boolean": "Bool", "is_number": "Number", "is_string": "String", "is_array": "Array", "is_object": "Object"}
KIND_ACCESSOR = {"as_null": "Null", "as_bool": "Bool", "as_str": "String", "as_array": "Array", "as_object": "Object", "as_number": "Number"}
INT_ACCESSOR = re.compile(r"^serde_json::(Number|Value)::(as_i64|as_u64|as_i128|as_u128|is_i64|is_u64|is_f64)$")
SPELLING = re.compile(r"<serde_json::(Number|Value) as std::cmp::PartialEq(<[^>]*>)?>::(eq|ne)$")
PEEL = re.compile(r"^(?!serde_json::).*(Deref>::deref|::as_str|::as_ref|::borrow|Clone>::clone|ToOwned>::to_owned)$")
CMP_NOT = {"Eq": "Ne", "Ne": "Eq", "Lt": "Ge", "Ge": "Lt", "Gt": "Le", "Le": "Gt"}


def _peel(e):
    while True:
        e = strip_refs(e)
        if e[0] == "call" and e[1] and not e[1].get("local") and len(e[2]) == 1 and PEEL.search(e[1]["path"]):
            e = e[2][0]
            continue
        if e[0] == "cast" and e[1] in ("Transmute",):
            return e
        return e


def _ctor(e):
    """(variant, [operands]) for a serde_json::Value built by aggregate or by the constructor used as a function."""
    e = strip_refs(e)
    if e[0] == "agg" and e[1].get("adt") == VALUE and e[1].get("variant"):
        return e[1]["variant"], list(e[2])
    if e[0] == "call" and e[1] and len(e[2]) == 1:
        m = re.search(r"^serde_json::Value::(Null|Bool|Number|String|Array|Object)$", e[1].get("path") or "")
        if m:
            return m.group(1), list(e[2])
    return None


class Reader:
    """Reads the decision cases of `f` for one pair of kinds."""

    def __init__(self, facts, f, kinds, s2n_key, assume_distinct=True, root=None, depth=0):
        self.facts, self.f, self.kinds, self.s2n, self.distinct = facts, f, kinds, s2n_key, assume_distinct
        self.root = root or f
        self.depth = depth
        self.int_acc = []
        self.spelling = []
        self.fcmp = False

    # ---- operands ------------------------------------------------------------------------------------
    def side(self, e):
        """("val", p) — parameter p itself; ("payload", p) — the payload of parameter p under its fixed kind."""
        e = _peel(e)
        if e[0] == "arg" and e[1] in (1, 2):
            return ("val", e[1])
        if e[0] == "field" and e[2] == 0 and isinstance(e[1], tuple) and e[1][0] == "downcast":
            base = _peel(e[1][1])
            if base[0] == "arg" and base[1] in (1, 2) and e[1][2] == self.kinds[base[1]]:
                return ("payload", base[1])
            # payload of a modelled accessor: as_str(v) / as_bool(v) …
            src = self.source(e[1][1]) if e[1][2] == "Some" else None
            if src and src[0] == "acc" and src[3]:
                return ("payload", src[1])
        if e[0] == "payload":
            src = self.source(e[2])
            if src and src[0] == "acc" and src[3]:
                return ("payload", src[1])
        return None

    def source(self, e):
        """Option-valued sources: ("as_f64", p) | ("s2n", p) | ("from_f64", const|("bool", p)|None) |
        ("acc", p, kind, holds) — a kind accessor of serde_json answered from the fixed kind | ("int", p)."""
        e = _peel(e)
        if e[0] != "call" or not e[1]:
            return None
        c = e[1]
        path = c.get("path") or ""
        if self.s2n and c.get("key") == self.s2n and len(e[2]) == 1:
            sd = self.side(e[2][0])
            if sd and sd[0] == "payload" and self.kinds[sd[1]] == "String":
                return ("s2n", sd[1])
            return ("s2n", None)
        if c.get("local"):
            return None
        if path == "serde_json::Number::as_f64" and len(e[2]) == 1:
            sd = self.side(e[2][0])
            return ("as_f64", sd[1]) if sd and sd[0] == "payload" and self.kinds[sd[1]] == "Number" else ("as_f64", None)
        if path == "serde_json::Value::as_f64" and len(e[2]) == 1:
            sd = self.side(e[2][0])
            if sd and sd[0] == "val":
                return ("as_f64", sd[1]) if self.kinds[sd[1]] == "Number" else ("acc", sd[1], "Number", False)
            return ("as_f64", None)
        if INT_ACCESSOR.search(path):
            self.int_acc.append(path)
            return ("int", None)
        if path == "serde_json::Number::from_f64" and len(e[2]) == 1:
            a = strip_refs(e[2][0])
            while a[0] == "cast" and a[1] in ("IntToFloat", "IntToInt", "FloatToFloat"):
                a = strip_refs(a[2])
            if a[0] == "call" and a[1] and re.search(r"From<bool>.*::from$|<bool as std::convert::Into<.*>>::into$", a[1]["path"]) and a[2]:
                a = strip_refs(a[2][0])
                while a[0] == "cast" and a[1] in ("IntToFloat", "IntToInt", "FloatToFloat"):
                    a = strip_refs(a[2])
            if a[0] == "const":
                v = const_value(a[1])
                if isinstance(v, bool):
                    return ("from_f64", float(v))
                return ("from_f64", float(v)) if isinstance(v, (int, float)) else ("from_f64", None)
            sd = self.side(a)
            if sd and sd[0] == "payload" and self.kinds[sd[1]] == "Bool":
                return ("from_f64", ("bool", sd[1]))
            return ("from_f64", None)
        m = re.search(r"^serde_json::Value::(\w+)$", path)
        if m and m.group(1) in KIND_ACCESSOR and len(e[2]) == 1:
            sd = self.side(e[2][0])
            if sd and sd[0] == "val":
                return ("acc", sd[1], KIND_ACCESSOR[m.group(1)], self.kinds[sd[1]] == KIND_ACCESSOR[m.group(1)])
        return None

    def number(self, e):
        """A double operand of a comparison: the payload of as_f64 / of the string→number conversion of a side."""
        e = strip_refs(e)
        src = None
        if e[0] == "payload":
            src = self.source(e[2])
        elif e[0] == "field" and e[2] == 0 and isinstance(e[1], tuple) and e[1][0] == "downcast" and e[1][2] == "Some":
            src = self.source(e[1][1])
        if src and src[0] in ("as_f64", "s2n") and src[1]:
            return src
        return None

    # ---- boolean expressions ---------------------------------------------------------------------------
    def boolean(self, v, depth=0):
        """Reading of a boolean expression: ("const", b) | ("feq", op, A, B) | ("streq", neg) | ("booleq", neg) |
        ("rec", [operand…], site) | ("spelling",) | ("call", key, args) | ("unread", why)."""
        v = strip_refs(v)
        if depth > 6:
            return ("unread", "nested too deeply")
        if v[0] == "const" and isinstance(const_value(v[1]), bool):
            return ("const", const_value(v[1]))
        if v[0] == "unop" and v[1] == "Not":
            return self.negate(self.boolean(v[2], depth + 1))
        if v[0] == "binop" and v[1] in ("BitAnd", "BitOr"):
            a, b = self.boolean(v[2], depth + 1), self.boolean(v[3], depth + 1)
            if a[0] == "const" and b[0] == "const":
                return ("const", (a[1] and b[1]) if v[1] == "BitAnd" else (a[1] or b[1]))
            for x, y in ((a, b), (b, a)):
                if x[0] == "const":
                    if v[1] == "BitAnd":
                        return y if x[1] else ("const", False)
                    return ("const", True) if x[1] else y
            return ("unread", "conjunction of two non-constant tests")
        if v[0] == "binop" and v[1] in CMP_NOT:
            opty = v[4] if len(v) > 4 else None
            if opty in ("f64", "f32"):
                self.fcmp = True
                A, B = self.number(v[2]), self.number(v[3])
                if A and B:
                    return ("feq", v[1], A, B)
                return ("fcmp-other", v[1], show_expr(v)[:100])
            if opty == "bool" and v[1] in ("Eq", "Ne"):
                a, b = self.side(v[2]), self.side(v[3])
                if a and b and a[0] == b[0] == "payload" and {a[1], b[1]} == {1, 2}:
                    return ("booleq", v[1] == "Ne")
                # a boolean compared with a literal
                for x, y in ((v[2], v[3]), (v[3], v[2])):
                    y0 = strip_refs(y)
                    if y0[0] == "const" and isinstance(const_value(y0[1]), bool):
                        r = self.boolean(x, depth + 1)
                        return r if (const_value(y0[1]) == (v[1] == "Eq")) else self.negate(r)
            return ("unread", "comparison %s" % show_expr(v)[:100])
        if v[0] == "call" and v[1]:
            c = v[1]
            path = c.get("path") or ""
            if c.get("key") == self.root.key and len(v[2]) == 2:
                return ("rec", [self.rec_operand(v[2][0], 1), self.rec_operand(v[2][1], 2)], v[3] if len(v) > 3 else None)
            if c.get("local"):
                return ("call", c.get("key"), list(v[2]))
            if path == "std::ptr::eq" or path == "core::ptr::eq":
                if self.distinct:
                    return ("const", False)
                return ("unread", "pointer identity")
            m = re.search(r"^serde_json::Value::(\w+)$", path)
            if m and m.group(1) in KIND_TEST and len(v[2]) == 1:
                sd = self.side(v[2][0])
                if sd and sd[0] == "val":
                    return ("const", self.kinds[sd[1]] == KIND_TEST[m.group(1)])
            if INT_ACCESSOR.search(path):
                self.int_acc.append(path)
                return ("int-test", path)
            if SPELLING.search(path) or any(SPELLING.search(fw.get("path") or "") for fw in c.get("fwd") or []):
                self.spelling.append(path)
                return ("spelling",)
            mm = re.search(r"PartialEq.*::(eq|ne)$", path)
            if mm and len(v[2]) == 2:
                neg = mm.group(1) == "ne"
                A, B = self.number(v[2][0]), self.number(v[2][1])
                if A and B:
                    self.fcmp = True
                    return ("feq", "Ne" if neg else "Eq", A, B)
                # doubles compared through an ordering: `a.total_cmp(&b) == Equal` tells +0 from -0; `a.partial_cmp(&b) == Some(Equal)` is a == b
                for X, Y in ((v[2][0], v[2][1]), (v[2][1], v[2][0])):
                    X0 = strip_refs(X)
                    if X0[0] == "call" and X0[1] and re.search(r"::(total_cmp|partial_cmp|cmp)$", X0[1]["path"]) and len(X0[2]) == 2 and self.number(X0[2][0]) and self.number(X0[2][1]):
                        self.fcmp = True
                        Y0 = strip_refs(Y)
                        if Y0[0] == "agg" and Y0[1].get("variant") == "Some" and Y0[2]:
                            Y0 = strip_refs(Y0[2][0])
                        ordv = Y0[1].get("variant") if Y0[0] == "agg" else None
                        if X0[1]["path"].endswith("::partial_cmp") and ordv == "Equal":
                            return ("feq", "Ne" if neg else "Eq", self.number(X0[2][0]), self.number(X0[2][1]))
                        return ("fcmp-other", "%s==%s" % (X0[1]["path"].rsplit("::", 1)[1], ordv), show_expr(v)[:100])
                # two constants (`type_of(a) != type_of(b)` with both kinds fixed: "object" vs "string"): decided
                ca_, cb_ = strip_refs(v[2][0]), strip_refs(v[2][1])
                if ca_[0] == "const" and cb_[0] == "const" and isinstance(const_value(ca_[1]), (str, int, bool)) and isinstance(const_value(cb_[1]), (str, int, bool)):
                    return ("const", (const_value(ca_[1]) == const_value(cb_[1])) != neg)
                oa, ob = self.option(v[2][0]), self.option(v[2][1])
                if oa is not None and ob is not None:
                    # equality of two Options whose state is known
                    if oa[0] != ob[0]:
                        return ("const", neg)
                    if oa[0] == "None":
                        return ("const", not neg)
                    r = self.payload_eq(oa[1], ob[1])
                    return self.negate(r) if neg else r
                if oa is None and ob is None:
                    r = self.payload_eq(v[2][0], v[2][1])
                    if r[0] != "unread":
                        return self.negate(r) if neg else r
                return ("unread", "equality %s" % show_expr(v)[:100])
            mo = re.search(r"^std::option::Option::<.*>::(is_some|is_none)$", path)
            if mo and v[2]:
                o = self.option(v[2][0])
                if o is not None:
                    return ("const", (o[0] == "Some") == (mo.group(1) == "is_some"))
        return ("unread", "value %s" % show_expr(v)[:100])

    def option(self, e):
        """("Some", payload expr) / ("None",) when the state of the Option-valued e is known, else None."""
        e0 = strip_refs(e)
        if e0[0] == "agg" and e0[1].get("variant") == "Some" and e0[2]:
            return ("Some", e0[2][0])
        if e0[0] == "agg" and e0[1].get("variant") == "None":
            return ("None",)
        src = self.source(e0)
        if src and src[0] == "acc":
            return ("Some", ("payload", pathsum.canon(e0), e0)) if src[3] else ("None",)
        return None

    def payload_eq(self, a, b):
        sa, sb = self.side(a), self.side(b)
        if sa and sb and sa[0] == sb[0] == "payload" and {sa[1], sb[1]} == {1, 2} and self.kinds[1] == self.kinds[2]:
            if self.kinds[1] == "String":
                return ("streq", False)
            if self.kinds[1] == "Bool":
                return ("booleq", False)
            if self.kinds[1] == "Number":
                self.spelling.append("Number == Number")
                return ("spelling",)
        return ("unread", "equality of %s and %s" % (show_expr(strip_refs(a))[:50], show_expr(strip_refs(b))[:50]))

    @staticmethod
    def negate(r):
        if r[0] == "const":
            return ("const", not r[1])
        if r[0] in ("streq", "booleq"):
            return (r[0], not r[1])
        if r[0] == "feq":
            return ("feq", CMP_NOT[r[1]], r[2], r[3])
        if r[0] == "rec":
            return ("unread", "negated recursion")
        return r if r[0] == "unread" else ("unread", "negation of %s" % (r[0],))

    def rec_operand(self, e, pos):
        """What the recursion is given at position pos: ("same", p) | ("num-of-bool", source, inner) |
        ("str-of", p|None, how, inner) | ("conv", variant, inner) | ("other", text)."""
        sd = self.side(e)
        if sd and sd[0] == "val":
            return ("same", sd[1])
        ct = _ctor(e)
        if ct:
            var, ops = ct
            inner = strip_refs(ops[0]) if ops else None
            if var == "Number" and inner is not None:
                src = None
                if inner[0] == "payload":
                    src = self.source(inner[2])
                elif inner[0] == "field" and inner[2] == 0 and inner[1][0] == "downcast" and inner[1][2] == "Some":
                    src = self.source(inner[1][1])
                return ("num", src, inner)
            if var == "String" and inner is not None and inner[0] == "call" and inner[1]:
                how = inner[1].get("key") if inner[1].get("local") else inner[1].get("path")
                s0 = self.side(inner[2][0]) if inner[2] else None
                return ("str-of", s0[1] if s0 and s0[0] == "val" else None, how, inner)
            return ("conv", var, inner)
        return ("other", show_expr(strip_refs(e))[:80])

    # ---- atoms -------------------------------------------------------------------------------------------
    def atom(self, key, val, ex):
        """("drop",) infeasible | ("skip",) decided by the model | ("bool", p, truth) the boolean payload of side p |
        ("src", source, state) | ("cmp", reading, truth) | ("unknown", text)"""
        if key[0] == "variant":
            if ex is None:
                return ("unknown", key[1][:80])
            src = self.source(ex)
            if src is None:
                return ("unknown", show_expr(strip_refs(ex))[:80])
            if src[0] == "acc":
                return ("skip",) if (val == "Some") == src[3] else ("drop",)
            if src[0] == "from_f64":
                if isinstance(src[1], float) or (isinstance(src[1], tuple) and src[1][0] == "bool"):
                    if src[1] == src[1] and src[1] not in (float("inf"), float("-inf")):     # finite: always Some
                        return ("skip",) if val == "Some" else ("drop",)
                return ("src", src, val)
            if src[0] == "int":
                return ("src", src, val)
            return ("src", src, val)
        if key[0] in ("cmp", "pure", "expr", "site"):
            if ex is None:
                return ("unknown", str(key)[:100])
            x = optnorm.normalise(strip_refs(ex))
            sd = self.side(x)
            if sd and sd[0] == "payload" and self.kinds[sd[1]] == "Bool" and isinstance(val, bool):
                return ("bool", sd[1], val)
            truth = val
            if key[0] == "cmp":
                # the atom is about the canonicalised comparison; rebuild it from the key's polarity
                x0 = strip_refs(x)
                if x0[0] == "binop":
                    op = x0[1]           # canonical comparison stored by pathsum: its truth is the atom's value
                    r = self.boolean(x0)
                    if r[0] == "const":
                        return ("skip",) if r[1] == truth else ("drop",)
                    # a boolean payload compared with a literal
                    for a_, b_ in ((x0[2], x0[3]), (x0[3], x0[2])):
                        sa = self.side(a_)
                        b0 = strip_refs(b_)
                        if sa and sa[0] == "payload" and self.kinds[sa[1]] == "Bool" and b0[0] == "const" and isinstance(const_value(b0[1]), bool) and op in ("Eq", "Ne"):
                            return ("bool", sa[1], truth == (const_value(b0[1]) == (op == "Eq")))
                    return ("cmp", r, truth)
                return ("unknown", show_expr(x0)[:80])
            r = self.boolean(x)
            if r[0] == "const":
                return ("skip",) if r[1] == truth else ("drop",)
            if r[0] == "unread":
                return ("unknown", r[1])
            return ("cmp", r, truth)
        return ("unknown", str(key)[:100])

    # ---- cases → rows -----------------------------------------------------------------------------------
    def known(self, pe, adt):
        if adt == VALUE:
            x = _peel(pe)
            if x[0] == "arg" and x[1] in (1, 2):
                return self.kinds[x[1]]
        return None

    def rows(self, body, marks=None, depth=0):
        """[(atoms, reading)] of `body`; with `marks` = {param: caller expression} the body is read in its caller's terms."""
        env = {i: ("mark", i) for i in marks} if marks else None

        def sub(e):
            return _subst(e, marks) if marks else e

        def leaks(e):
            return bool(marks) and expr_mentions(e, lambda y: y[0] == "arg")
        cs = optnorm.decision_cases(self.facts, body, known=lambda pe, adt: self.known(sub(pe), adt), env=env)
        if cs is None:
            raise Unread("%s has loops or too many paths to summarise" % body.key.split("::", 1)[1])
        out = []
        for conds, v, p in cs:
            alts = [[]]
            dead = False
            for key, val in conds.items():
                ex = (cs.exprs or {}).get(key)
                if ex is None:
                    ex = optnorm.SRC_EXPRS.get(key)
                if ex is not None:
                    if leaks(ex):
                        raise Unread("a condition of %s is not expressed in its parameters" % body.key.split("::", 1)[1])
                    ex = sub(ex)
                a = self.atom(key, val, ex)
                if a[0] == "drop":
                    dead = True
                    break
                if a[0] == "skip":
                    continue
                if a[0] == "cmp" and a[1][0] == "call":
                    # a two-valued test made by another function of the crate: read that function in place
                    subrows = self.expand(a[1], depth)
                    if subrows is None:
                        alts = [x + [("unknown", "test by %s" % a[1][1].split("::", 1)[1])] for x in alts]
                        continue
                    nxt = []
                    for (a2, r2) in subrows:
                        if r2[0] == "const":
                            if r2[1] == a[2]:
                                nxt.extend(x + a2 for x in alts)
                        else:
                            nxt.extend(x + a2 + [("cmp", r2, a[2])] for x in alts)
                    alts = nxt
                    if not alts:
                        dead = True
                        break
                    continue
                alts = [x + [a] for x in alts]
            if dead:
                continue
            if leaks(v):
                raise Unread("a result of %s is not expressed in its parameters" % body.key.split("::", 1)[1])
            r = self.boolean(optnorm.normalise(strip_refs(sub(v))))
            if r[0] == "call":
                subrows = self.expand(r, depth)
                if subrows is None:
                    r = ("unread", "result of %s" % r[1].split("::", 1)[1])
                else:
                    for atoms in alts:
                        for (a2, r2) in subrows:
                            out.append((atoms + a2, r2))
                    continue
            for atoms in alts:
                out.append((atoms, r))
        return out

    def expand(self, call, depth):
        key, args = call[1], call[2]
        g = self.facts.body(key)
        it = self.facts.items.get(key, {})
        if g is None or depth >= 3 or it.get("output") != "bool" or key == self.s2n:
            return None
        return self.rows(g, marks={i + 1: a for i, a in enumerate(args)}, depth=depth + 1)


class Unread(Exception):
    pass


def _subst(e, marks):
    if not isinstance(e, tuple):
        return e
    if e and e[0] == "mark":
        return marks[e[1]]
    out = []
    for x in e:
        if isinstance(x, tuple):
            out.append(_subst(x, marks))
        elif isinstance(x, list):
            out.append([_subst(y, marks) if isinstance(y, tuple) else y for y in x])
        else:
            out.append(x)
    return tuple(out)


def _fold(rows):
    """`if a == b { true } else { false }` (a comparison used as a branch) is the comparison itself."""
    plain, groups = [], {}
    for atoms, r in rows:
        cm = [a for a in atoms if a[0] == "cmp"]
        if not cm:
            plain.append((atoms, r))
            continue
        if len(cm) > 1 or r[0] != "const":
            plain.append((atoms + [("unknown", "several comparisons decide this case")], r))
            continue
        rest = tuple(sorted(repr(a) for a in atoms if a[0] != "cmp"))
        groups.setdefault((rest, repr(cm[0][1])), {"atoms": [a for a in atoms if a[0] != "cmp"], "reading": cm[0][1], "map": {}})["map"].setdefault(cm[0][2], set()).add(r[1])
    for g in groups.values():
        mp = g["map"]
        if mp.get(True) == {True} and mp.get(False) == {False}:
            plain.append((g["atoms"], g["reading"]))
        elif mp.get(True) == {False} and mp.get(False) == {True}:
            plain.append((g["atoms"], Reader.negate(g["reading"])))
        elif len(mp) == 2 and mp.get(True) == mp.get(False) and len(mp[True]) == 1:
            plain.append((g["atoms"], ("const", next(iter(mp[True])))))
        else:
            plain.append((g["atoms"] + [("unknown", "a comparison decides only part of this case")], ("const", None)))
    return plain


def _view(facts, f, stop):
    """`facts` with the private helpers that `f` reaches (not through `stop`) inlined at their call sites."""
    from . import inline
    try:
        cands = set(inline.candidates(facts.path))
    except Exception:
        return facts
    seen, todo, helpers = set(), [f.key], set()
    while todo:
        k = todo.pop()
        for b in facts.fns():
            if b.key == k or b.key.startswith(k + "::{closure#"):
                for _, t in b.calls():
                    c = callee_of(t)
                    if c and c.get("local") and c.get("key") and c["key"] not in seen and c["key"] not in stop and c["key"] != f.key:
                        seen.add(c["key"])
                        if c["key"] in cands:
                            helpers.add(c["key"])
                            todo.append(c["key"])
    if not helpers:
        return facts
    already = list((facts.inlined or {}).get("helpers", [])) if getattr(facts, "inlined", None) else []
    try:
        v = inline.load_view(facts.path, sorted(set(already) | helpers))
    except Exception:
        return facts
    return v if v.body(f.key) is not None else facts


def decision_matrix(roles, f, str_to_number_key=None, to_string_key=None, assume_distinct=True):
    """{(kind1, kind2): Outcome} read off the decision cases.  Outcome.kind as in spec/arms/*.json, or UNREAD(why)."""
    facts = roles.facts
    stop = {k for k in (str_to_number_key, to_string_key) if k}
    if to_string_key is None:
        for k, it in facts.items.items():
            if it.get("output") == "std::string::String" and it.get("inputs") == ["&serde_json::Value"]:
                stop.add(k)
    view = _view(facts, f, stop)
    fv = view.body(f.key)
    res = {}
    for v1, v2 in itertools.product(KINDS, KINDS):
        rd = Reader(view, fv, {1: v1, 2: v2}, str_to_number_key, assume_distinct)
        o = Outcome()
        try:
            rows = _fold(rd.rows(fv))
            _classify(rd, rows, o)
        except Unread as e:
            o.kind = "UNREAD(%s)" % e
        o.detail.update({"int_accessors": list(rd.int_acc), "value_eq": list(rd.spelling), "view": (getattr(view, "inlined", None) or {}).get("helpers", [])})
        res[(v1, v2)] = o
    # a pair that only re-dispatches with its operands unchanged (typically swapped) is decided as the pair it re-dispatches to
    for _ in range(2):
        for k, o in list(res.items()):
            recs = o.detail.get("rec") or []
            if o.kind.startswith("REC:") and recs and all(all(op[0] == "same" for op in r["operands"]) for r in recs):
                targets = {r["target"] for r in recs}
                if len(targets) == 1:
                    tk = next(iter(targets))
                    if tk != k and tk in res and not res[tk].kind.startswith("REC:"):
                        o2 = Outcome()
                        o2.kind = res[tk].kind
                        o2.detail = dict(res[tk].detail)
                        o2.detail["via"] = "re-dispatch to %s,%s" % tk
                        if any(r["operands"][0] == ("same", 2) for r in recs):
                            o2.kind = re.sub(r"\((\w+),(\w+)\)", lambda mm: "(%s,%s)" % (mm.group(2), mm.group(1)), o2.kind)
                        res[k] = o2
    return res


def _show_atoms(atoms):
    out = []
    for a in atoms:
        if a[0] == "bool":
            out.append("bool payload of operand %d is %s" % (a[1], a[2]))
        elif a[0] == "src":
            out.append("%s is %s" % ("%s(operand %s)" % (a[1][0], a[1][1]) if a[1][0] != "from_f64" else "from_f64(%s)" % (a[1][1],), a[2]))
        elif a[0] == "unknown":
            out.append("? " + a[1])
        else:
            out.append(str(a[:2])[:60])
    return ", ".join(out)


def _classify(rd, rows, o):
    kinds = rd.kinds
    o.detail["rows"] = ["%s ⇒ %s" % (_show_atoms(a) or "always", (r[0],) + tuple(x for x in r[1:] if not isinstance(x, (list, tuple)) or r[0] in ("feq",))) for a, r in rows][:12]
    if not rows:
        o.kind = "UNREAD(no feasible case)"
        return
    if rd.spelling or any(r[0] == "spelling" for _, r in rows):
        o.kind = "SPELLING-EQ"
        return
    if rd.int_acc:
        o.kind = "MIXED-INT/FLOAT" if rd.fcmp else "INT-EQ"
        return
    unread = [r for _, r in rows if r[0] in ("unread", "call", "int-test")]
    unknown = [a for atoms, _ in rows for a in atoms if a[0] == "unknown"]
    recs = [(atoms, r) for atoms, r in rows if r[0] == "rec"]
    if recs:
        rec = []
        for atoms, r in recs:
            tgt = []
            for pos, op in enumerate(r[1], 1):
                if op[0] == "same":
                    tgt.append(kinds[op[1]])
                elif op[0] == "num":
                    tgt.append("Number")
                elif op[0] == "str-of":
                    tgt.append("String")
                elif op[0] == "conv":
                    tgt.append(op[1])
                else:
                    tgt.append("?")
            rec.append({"target": tuple(tgt), "operands": r[1], "atoms": atoms, "site": r[2]})
        others = [(atoms, r) for atoms, r in rows if r[0] != "rec"]
        o.detail["rec"] = rec
        kind = "REC:" + "|".join("(%s,%s)" % t for t in sorted({x["target"] for x in rec}))
        if unread and not any("?" in x["target"] for x in rec):
            o.kind = "UNREAD(%s)" % unread[0][1]
            return
        extra = sorted({"CONST:%s" % str(r[1]).lower() for atoms, r in others if r[0] == "const"} | {r[0].upper() for atoms, r in others if r[0] not in ("const", "unread", "call", "int-test")})
        if extra:
            if unknown and not any("?" in x["target"] for x in rec):
                o.kind = "UNREAD(%s)" % unknown[0][1]
                return
            kind += "|" + "|".join(extra)
        o.kind = kind
        return
    if unread:
        o.kind = "UNREAD(%s)" % unread[0][1]
        return
    consts = {r[1] for _, r in rows if r[0] == "const"}
    nonconst = [(atoms, r) for atoms, r in rows if r[0] != "const"]
    if not nonconst:
        if len(consts) == 1 and None not in consts:
            o.kind = "CONST:%s" % str(next(iter(consts))).lower()
        elif unknown:
            o.kind = "UNREAD(%s)" % unknown[0][1]
        else:
            o.kind = "OTHER(%s)" % "; ".join(o.detail["rows"])[:160]
        return
    fother = [r for _, r in nonconst if r[0] == "fcmp-other"]
    if fother:
        o.kind = "FCMP-OTHER(%s: %s)" % (fother[0][1], fother[0][2][:60])
        return
    if unknown:
        o.kind = "UNREAD(%s)" % unknown[0][1]
        return
    readings = {repr(r) for _, r in nonconst}
    if len(readings) == 1:
        atoms, r = nonconst[0]
        if r[0] in ("streq", "booleq"):
            ok = all(not a for a, _ in nonconst) and not consts
            name = {"streq": ("STREQ", "STRNE"), "booleq": ("BOOLEQ", "BOOLNE")}[r[0]][1 if r[1] else 0]
            o.kind = name if ok else "OTHER(%s)" % "; ".join(o.detail["rows"])[:160]
            return
        if r[0] == "feq":
            op, A, B = r[1], r[2], r[3]
            need = {A, B}
            good = A != B and A[1] != B[1]
            # the comparison is made exactly when both conversions yield a number; everything else is false
            for atoms, _ in nonconst:
                st = {a[1]: a[2] for a in atoms if a[0] == "src"}
                if set(st) != need or any(v != "Some" for v in st.values()) or any(a[0] != "src" for a in atoms):
                    good = False
            for atoms, rr in rows:
                if rr[0] == "const":
                    st = {a[1]: a[2] for a in atoms if a[0] == "src"}
                    if rr[1] is not False or not (set(st) <= need) or "None" not in st.values() or any(a[0] != "src" for a in atoms):
                        good = False
            if good:
                srcs = sorted(x[0] for x in need)
                if srcs == ["as_f64", "as_f64"]:
                    o.kind = "FEQ" if op == "Eq" else "F" + op
                else:
                    ok_sides = all((x[0] == "as_f64" and kinds[x[1]] == "Number") or (x[0] == "s2n" and kinds[x[1]] == "String") for x in need) and srcs == ["as_f64", "s2n"]
                    o.kind = ("NUMSTR" if op == "Eq" else "NUMSTR:" + op) if ok_sides else "OTHER(%s)" % "; ".join(o.detail["rows"])[:160]
                return
    o.kind = "OTHER(%s)" % "; ".join(o.detail["rows"])[:200]
