#!/usr/bin/env python3
"""R-ARMS over pairs: outcome of a two-operand JSON predicate for each of the
36 kind pairs, by variant specialisation of the function and its closures."""
import itertools, re
from .core import (callee_of, callee_path, strip_refs, strip_payload, show_expr, const_value, expr_mentions, op_const, edge_dominates, bool_edge)
from .engine import Inconclusive
from . import prov as P

VALUE = "serde_json::Value"
KINDS = ["Null", "Bool", "Number", "String", "Array", "Object"]


def _payload_of(e, arg, variant=None):
    """Does expression e read the payload of parameter `arg` (optionally of a given variant)?"""
    return expr_mentions(e, lambda x: x[0] == "downcast" and strip_refs(x[1]) == ("arg", arg) and (variant is None or x[2] == variant))


class Outcome:
    def __init__(self):
        self.kind = None
        self.detail = {}

    def __repr__(self):
        return self.kind


def _distinct_refs(x):
    """The operands are distinct references (the rule interface evaluates them into fresh values)."""
    if x[0] == "call" and x[1] and x[1]["path"] == "std::ptr::eq":
        return False
    return None


def pair_matrix(roles, f, to_string_key=None, str_to_number_key=None):
    facts = roles.facts
    unit = roles.unit(f.key)
    res = {}
    for v1, v2 in itertools.product(KINDS, KINDS):
        def assume(e, adt, _a=v1, _b=v2):
            if adt == VALUE and e == ("arg", 1):
                return _a
            if adt == VALUE and e == ("arg", 2):
                return _b
            return None
        restrict = P.specialise_unit(roles, f.key, assume, assume_bool=_distinct_refs)
        res[(v1, v2)] = classify(roles, f, unit, restrict, v1, v2, to_string_key, str_to_number_key)
    # a pair that only re-dispatches with its operands unchanged (typically swapped: `(String, Number) => eq(second, first)`)
    # is decided as the pair it re-dispatches to
    for _ in range(2):
        for k, o in list(res.items()):
            recs = o.detail.get("rec") or []
            if o.kind.startswith("REC:") and recs and all(not conv for (_n, conv, _b, _bi) in recs):
                targets = {n for (n, conv, _b, _bi) in recs}
                if len(targets) == 1:
                    tk = next(iter(targets))
                    if tk != k and tk in res and not res[tk].kind.startswith("REC:"):
                        o2 = Outcome()
                        o2.kind = res[tk].kind
                        o2.detail = dict(res[tk].detail)
                        o2.detail["via"] = "re-dispatch to %s,%s" % tk
                        res[k] = o2
    return res


def classify(roles, f, unit, restrict, v1, v2, to_string_key, str_to_number_key, depth=0):
    facts = roles.facts
    calls = []
    cmps = []
    casts = []
    for b in unit:
        bl = restrict.get(b.key, set())
        for bi in sorted(bl):
            t = b.blocks[bi]["term"]
            if t["k"] == "Call" and callee_of(t):
                calls.append((b, bi, t, callee_of(t)))
            for si, s in enumerate(b.blocks[bi]["stmts"]):
                if s["k"] == "Assign" and s["rv"]["k"] == "BinaryOp" and s["rv"]["op"] in ("Eq", "Ne", "Lt", "Le", "Gt", "Ge"):
                    cmps.append((b, bi, si, s["rv"]))
                if s["k"] == "Assign" and s["rv"]["k"] == "Cast" and s["rv"].get("cast") in ("FloatToInt", "IntToFloat"):
                    casts.append(s["rv"]["cast"])
    blocks = restrict[f.key]
    with f.restricted(blocks):
        r = strip_refs(f.trace(0))
    # recursion
    rec = []
    for (b, bi, t, c) in calls:
        if c.get("key") == f.key:
            nxt = []
            conv = []
            for p, cur in ((1, v1), (2, v2)):
                e = strip_refs(b.xtrace(t["args"][p - 1]))
                if e == ("arg", p):
                    nxt.append(cur)
                elif e == ("arg", 3 - p) and b.key == f.key:
                    nxt.append(v2 if p == 1 else v1)   # the other operand, handed on unchanged (a swap)
                elif e[0] == "agg" and e[1].get("adt") == VALUE:
                    nxt.append(e[1]["variant"])
                    inner = strip_refs(e[2][0]) if e[2] else None
                    if inner is not None and inner[0] == "call" and inner[1]:
                        conv.append((p, inner[1].get("key") if inner[1]["local"] else inner[1]["path"], inner))
                    elif inner is not None:
                        conv.append((p, "payload", inner))
                else:
                    nxt.append("?")
            rec.append((tuple(nxt), conv, b, bi))
    paths = [c["key"] if c["local"] else c["path"] for (_, _, _, c) in calls]
    o = Outcome()
    if rec:
        targets = sorted({x[0] for x in rec})
        o.kind = "REC:" + "|".join("(%s,%s)" % t for t in targets)
        o.detail["rec"] = rec
        return o
    if r[0] == "const" and isinstance(const_value(r[1]), bool) and not [p for p in paths if not p.startswith("std::ptr::eq")]:
        o.kind = "CONST:%s" % str(const_value(r[1])).lower()
        return o
    feq = [c for c in cmps if c[3].get("opty") in ("f64", "f32")]
    other_cmp = [c for c in cmps if c[3].get("opty") not in ("f64", "f32", "bool") and c[3]["op"] != "Eq"]
    as_f64 = [x for x in calls if x[3]["path"] == "serde_json::Number::as_f64"]
    int_acc = [x for x in calls if re.search(r"serde_json::Number::(as_i64|as_u64|is_\w+)$", x[3]["path"])]
    def _spelling(x):
        if re.search(r"<serde_json::(Number|Value) as std::cmp::PartialEq>::(eq|ne)$", x[3]["path"]):
            return True
        for fw in (x[2].get("callee") or {}).get("fwd", []):
            if re.search(r"<serde_json::(Number|Value) as std::cmp::PartialEq>::(eq|ne)$", fw["path"]):
                return True
        return False
    num_eq = [x for x in calls if _spelling(x)]
    s2n = [x for x in calls if str_to_number_key and x[3].get("key") == str_to_number_key]
    streq = [x for x in calls if re.search(r"PartialEq.*::(eq|ne)$", x[3]["path"]) and re.search(r"String|str", x[3].get("full") or x[3]["path"]) and not re.search(r"serde_json::(Number|Value) as", x[3]["path"])]
    booleq = [c for c in cmps if c[3].get("opty") == "bool"] + [x for x in calls if re.search(r"PartialEq.*::(eq|ne)$", x[3]["path"]) and "bool" in (x[3].get("full") or "")]
    o.detail.update({"casts": sorted(casts), "ne_calls": [x[3]["path"] for x in calls if re.search(r"PartialEq.*::ne$", x[3]["path"])], "int_accessors": [x[3]["path"] for x in int_acc], "value_eq": [x[3]["path"] for x in num_eq], "ops": sorted({c[3]["op"] for c in cmps})})
    if num_eq:
        o.kind = "SPELLING-EQ"
    elif int_acc and feq:
        o.kind = "MIXED-INT/FLOAT"
    elif int_acc:
        o.kind = "INT-EQ"
    elif s2n and as_f64 and feq:
        o.kind = "NUMSTR" if all(c[3]["op"] == "Eq" for c in feq) else "NUMSTR:" + ",".join(sorted({c[3]["op"] for c in feq}))
    elif len(as_f64) >= 2 and feq:
        o.kind = "FEQ" if all(c[3]["op"] == "Eq" for c in feq) else "F" + ",".join(sorted({c[3]["op"] for c in feq}))
    elif streq and not feq:
        o.kind = "STREQ" if all(x[3]["path"].endswith("::eq") for x in streq) else "STRNE"
    elif booleq and not feq:
        o.kind = "BOOLEQ"
    else:
        # plain delegation of this pair to another two-value predicate of the crate with the same operands:
        # the outcome is that predicate's outcome for the same pair
        dele = [x for x in calls if x[3]["local"] and x[3].get("key") != f.key and facts.items.get(x[3]["key"], {}).get("output") == "bool"
                and facts.items[x[3]["key"]].get("inputs") == ["&serde_json::Value", "&serde_json::Value"]]
        if len(dele) == 1 and depth == 0:
            b, bi, t, c = dele[0]
            args = [strip_refs(b.xtrace(a)) for a in t["args"]]
            rr = strip_refs(r)
            direct = rr[0] == "call" and rr[3] == bi and b.key == f.key
            if args == [("arg", 1), ("arg", 2)] and direct:
                g = facts.body(c["key"])
                gunit = roles.unit(g.key)

                def assume(e, adt, _a=v1, _b=v2):
                    if adt == VALUE and e == ("arg", 1):
                        return _a
                    if adt == VALUE and e == ("arg", 2):
                        return _b
                    return None
                grestrict = P.specialise_unit(roles, g.key, assume, assume_bool=_distinct_refs)
                return classify(roles, g, gunit, grestrict, v1, v2, to_string_key, str_to_number_key, depth + 1)
        o.kind = "OTHER(%s)" % ",".join(sorted({p.rsplit("::", 1)[-1] for p in paths}))[:80]
    return o
