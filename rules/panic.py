#!/usr/bin/env python3
"""R-PANIC — panic sources and their justifications; loops; recursion.

A panic source is: an Assert terminator (overflow, division, bounds), a call
of a function classified panicky in spec/api/panicky.tsv, an explicit panic.
Every source in a body reachable from an entry point must be discharged by
one of the justification analyses below; an external callee that is in
neither table (and not in a trusted dependency crate) is INCONCLUSIVE.
"""
import os, re
from .core import (callee_of, callee_path, op_const, const_value, strip_refs, strip_payload, show_expr,
                   edge_dominates, switch_edges_for_variant, bool_edge, expr_mentions, option_guards)
from .engine import Inconclusive, VERIF

API = os.path.join(VERIF, "spec", "api")


def _load(name):
    rows = []
    for line in open(os.path.join(API, name)):
        line = line.rstrip("\n")
        if not line or line.startswith("#"):
            continue
        parts = line.split("\t")
        rows.append(parts)
    return rows


class Api:
    def __init__(self):
        self.panicky = [(re.compile(r[0]), r[1], r[2] if len(r) > 2 else "") for r in _load("panicky.tsv")]
        self.total = [(re.compile(r[0]), r[1] if len(r) > 1 else "") for r in _load("total.tsv")]
        self.deps = {r[0]: (r[1], r[2] if len(r) > 2 else "") for r in _load("deps.tsv")}

    def classify(self, c):
        """('panicky', rule, reason) | ('total', reason) | ('dep', crate) | ('unknown',)"""
        p = c["path"]
        forms = [p]
        # rustc prints a trait method either as `<T as Trait>::m` or as `module::<impl Trait for T>::m`: one meaning
        m = re.match(r"^(?:[\w:]+::)?<impl (.+) for (.+)>::(\w+)$", p)
        if m:
            forms.append("<%s as %s>::%s" % (m.group(2), m.group(1), m.group(3)))
        for f in forms:
            for rx, rule, reason in self.panicky:
                if rx.search(f):
                    return ("panicky", rule, reason)
        if c["crate"] in self.deps:
            return ("dep", c["crate"])
        for f in forms:
            for rx, reason in self.total:
                if rx.search(f):
                    return ("total", reason)
        return ("unknown",)


# ---------------------------------------------------------------- value sets
def value_set(facts, body, e, depth=0):
    """Set of possible integer values of expression e, or None if unknown.
    Follows phis, Some-payloads, integer casts, closure captures and — for
    functions that are not externally visible — parameters back to all call sites."""
    if depth > 12:
        return None
    e = strip_refs(e)
    k = e[0]
    if k == "const":
        v = const_value(e[1])
        return {v} if isinstance(v, int) and not isinstance(v, bool) else None
    if k == "phi":
        out = set()
        for x in e[2]:
            s = value_set(facts, body, x, depth + 1)
            if s is None:
                return None
            out |= s
        return out
    if k == "cast" and e[1] in ("IntToInt",):
        return value_set(facts, body, e[2], depth + 1)
    if k == "field" and e[2] == 0 and e[1][0] == "binop" and e[1][1] in ("AddWithOverflow", "SubWithOverflow", "MulWithOverflow"):
        return value_set(facts, body, e[1], depth + 1)       # the value component of a checked operation
    if k == "binop" and e[1] in ("Add", "AddWithOverflow", "AddUnchecked", "Sub", "SubWithOverflow", "SubUnchecked", "Mul", "MulWithOverflow"):
        xs, ys = value_set(facts, body, e[2], depth + 1), value_set(facts, body, e[3], depth + 1)
        if xs is None or ys is None or len(xs) * len(ys) > 64:
            return None
        f = (lambda x, y: x + y) if e[1].startswith("Add") else (lambda x, y: x - y) if e[1].startswith("Sub") else (lambda x, y: x * y)
        return {f(x, y) for x in xs for y in ys}
    if k == "field" and isinstance(e[2], int):
        # a column of a constant table walked by an iterator: `for (prefix, radix) in TABLE.iter()` — the values the
        # column can take are the constants in that position of the table's rows
        rows = _const_table_rows(facts, body, e[1])
        if rows is not None:
            out = set()
            for r in rows:
                r = strip_refs(r)
                if r[0] != "agg" or e[2] >= len(r[2]):
                    return None
                sv = value_set(facts, body, r[2][e[2]], depth + 1)
                if sv is None:
                    return None
                out |= sv
            return out
    if k == "field" and e[1][0] == "downcast" and e[1][2] == "Some":
        r = option_payload_set(facts, body, e[1][1], depth + 1)
        if r is not None:
            return r
    if k == "field":
        # a component of a value built elsewhere — in another arm, or in a private function that returns it
        # (`Some((radix, digits))`): the constructors that can have built it, read through calls, phis and projections
        alts = constructed(facts, body, e)
        if alts is not None:
            out = set()
            for (b2, x2) in alts:
                if strip_refs(x2) == e and b2 is body:
                    return None
                sv = value_set(facts, b2, x2, depth + 1)
                if sv is None:
                    return None
                out |= sv
            return out
    if k == "field" and body.kind == "closure" and strip_refs(e[1]) == ("arg", 1):
        cr = body.creator()
        if cr is None:
            return None
        return value_set(facts, cr[0], cr[0].trace(cr[1][e[2]]), depth + 1)
    if k == "arg":
        if body.kind != "fn":
            return None
        it = facts.items.get(body.key, {})
        if it.get("reachable") or it.get("exported"):
            return None
        out = set()
        n = 0
        for cb in facts.fns():
            for bi, t in cb.calls():
                c = callee_of(t)
                if c and c.get("key") == body.key:
                    n += 1
                    s = value_set(facts, cb, cb.trace(t["args"][e[1] - 1]), depth + 1)
                    if s is None:
                        return None
                    out |= s
        # the function must not escape as a value
        for cb in facts.fns():
            cg, _ = facts.callgraph()
        return out if n else None
    return None


def constructed(facts, body, e, depth=0):
    """[(body, expr)]: the expressions one of which `e` evaluates to, with projections (`.i`, `as Variant`) applied to
    the constructors they select — followed through several definitions (phi) and through the return value of local
    functions.  None when a projection meets something that is not a visible constructor."""
    if depth > 10:
        return None
    e = strip_refs(e)
    if e[0] == "phi":
        out = []
        for x in e[2]:
            r = constructed(facts, body, x, depth + 1)
            if r is None:
                return None
            out += r
        return out
    if e[0] == "call" and e[1] and e[1].get("local"):
        cb = facts.body(e[1]["key"])
        if cb is not None and cb.kind == "fn":
            return constructed(facts, cb, cb.trace(0), depth + 1)
        return [(body, e)]
    if e[0] in ("field", "downcast"):
        inner = constructed(facts, body, e[1], depth + 1)
        if inner is None:
            return None
        out = []
        for (b2, x2) in inner:
            x2 = strip_refs(x2)
            if x2[0] != "agg":
                return None
            if e[0] == "downcast":
                if x2[1].get("variant") == e[2]:
                    out.append((b2, x2))
                elif x2[1].get("variant") is None:
                    return None
                continue
            if e[2] >= len(x2[2]):
                return None
            r = constructed(facts, b2, x2[2][e[2]], depth + 1)
            if r is None:
                return None
            out += r
        return out
    return [(body, e)]


def _const_table_rows(facts, body, e):
    """Rows (aggregate expressions) of the constant array whose elements the expression e ranges over, or None."""
    e = strip_refs(e)
    if not (e[0] == "field" and e[2] == 0 and e[1][0] == "downcast" and e[1][2] == "Some"):
        return None
    src = strip_refs(e[1][1])
    if not (src[0] == "call" and src[1] and src[1]["path"].endswith("::next") and src[2]):
        return None
    it = strip_refs(src[2][0])
    hops = 0
    while it[0] == "call" and it[1] and re.search(r"(::iter|::into_iter|IntoIterator>::into_iter|Deref>::deref|::as_slice)$", it[1]["path"]) and it[2] and hops < 6:
        it = strip_refs(it[2][0])
        hops += 1
    while it[0] == "cast" and str(it[1]).startswith("PointerCoercion"):
        it = strip_refs(it[2])
    if it[0] == "const" and it[1].get("item"):
        cb = facts.body(it[1]["item"])
        if cb is not None:
            arr = strip_refs(cb.trace(0))
            if arr[0] == "agg" and arr[1].get("agg") == "Array":
                return list(arr[2])
    if it[0] == "agg" and it[1].get("agg") == "Array":
        return list(it[2])
    return None


def option_payload_set(facts, body, e, depth):
    e = strip_refs(e)
    if e[0] == "agg" and e[1].get("variant") == "Some":
        return value_set(facts, body, e[2][0], depth + 1)
    if e[0] == "agg" and e[1].get("variant") == "None":
        return set()
    if e[0] == "phi":
        out = set()
        for x in e[2]:
            s = option_payload_set(facts, body, x, depth + 1)
            if s is None:
                return None
            out |= s
        return out
    return None


def always_some(e, depth=0):
    """Abstract evaluation: is this Option expression Some on every path?"""
    e = strip_refs(e)
    if depth > 10:
        return False
    if e[0] == "agg":
        return e[1].get("variant") == "Some"
    if e[0] == "phi":
        return all(always_some(x, depth + 1) for x in e[2])
    if e[0] == "call" and e[1]:
        p = e[1]["path"]
        if p in ("std::option::Option::<T>::or", "std::option::Option::<T>::xor"):
            return p.endswith("::or") and (always_some(e[2][0], depth + 1) or always_some(e[2][1], depth + 1))
        if p in ("std::option::Option::<T>::map", "std::option::Option::<T>::as_ref", "std::option::Option::<T>::as_mut", "std::option::Option::<&T>::cloned", "std::option::Option::<&T>::copied", "std::option::Option::<T>::inspect"):
            return always_some(e[2][0], depth + 1)
        if p == "std::option::Option::<T>::or_else":
            return always_some(e[2][0], depth + 1)
    return False


# ------------------------------------------------------------------ sources
class Source:
    def __init__(self, body, bi, kind, what, rule, reason=""):
        self.body, self.bi, self.kind, self.what, self.rule, self.reason = body, bi, kind, what, rule, reason
        self.just = None

    def ident(self, ordinal):
        return "%s|%s|%d" % (self.body.key.split("::", 1)[1], self.what, ordinal)


IGNORED_ASSERTS = {"MisalignedPointerDereference", "NullPointerDereference", "InvalidEnumConstruction"}


def sources_of(api, body):
    out = []
    unknown = []
    for bi in sorted(body.reachable()):
        t = body.blocks[bi]["term"]
        if t["k"] == "Assert":
            if t["msg"] in IGNORED_ASSERTS:
                continue
            out.append(Source(body, bi, "assert", t["msg"], "assert", t.get("msg_full", "")))
        elif t["k"] in ("Call", "TailCall"):
            c = callee_of(t)
            if c is None or c["local"]:
                continue
            cl = api.classify(c)
            if cl[0] == "panicky":
                out.append(Source(body, bi, "call", c["path"], cl[1], cl[2]))
            elif cl[0] == "unknown":
                unknown.append((body, bi, c["path"]))
    return out, unknown


# ----------------------------------------------------------- justifications
def justify(facts, roles, arity, src, table):
    """Return a justification string or None."""
    b, bi = src.body, src.bi
    t = b.blocks[bi]["term"]
    rule = src.rule
    if rule == "table":
        return None
    if rule == "assert":
        if t.get("msg") == "BoundsCheck":
            return j_bounds(facts, roles, arity, b, bi, t)
        return j_assert(facts, b, bi, t)
    if rule in ("some", "ok"):
        return j_unwrap(facts, b, bi, t, "Some" if rule == "some" else "Ok")
    if rule == "index":
        return j_index(facts, roles, arity, b, bi, t)
    if rule.startswith("radix:"):
        i = int(rule.split(":")[1])
        s = value_set(facts, b, b.trace(t["args"][i]))
        if s is not None and s and all(2 <= v <= 36 for v in s):
            return "J4' value-set: radix ∈ %s ⊆ [2,36] on every path (constants traced through captures/parameters to all call sites)" % sorted(s)
        return None
    if rule.startswith("nonzero:"):
        i = int(rule.split(":")[1])
        s = value_set(facts, b, b.trace(t["args"][i]))
        if s is not None and s and all(v != 0 for v in s):
            return "J4 constant operand: %s never 0" % sorted(s)
        return None
    if rule.startswith("cap:"):
        a = t["args"][-1] if rule.endswith("last") else t["args"][int(rule.split(":")[1])]
        e = strip_refs(b.xtrace(a))
        if e[0] == "const":
            return "J4 constant capacity %s" % const_value(e[1])
        if e[0] == "call" and e[1] and e[1]["path"].endswith("::len"):
            return "J4 capacity is the length of an existing in-memory collection"
        return None
    if rule == "strslice":
        return j_str_slice(facts, b, bi, t)
    if rule == "panic":
        return j_dead_by_length(facts, arity, b, bi)
    if rule == "floatsum":
        targs = t["callee"].get("targs", [])
        if targs and all(x in ("f64", "f32") or not re.search(r"\b[iu](8|16|32|64|128|size)\b", x) for x in targs) and any(x in ("f64", "f32") for x in targs):
            return "sum/product over floats cannot overflow-panic"
        return None
    return None


CONVERSION = re.compile(r"as std::convert::(TryInto|Into|TryFrom|From)<.*>>::(try_into|into|try_from|from)$|^std::convert::(TryInto|Into|TryFrom|From)::(try_into|into|try_from|from)$")
ABS_CALL = re.compile(r"^core::num::<impl [iu](8|16|32|64|128|size)>::(unsigned_abs|abs|abs_diff)$")


def _same_value(e):
    """Peel what does not change an integer's value: references, `?`/ok()/payload plumbing, integer conversions that
    succeeded, widening casts."""
    while True:
        e2 = strip_payload(e)
        if e2[0] == "call" and e2[1] and CONVERSION.search(e2[1]["path"]) and len(e2[2]) == 1:
            e = e2[2][0]
            continue
        return e2


def int_interval(body, e, at, depth=0):
    """[lo, hi] (None = unbounded) of an integer expression at block `at`, from constants, from the comparisons that
    hold on every path to `at` (core.implied_comparisons: dominating tests, whatever statement spells them) and
    through |x|."""
    from .core import implied_comparisons
    e = _same_value(e)
    if e[0] == "const":
        v = const_value(e[1])
        if isinstance(v, int) and not isinstance(v, bool):
            return (v, v)
        return (None, None)
    lo = hi = None
    if e[0] == "call" and e[1] and ABS_CALL.match(e[1]["path"]) and e[1]["path"].endswith(("unsigned_abs", "::abs")) and depth < 3:
        xl, xh = int_interval(body, e[2][0], at, depth + 1)
        if xl is not None and xl > 0:
            lo = xl
        elif xh is not None and xh < 0:
            lo = -xh
        else:
            lo = 0
        if xl is not None and xh is not None:
            hi = max(abs(xl), abs(xh))
    tys = ""
    for (op, x, y) in implied_comparisons(body, at):
        x, y = _same_value(x), _same_value(y)
        if y == e and x[0] == "const":
            x, y, op = y, x, CMP_FLIP[op]
        if x != e or y[0] != "const":
            continue
        k = const_value(y[1])
        if not isinstance(k, int) or isinstance(k, bool):
            continue
        if op in ("Ge", "Eq"):
            lo = k if lo is None else max(lo, k)
        if op == "Gt":
            lo = k + 1 if lo is None else max(lo, k + 1)
        if op in ("Le", "Eq"):
            hi = k if hi is None else min(hi, k)
        if op == "Lt":
            hi = k - 1 if hi is None else min(hi, k - 1)
        if op == "Ne" and lo is not None and lo == k:
            lo = k + 1
    return (lo, hi)


def guarded_sub(b, bi, rv):
    """a - b cannot wrap: a test that a >= b (or a > b) of the same operands holds on every path here, or the interval
    of a (from the dominating comparisons, through |x| and value-preserving conversions) lies above that of b."""
    from .core import implied_comparisons
    a, c = strip_refs(b.trace(rv["a"])), strip_refs(b.trace(rv["b"]))
    for (op, x, y) in implied_comparisons(b, bi):
        if (op in ("Gt", "Ge") and (x, y) == (a, c)) or (op in ("Lt", "Le") and (y, x) == (a, c)):
            return "a test that a >= b holds on every path to the subtraction"
    alo, _ = int_interval(b, a, bi)
    _, chi = int_interval(b, c, bi)
    if alo is not None and chi is not None and alo >= chi:
        return "the minuend is at least %d and the subtrahend at most %d on every path to the subtraction" % (alo, chi)
    return None


def j_counter(b, bi):
    """`n + 1` on a 64-bit-or-wider counter that starts at the constant 0 and is only ever incremented by this very
    addition, inside a loop that advances a finite std iterator: at most one increment per element of an in-memory
    collection, so it cannot reach 2^64."""
    add = None
    for s in b.blocks[bi]["stmts"]:
        if s["k"] == "Assign" and s["rv"]["k"] == "BinaryOp" and s["rv"]["op"] in ("AddWithOverflow", "Add") and re.match(r"^(u64|usize|u128|i64|i128)$", s["rv"].get("opty") or ""):
            add = s
    if add is None:
        return None
    rv = add["rv"]
    one = rv["b"]["k"] == "Const" and str(rv["b"]["const"].get("int")) == "1"
    if not one or rv["a"]["k"] not in ("Copy", "Move") or rv["a"]["place"]["proj"]:
        return None
    # the counter variable: follow single-definition copies
    l = rv["a"]["place"]["local"]
    for _ in range(4):
        ds = b.defs().get(l, [])
        if len(ds) == 1 and ds[0][0] == "stmt" and ds[0][3]["k"] == "Use" and ds[0][3]["op"]["k"] in ("Copy", "Move") and not ds[0][3]["op"]["place"]["proj"]:
            l = ds[0][3]["op"]["place"]["local"]
        else:
            break
    ds = b.defs().get(l, [])
    if not ds or any(d[0] != "stmt" for d in ds):
        return None
    tmp = add["place"]["local"]
    inits, incs, other = 0, 0, 0
    for d in ds:
        r = d[3]
        if r["k"] == "Use" and r["op"]["k"] == "Const" and str(r["op"]["const"].get("int")) == "0":
            inits += 1
        elif r["k"] == "Use" and r["op"]["k"] in ("Copy", "Move") and r["op"]["place"]["local"] == tmp:
            incs += 1
        else:
            other += 1
    if inits < 1 or incs != 1 or other:
        return None
    for (h, blocks, srcs) in loops_of(b):
        if bi in blocks and loop_bounded(b, h, blocks, srcs):
            return "J4 counter: starts at 0, incremented only here by 1, at most once per iteration of a loop over a finite std iterator — cannot reach 2^64"
    return None


# --------------------------------------------------------- monotone counters
# One statement for "a 64-bit counter cannot overflow", whatever carries the counter: the storage (a fold accumulator, a
# struct field, a local) is only ever *initialised with a small constant* or *stepped by a small positive constant*.
# Reaching 2^63 then takes more than 2^47 steps of the program — no input of the property's quantifier gets there.
# Anything else that writes the storage (an operand-controlled value, a sum, a product) leaves the source unjustified.
SMALL_STEP = 1 << 16
WIDE_INT = re.compile(r"^(u64|i64|u128|i128)$")
FOLD_CALL = re.compile(r"(^std::iter::Iterator::|as std::iter::Iterator>::|as std::iter::DoubleEndedIterator>::)(fold|try_fold|rfold|try_rfold)$")


def _small_const(o):
    if o.get("k") != "Const":
        return None
    try:
        v = int(str(o["const"].get("int")))
    except (TypeError, ValueError):
        return None
    return v if abs(v) <= SMALL_STEP else None


def _overflow_add(b, bi):
    """The checked addition `x + c` (c a small positive constant) whose Overflow assert ends block bi."""
    for s in b.blocks[bi]["stmts"]:
        if s["k"] == "Assign" and s["rv"]["k"] == "BinaryOp" and s["rv"]["op"] in ("AddWithOverflow", "Add") and WIDE_INT.match(s["rv"].get("opty") or ""):
            c = _small_const(s["rv"]["b"])
            if c is not None and c > 0 and s["rv"]["a"]["k"] in ("Copy", "Move"):
                return s
    return None


def _is_step_of(e, same):
    """e is `x + c` (checked or not) with x accepted by `same` and c a small positive constant."""
    e = strip_refs(e)
    if e[0] == "field" and e[2] == 0:
        e = strip_refs(e[1])
    if e[0] == "binop" and e[1] in ("AddWithOverflow", "Add", "AddUnchecked"):
        c = strip_refs(e[3])
        if c[0] == "const" and isinstance(const_value(c[1]), int) and not isinstance(const_value(c[1]), bool) and 0 < const_value(c[1]) <= SMALL_STEP:
            return same(e[2])
    return False


def j_counter_fold(facts, b, bi, add):
    """The counter is the accumulator of a fold: seeded with a small constant, every path of the step function returns
    the accumulator unchanged, the accumulator plus a small constant, or an error."""
    from . import pathsum
    if b.kind != "closure" or b.arg_count < 3:
        return None
    cr = b.creator()
    if cr is None:
        return None
    cb = cr[0]
    site = None
    for cbi, ct in cb.calls():
        if not FOLD_CALL.search(callee_path(ct) or "") or len(ct["args"]) < 3:
            continue
        f = strip_refs(cb.trace(ct["args"][2]))
        if f[0] == "agg" and f[1].get("closure") == b.key:
            site = (cbi, ct)
    if site is None:
        return None
    seed = strip_payload(cb.xtrace(site[1]["args"][1]))
    while seed[0] == "cast" and seed[1] == "IntToInt":
        seed = strip_refs(seed[2])
    if seed[0] != "const" or not isinstance(const_value(seed[1]), int) or isinstance(const_value(seed[1]), bool) or abs(const_value(seed[1])) > SMALL_STEP:
        return None
    acc = ("arg", 2)
    same = lambda x: strip_payload(x) == acc
    if not same(b.trace(add["rv"]["a"])):
        return None
    w = pathsum.summarize(b)
    if w.overflow or not w.paths:
        return None
    kinds = {"same": 0, "step": 0, "error": 0}
    for p in w.paths:
        if p.truncated or p.result is None:
            return None
        r = strip_refs(p.result)
        if (r[0] == "call" and r[1] is not None and "from_residual" in r[1].get("path", "")) or (r[0] == "agg" and r[1].get("variant") == "Err"):
            kinds["error"] += 1
            continue
        y = r
        while y[0] == "agg" and y[1].get("variant") in ("Ok", "Some") and len(y[2]) == 1:
            y = strip_refs(y[2][0])
        if _is_step_of(y, same):
            kinds["step"] += 1
        elif same(y):
            kinds["same"] += 1
        else:
            return None
    return "J4 counter: accumulator of %s seeded with %s; on each of the %d paths of the step function it is returned unchanged (%d), plus a small constant (%d) or the fold ends with an error (%d) — a 64-bit value stepped by a constant cannot overflow" % (
        (callee_path(site[1]) or "").rsplit("::", 1)[-1], const_value(seed[1]), len(w.paths), kinds["same"], kinds["step"], kinds["error"])


def j_counter_field(facts, b, bi, add):
    """The counter is a field of one of the crate's structs: every write of that field anywhere in the crate is a small
    constant (constructor), a copy of the same field of another value of the struct, or the field plus a small constant;
    no mutable reference to the field itself is ever taken."""
    pl = add["rv"]["a"]["place"]
    fl = [p for p in pl["proj"] if p["k"] != "Deref"]
    if len(fl) != 1 or fl[0]["k"] != "Field":
        return None
    adt = b.locals[pl["local"]].get("adt") or ""
    info = facts.adts.get(adt)
    if not info or info.get("kind") != "struct" or adt.startswith(("std::", "core::", "alloc::", "serde_json::")):
        return None
    fi = fl[0]["i"]

    def field_of(body, place):
        """place is exactly field fi of a value of the struct (through references)"""
        pr = [p for p in place["proj"] if p["k"] != "Deref"]
        return len(pr) == 1 and pr[0]["k"] == "Field" and pr[0]["i"] == fi and (body.locals[place["local"]].get("adt") or "") == adt

    def is_field_expr(body, e):
        e = strip_refs(e)
        if e[0] != "field" or e[2] != fi:
            return False
        return True

    n_init = n_step = n_copy = 0
    for ob in facts.fns():
        for obi, si, s in ob.stmts():
            if s["k"] != "Assign":
                continue
            rv = s["rv"]
            # a reference to (or into) the field escapes: its writes can no longer be enumerated
            if rv["k"] in ("Ref", "RawPtr") and rv.get("mut") and any(p["k"] == "Field" and p["i"] == fi for p in rv["place"]["proj"]) and (ob.locals[rv["place"]["local"]].get("adt") or "") == adt \
                    and [p for p in rv["place"]["proj"] if p["k"] != "Deref"][0]["k"] == "Field" and [p for p in rv["place"]["proj"] if p["k"] != "Deref"][0]["i"] == fi:
                return None
            if rv["k"] == "Aggregate" and rv.get("adt") == adt and rv.get("agg") == "Adt":
                if fi >= len(rv["ops"]):
                    return None
                o = rv["ops"][fi]
                if _small_const(o) is not None:
                    n_init += 1
                elif o["k"] in ("Copy", "Move") and (field_of(ob, o["place"]) or is_field_expr(ob, ob.trace(o)) and _same_struct_field(ob, ob.trace(o), adt)):
                    n_copy += 1
                else:
                    return None
                continue
            if field_of(ob, s["place"]):
                if rv["k"] == "Use" and _small_const(rv["op"]) is not None:
                    n_init += 1
                elif rv["k"] == "Use" and rv["op"]["k"] in ("Copy", "Move") and _is_step_of(ob.trace(rv["op"]), lambda x, _ob=ob: _same_struct_field(_ob, x, adt, fi)):
                    n_step += 1
                elif rv["k"] == "Use" and rv["op"]["k"] in ("Copy", "Move") and field_of(ob, rv["op"]["place"]):
                    n_copy += 1
                else:
                    return None
    if not n_init:
        return None
    return "J4 counter: field %s.%s is written only by small constants (%d), copies of the same field (%d) and `field + small constant` (%d) anywhere in the crate, and never borrowed mutably on its own — a 64-bit value stepped by a constant cannot overflow" % (
        adt.rsplit("::", 1)[-1], (info["variants"][0].get("fields") or [])[fi] if fi < len(info["variants"][0].get("fields") or []) else fi, n_init, n_copy, n_step)


def _same_struct_field(body, e, adt, fi=None):
    """e reads field fi of a value whose type is the struct `adt` (a parameter, a local, through references)."""
    e = strip_refs(e)
    if e[0] != "field" or (fi is not None and e[2] != fi):
        return False
    base = strip_refs(e[1])
    if base[0] == "arg":
        return (body.locals[base[1]].get("adt") or "") == adt
    if base[0] == "agg":
        return base[1].get("adt") == adt
    if base[0] in ("phi", "partial"):
        return (body.locals[base[1]].get("adt") or "") == adt
    return False


INT_RANGE = {"u8": (0, 2**8 - 1), "u16": (0, 2**16 - 1), "u32": (0, 2**32 - 1), "u64": (0, 2**64 - 1), "usize": (0, 2**64 - 1), "u128": (0, 2**128 - 1),
             "i8": (-2**7, 2**7 - 1), "i16": (-2**15, 2**15 - 1), "i32": (-2**31, 2**31 - 1), "i64": (-2**63, 2**63 - 1), "isize": (-2**63, 2**63 - 1), "i128": (-2**127, 2**127 - 1)}


def j_value_range(facts, b, bi):
    """A checked `x op y` cannot overflow when the values both operands can take are known constants (written in
    place, or parameters of a private function over all its call sites, through captures, phis and sums) and every
    combination of them stays inside the range of the type."""
    for s in b.blocks[bi]["stmts"]:
        if s["k"] == "Assign" and s["rv"]["k"] == "BinaryOp" and s["rv"]["op"] in ("AddWithOverflow", "SubWithOverflow", "MulWithOverflow") and (s["rv"].get("opty") or "") in INT_RANGE:
            rv = s["rv"]
            xs, ys = value_set(facts, b, b.trace(rv["a"])), value_set(facts, b, b.trace(rv["b"]))
            if not xs or not ys or len(xs) * len(ys) > 64:
                return None
            f = (lambda x, y: x + y) if rv["op"].startswith("Add") else (lambda x, y: x - y) if rv["op"].startswith("Sub") else (lambda x, y: x * y)
            lo, hi = INT_RANGE[rv["opty"]]
            if all(lo <= f(x, y) <= hi for x in xs for y in ys):
                return "J4' value-set: operands ∈ %s and %s on every path (constants traced through parameters to all call sites): %s stays inside %s" % (sorted(xs), sorted(ys), rv["op"].replace("WithOverflow", "").lower(), rv["opty"])
            return None
    return None


def j_assert(facts, b, bi, t):
    msg = t["msg"]
    if msg == "Overflow":
        j = j_counter(b, bi)
        if j:
            return j
        j = j_value_range(facts, b, bi)
        if j:
            return j
        add = _overflow_add(b, bi)
        if add is not None:
            j = j_counter_fold(facts, b, bi, add) or j_counter_field(facts, b, bi, add)
            if j:
                return j
        for s in b.blocks[bi]["stmts"]:
            if s["k"] == "Assign" and s["rv"]["k"] == "BinaryOp" and s["rv"]["op"].startswith("Sub") and re.match(r"^u(8|16|32|64|128|size)$", s["rv"].get("opty") or ""):
                g = guarded_sub(b, bi, s["rv"])
                if g:
                    return "J1 guard: unsigned a - b where " + g
                a_, b_ = strip_payload(b.trace(s["rv"]["a"])), strip_payload(b.trace(s["rv"]["b"]))
                if a_[0] == "call" and a_[1] and a_[1]["path"] in STR_LEN and a_[2] and _own_char_width(b_, strip_refs(a_[2][0])) in ("first", "last"):
                    return "J1 own character: s.len() minus the UTF-8 width of a character of s itself (a string is at least as long as one of its characters)"
        return None
    if msg in ("DivisionByZero", "RemainderByZero"):
        # cond = Eq(divisor, 0) expected false; find divisor in the BinaryOp that follows
        tgt = b.blocks[t["target"]]
        for blk in (b.blocks[bi], tgt):
            for s in blk["stmts"]:
                if s["k"] == "Assign" and s["rv"]["k"] == "BinaryOp" and s["rv"]["op"] in ("Div", "Rem"):
                    d = strip_refs(b.trace(s["rv"]["b"]))
                    if d[0] == "const" and isinstance(const_value(d[1]), int) and const_value(d[1]) != 0:
                        return "J4 constant divisor %s" % const_value(d[1])
        return None
    return None


def j_unwrap(facts, b, bi, t, variant):
    recv = b.trace(t["args"][0])
    if variant == "Some" and always_some(recv):
        return "J2 constructor flow: receiver is Some on every path (%s)" % show_expr(strip_refs(recv))[:120]
    r0 = strip_refs(recv)
    if r0[0] in ("phi", "partial", "undef"):
        return None
    for (sb, t_some, t_none) in option_guards(b, lambda x: x == r0):
        if edge_dominates(b, sb, t_some, bi) and t_some != t_none:
            return "J1 discriminant guard: dominated by the %s edge of the test at bb%d on the same value" % (variant, sb)
    return None


# ------------------------------------------------------------- str slicing
# `s[a..b]` panics unless every bound is a char boundary of s that is <= s.len() (and a <= b).  A bound is read as an
# *offset of s* from where its value comes from — never from how the slicing is spelled:
#   0 and s.len(); the position reported by a search of s (find/rfind, the positions of match_indices/char_indices);
#   a constant k when every path here has established that s has at least k bytes and that byte k-1 is ASCII (so byte k
#   starts a character); a choice between offsets (phi, unwrap_or).  A count of characters, a length of another string,
#   a number taken from an operand are not offsets: the source stays unjustified.
STR_SEARCH = re.compile(r"^core::str::<impl str>::(find|rfind)$")
STR_POSITIONS = re.compile(r"^core::str::<impl str>::(match_indices|rmatch_indices|char_indices)$")
ITEM_GETTER = re.compile(r"(^std::iter::(Iterator|DoubleEndedIterator)::|as std::iter::(Iterator|DoubleEndedIterator)>::)(next|next_back|nth|nth_back|last|find|rfind|min|max)$")
STR_LEN = ("core::str::<impl str>::len", "std::string::String::len")


def _bytes_of(e, recv):
    """e is the byte view of the string recv"""
    e = strip_refs(e)
    return e[0] == "call" and e[1] and e[1]["path"] in ("core::str::<impl str>::as_bytes", "std::string::String::as_bytes") and e[2] and strip_refs(e[2][0]) == recv


def _ascii_prefix(b, at, recv, k):
    from .core import implied_comparisons
    long_enough = False
    for (op, x, y) in implied_comparisons(b, at):
        x, y = strip_refs(x), strip_refs(y)
        if y[0] != "const" and x[0] == "const":
            x, y, op = y, x, CMP_FLIP[op]
        is_len = (x[0] == "unop" and x[1] == "PtrMetadata" and _bytes_of(x[2], recv)) or (x[0] == "call" and x[1] and ((x[1]["path"] in STR_LEN and strip_refs(x[2][0]) == recv) or (x[1]["path"] == "core::slice::<impl [T]>::len" and _bytes_of(x[2][0], recv))))
        if not is_len or y[0] != "const" or not isinstance(const_value(y[1]), int):
            continue
        v = const_value(y[1])
        if (op in ("Ge", "Eq") and v >= k) or (op == "Gt" and v >= k - 1):
            long_enough = True
    if not long_enough:
        return None
    for sb in sorted(b.reachable()):
        tt = b.blocks[sb]["term"]
        if tt["k"] != "SwitchInt" or not b.dominates(sb, at):
            continue
        e = strip_refs(b.trace(tt["discr"]))
        if e[0] == "cindex" and e[2] == k - 1 and not e[3] and _bytes_of(e[1], recv):
            arm_targets = {tg for _, tg in tt["arms"]}
            if tt["otherwise"] in arm_targets or at in b.reachable(start=tt["otherwise"]):
                continue
            vals = [int(v) for v, _ in tt["arms"]]
            if vals and all(0 <= v < 128 for v in vals):
                return "the string has at least %d bytes and byte %d is one of the ASCII characters %s on every path here, so byte %d starts a character" % (k, k - 1, "".join(chr(v) for v in vals), k)
    return None


def _same_string(x, recv):
    """x denotes the string recv: the same expression, or the same multi-definition (loop-carried) local."""
    x = strip_refs(x)
    return x == recv or (x[0] == "phi" and recv[0] == "phi" and x[1] == recv[1])


def _own_char_width(e, recv):
    """"first" / "last" when e is `c.len_utf8()` with c the payload of `chars(recv).next()` / `.next_back()`, else None."""
    e = strip_refs(e)
    if not (e[0] == "call" and e[1] and e[1]["path"].endswith("char::methods::<impl char>::len_utf8") or (e[0] == "call" and e[1] and e[1]["path"].endswith("::len_utf8"))):
        return None
    c = strip_refs(e[2][0]) if e[2] else None
    if c is None or not (c[0] == "field" and c[2] == 0 and isinstance(c[1], tuple) and c[1][0] == "downcast" and c[1][2] == "Some"):
        return None
    nx = strip_refs(c[1][1])
    if not (nx[0] == "call" and nx[1] and nx[2]):
        return None
    which = "first" if nx[1]["path"].endswith("Iterator>::next") and "Chars" in nx[1]["path"] else ("last" if nx[1]["path"].endswith("::next_back") and "Chars" in nx[1]["path"] else None)
    it = strip_refs(nx[2][0])
    if which and it[0] == "call" and it[1] and it[1]["path"] == "core::str::<impl str>::chars" and it[2] and _same_string(it[2][0], recv):
        return which
    return None


def str_offset(facts, b, at, recv, e, depth=0):
    """Why the integer expression e is a char-boundary offset (<= len) of the string expression recv, or None."""
    if depth > 6:
        return None
    e0 = strip_refs(e)
    if e0[0] == "phi":
        ws = [str_offset(facts, b, at, recv, x, depth + 1) for x in e0[2]]
        return "one of: " + " / ".join(ws) if all(ws) else None
    if e0[0] == "call" and e0[1] and e0[1]["path"] == "std::option::Option::<T>::unwrap_or" and len(e0[2]) == 2:
        ws = [str_offset(facts, b, at, recv, x, depth + 1) for x in e0[2]]
        return "%s, else %s" % tuple(ws) if all(ws) else None
    e1 = strip_payload(e)
    if e1[0] == "const":
        v = const_value(e1[1])
        if v == 0 and not isinstance(v, bool):
            return "0"
        if isinstance(v, int) and not isinstance(v, bool) and v > 0:
            return _ascii_prefix(b, at, recv, v)
        return None
    if e1[0] == "call" and e1[1] and e1[1]["path"] in STR_LEN and strip_refs(e1[2][0]) == recv:
        return "the string's own len()"
    # the width of the string's own first character is the boundary after it; its length minus the width of its own last
    # character is the boundary before that one (`rest[c.len_utf8()..]` with c = rest.chars().next(), and the mirror image)
    w_ = _own_char_width(e1, recv)
    if w_ == "first":
        return "the UTF-8 width of the string's own first character"
    if e1[0] == "binop" and e1[1] in ("Sub", "SubWithOverflow", "SubUnchecked") or (e1[0] == "field" and e1[2] == 0 and isinstance(e1[1], tuple) and e1[1][0] == "binop" and e1[1][1] == "SubWithOverflow"):
        bo = e1 if e1[0] == "binop" else e1[1]
        a_, b_ = strip_payload(bo[2]), strip_payload(bo[3])
        if a_[0] == "call" and a_[1] and a_[1]["path"] in STR_LEN and _same_string(a_[2][0], recv) and _own_char_width(b_, recv) == "last":
            return "the string's own len() minus the UTF-8 width of its own last character"
    if e1[0] == "call" and e1[1] and STR_SEARCH.match(e1[1]["path"]) and strip_refs(e1[2][0]) == recv:
        return "the position %s reports for the same string" % e1[1]["path"].rsplit("::", 1)[-1]
    if e1[0] == "field" and e1[2] == 0:
        item = strip_payload(e1[1])
        if item[0] == "call" and item[1] and ITEM_GETTER.search(item[1]["path"]) and item[2]:
            it = strip_refs(item[2][0])
            hops = 0
            while it[0] == "call" and it[1] and ITEM_KEEPING.search(it[1]["path"]) and it[2] and hops < 8:
                it = strip_refs(it[2][0])
                hops += 1
            if it[0] == "call" and it[1] and STR_POSITIONS.match(it[1]["path"]) and strip_refs(it[2][0]) == recv:
                return "a position yielded by %s of the same string" % it[1]["path"].rsplit("::", 1)[-1]
    return None


def j_str_slice(facts, b, bi, t):
    if len(t["args"]) != 2:
        return None
    recv = strip_refs(b.trace(t["args"][0]))
    rng = strip_refs(b.trace(t["args"][1]))
    if rng[0] != "agg":
        return None
    adt = (rng[1].get("adt") or "")
    if adt == "std::ops::RangeFull":
        return "J1 offsets: s[..] is the whole string"
    if adt not in ("std::ops::RangeFrom", "std::ops::RangeTo", "std::ops::Range"):
        return None
    ws = [str_offset(facts, b, bi, recv, x) for x in rng[2]]
    if not ws or not all(ws):
        return None
    if adt == "std::ops::Range":
        lo = strip_payload(rng[2][0])
        if not (lo[0] == "const" and const_value(lo[1]) == 0):
            return None          # start <= end is not read
    return "J1 offsets: every bound of the slice is a char-boundary offset of the sliced string itself (%s)" % "; ".join(ws)


class Arity:
    """Lower/upper bounds of the operand-vector length for table functions and
    for local functions that merely forward the vector."""

    def __init__(self, facts, roles):
        self.facts = facts
        self.roles = roles
        self.vec_param = {}   # body key -> (param local, lo, hi)
        from . import table as T
        for t in roles.tables:
            for e in t.entries:
                b = facts.body(e.fn_key)
                if b is None:
                    continue
                base = 1 if b.kind == "closure" else 0
                p = base + (1 if t.role == "eager" else 2)
                acc = T.accepted(e.num)
                lo, hi = acc if acc else (0, 0)
                cur = self.vec_param.get(b.key)
                if cur:
                    lo, hi = min(lo, cur[1]), max(hi, cur[2])
                self.vec_param[b.key] = (p, lo, hi)
        # forwarding: local fn all of whose call sites pass a known operand vector
        changed = True
        while changed:
            changed = False
            cand = {}
            for cb in facts.fns():
                for bi, tm in cb.calls():
                    c = callee_of(tm)
                    if not c or not c["local"] or c["key"] in self.vec_param and c["key"] in {e.fn_key for t in roles.tables for e in t.entries}:
                        pass
                    if not c or not c["local"]:
                        continue
                    tb = facts.body(c["key"])
                    if tb is None or tb.kind != "fn":
                        continue
                    for i, a in enumerate(tm["args"]):
                        if "std::vec::Vec<&" not in tb.local_ty(i + 1) and "[&serde_json::Value]" not in tb.local_ty(i + 1) and "[&'" not in tb.local_ty(i + 1):
                            continue
                        src = self.vec_of(cb, a)
                        cand.setdefault((c["key"], i + 1), []).append(src)
            for (k, p), srcs in cand.items():
                if all(s is not None for s in srcs):
                    lo = min(s[0] for s in srcs)
                    hi = max(s[1] for s in srcs)
                    cur = self.vec_param.get(k)
                    is_table = k in {e.fn_key for t in roles.tables for e in t.entries}
                    if cur is None:
                        self.vec_param[k] = (p, lo, hi)
                        changed = True
                    elif is_table and cur[0] == p and (lo < cur[1] or hi > cur[2]):
                        self.vec_param[k] = (p, min(lo, cur[1]), max(hi, cur[2]))
                        changed = True

    def vec_of(self, body, operand):
        """(lo, hi) if operand is (a reference to) a known operand vector in `body`."""
        e = strip_refs(body.xtrace(operand))
        root = body
        while root.kind == "closure" and root.key not in self.vec_param:
            pk = root.key.rsplit("::{closure#", 1)[0]
            nb = self.facts.body(pk)
            if nb is None:
                break
            root = nb
        vp = self.vec_param.get(root.key)
        if vp is None:
            return None
        if root.kind == "closure":
            if e == ("carg", root.key, vp[0]) or (body.key == root.key and strip_refs(body.trace(operand)) == ("arg", vp[0])):
                return (vp[1], vp[2])
            return None
        if e == ("arg", vp[0]):
            return (vp[1], vp[2])
        return None


CMP_FLIP = {"Eq": "Eq", "Ne": "Ne", "Lt": "Gt", "Le": "Ge", "Gt": "Lt", "Ge": "Le"}


def j_bounds(facts, roles, arity, b, bi, t):
    """`slice[i]` on a slice view of the operand vector: the Assert's condition is `Lt(i, PtrMetadata(slice))`."""
    e = strip_refs(b.trace(t["cond"]))
    if e[0] != "binop" or e[1] != "Lt":
        return None
    ln = strip_refs(e[3])
    if not (ln[0] == "unop" and ln[1] == "PtrMetadata"):
        return None
    # find the operand that holds the slice: the PtrMetadata statement in this block
    for s in b.blocks[bi]["stmts"]:
        if s["k"] == "Assign" and s["rv"]["k"] == "UnaryOp" and s["rv"]["op"] == "PtrMetadata":
            vecop = s["rv"]["a"]
            idxop = None
            for s2 in b.blocks[bi]["stmts"]:
                if s2["k"] == "Assign" and s2["rv"]["k"] == "BinaryOp" and s2["rv"]["op"] == "Lt":
                    idxop = s2["rv"]["a"]
            if idxop is not None:
                return j_index(facts, roles, arity, b, bi, t, vecop, idxop)
    return None


ITEM_KEEPING = re.compile(r"(^std::iter::Iterator::|as std::iter::Iterator>::)(skip|take|rev|peekable|by_ref|fuse|step_by|inspect|skip_while|take_while|filter)$|IntoIterator>::into_iter$")
LEN_CALLS = ("std::vec::Vec::<T, A>::len", "core::slice::<impl [T]>::len")


def view_length(facts, arity, b, op):
    """Length interval of the slice-like value an index expression applies to, read from what the value *is*:
    the operand list (arity interval of the table entries bound to the function), or an item of a chunked walk over
    any slice (`chunks_exact(n)`/`windows(n)`: exactly n; `chunks(n)`: 1..n; `remainder()`: 0..n-1).
    Returns (lo, hi, description, is_len) with is_len(body, expr) telling whether expr is the length of that very value."""
    vec = arity.vec_of(b, op) if arity is not None else None
    if vec is not None:
        return (vec[0], vec[1], "operand list", lambda body, e: is_len_of_vec(arity, body, e))
    e = strip_refs(b.trace(op))

    def is_len(body, x, _e=e, _b=b):
        if body is not _b:
            return False
        if x[0] == "call" and x[1] and x[1]["path"] in LEN_CALLS and x[2]:
            return strip_refs(x[2][0]) == _e
        if x[0] == "unop" and x[1] == "PtrMetadata":
            return strip_refs(x[2]) == _e
        return False

    def chunk_ctor(it):
        it = strip_refs(it)
        hops = 0
        while it[0] == "call" and it[1] and ITEM_KEEPING.search(it[1]["path"]) and it[2] and hops < 8:
            it = strip_refs(it[2][0])
            hops += 1
        if it[0] == "call" and it[1] and len(it[2]) == 2:
            m = re.match(r"^core::slice::<impl \[T\]>::(chunks_exact|chunks|windows|rchunks_exact|rchunks|chunks_exact_mut|chunks_mut)$", it[1]["path"])
            n = strip_refs(it[2][1])
            if m and n[0] == "const" and isinstance(const_value(n[1]), int) and const_value(n[1]) > 0:
                return m.group(1), const_value(n[1])
        return None

    if e[0] == "field" and e[2] == 0 and e[1][0] == "downcast" and e[1][2] == "Some":
        src = strip_refs(e[1][1])
        if src[0] == "call" and src[1] and re.search(r"::(next|next_back)$", src[1]["path"]) and src[2]:
            cc = chunk_ctor(src[2][0])
            if cc:
                kind, n = cc
                lo, hi = (n, n) if ("exact" in kind or kind == "windows") else (1, n)
                return (lo, hi, "item of %s(%d)" % (kind, n), is_len)
    if e[0] == "call" and e[1] and re.search(r"^std::slice::(ChunksExact|ChunksExactMut|RChunksExact)::<'a, T>::(remainder|into_remainder)$", e[1]["path"]) and e[2]:
        cc = chunk_ctor(e[2][0])
        if cc:
            return (0, cc[1] - 1, "remainder of %s(%d)" % cc, is_len)
    return None


def _subst_args(e, args):
    """e with every parameter ('arg', i) replaced by args[i-1] (expressions of the caller)"""
    if isinstance(e, tuple):
        if len(e) == 2 and e[0] == "arg" and isinstance(e[1], int):
            return args[e[1] - 1] if 1 <= e[1] <= len(args) else e
        return tuple(_subst_args(x, args) for x in e)
    if isinstance(e, list):
        return [_subst_args(x, args) for x in e]
    return e


def _call_sites(facts, b):
    """Call sites [(caller body, block, terminator)] of a private function that is never handed on as a value, else None."""
    it = facts.items.get(b.key, {})
    if b.kind != "fn" or it.get("reachable") or it.get("exported"):
        return None
    out = []
    for cb in facts.fns():
        for cbi, ct in cb.calls():
            c = callee_of(ct)
            if c and c.get("key") == b.key:
                out.append((cb, cbi, ct))
            elif any(fa.get("key") == b.key for fa in ((ct.get("callee") or {}).get("fnargs") or [])):
                return None
    return out or None


def j_index(facts, roles, arity, b, bi, t, vecop=None, idxop=None):
    """The index is read as the set of values it can take (a constant; sums of constants), the indexed value as its
    length interval refined by the length tests that dominate the site.  When the site is in a private helper whose
    index and/or list are its parameters, the same statement is made *per call site* of the helper — the value of the
    index handed in there against the length interval that holds there (`holds_at(items, 1)` under `len != 2`)."""
    vecop = vecop if vecop is not None else t["args"][0]
    idx = strip_refs(b.xtrace(idxop if idxop is not None else t["args"][1]))
    if idx[0] == "agg" and (idx[1].get("adt") or "") == "std::ops::RangeFull":
        return "J total: `v[..]` is the whole list (a full-range index cannot be out of bounds)"
    return _j_index_at(facts, arity, b, bi, vecop, idx, 0)


def _j_index_at(facts, arity, b, bi, vecop, idx, depth):
    vals = value_set(facts, b, idx) if not expr_mentions(idx, lambda x: x[0] == "arg") else None
    if vals:
        j = _j_index_const(facts, arity, b, bi, vecop, max(vals)) if min(vals) >= 0 else None
        if j:
            return j
    # per call site of a private helper
    if depth >= 3:
        return None
    v = strip_refs(b.trace(vecop))
    sites = _call_sites(facts, b)
    if sites is None or not (expr_mentions(idx, lambda x: x[0] == "arg") or v[0] == "arg"):
        return None
    if v[0] != "arg":
        return None
    whys = []
    for (cb, cbi, ct) in sites:
        args = [cb.trace(a) for a in ct["args"]]
        if v[1] > len(ct["args"]):
            return None
        j = _j_index_at(facts, arity, cb, cbi, ct["args"][v[1] - 1], strip_refs(_subst_args(idx, args)), depth + 1)
        if j is None:
            return None
        whys.append("%s: %s" % (cb.key.split("::", 1)[1], j))
    return "J3 per call site of this helper (index and list are its parameters) — " + " | ".join(sorted(set(whys)))[:600]


def _j_index_const(facts, arity, b, bi, vecop, c):
    view = view_length(facts, arity, b, vecop)
    if view is None:
        return None
    lo, hi, what, is_len = view
    if c < lo:
        if what == "operand list":
            return "J3 arity: index %d < minimum operand count %d of every table entry bound to this function" % (c, lo)
        return "J3 view length: index %d < %d = minimum length of an %s" % (c, lo, what)
    lo, hi, used = refined_length(b, bi, view)
    if c < lo:
        return "J3 %s: length ∈ [%s,%s] after %s ⇒ index %d in bounds" % ("arity interval" if what == "operand list" else "view length (%s)" % what, lo, "∞" if hi == float("inf") else hi, "; ".join(used), c)
    return None


def j_dead_by_length(facts, arity, b, bi):
    """An explicit panic (`unreachable!()` in the rest arm of a slice-pattern match, a `_ =>` after the lengths that can
    occur) is dead code when the length tests that dominate it, on a value whose length interval is known (operand
    list by arity, item of chunks(n)/windows(n)…), leave no length at all."""
    seen = []
    for sb in sorted(b.reachable()):
        for s in b.blocks[sb]["stmts"]:
            if s["k"] == "Assign" and s["rv"]["k"] == "UnaryOp" and s["rv"]["op"] == "PtrMetadata" and b.dominates(sb, bi):
                seen.append(s["rv"]["a"])
        t = b.blocks[sb]["term"]
        if t["k"] == "Call" and (callee_path(t) or "") in LEN_CALLS and t["args"] and b.dominates(sb, bi):
            seen.append(t["args"][0])
    done = set()
    for op in seen:
        k = repr(strip_refs(b.trace(op)))
        if k in done:
            continue
        done.add(k)
        view = view_length(facts, arity, b, op)
        if view is None:
            continue
        lo, hi, used = refined_length(b, bi, view)
        if lo > hi and used:
            return "J3 dead code: the length of the %s is in [%s,%s]; the tests that dominate this site (%s) leave no possible length" % (view[2], view[0], view[1], "; ".join(used))
    return None


def refined_length(b, bi, view):
    """(lo, hi, tests used): the length interval of the view at block bi of b, after the length tests on that very value
    that dominate the site (in b and, for a closure, around its creation in the enclosing bodies)."""
    lo, hi, what, is_len = view
    # refine along dominating comparison edges on the length of that very value
    chain = [b]
    cur = b
    while cur.kind == "closure":
        cr = cur.creator()
        if cr is None:
            break
        cur = cr[0]
        chain.append(cur)
    excluded = set()
    used = []
    site_block = {b.key: bi}
    # for enclosing bodies the relevant block is where the closure is created
    for i in range(1, len(chain)):
        inner = chain[i - 1]
        for bj, sj, s in chain[i].stmts():
            if s["k"] == "Assign" and s["rv"]["k"] == "Aggregate" and s["rv"].get("closure") == inner.key:
                site_block[chain[i].key] = bj
    for body in chain:
        target = site_block.get(body.key)
        if target is None:
            continue
        for sb in body.reachable():
            tt = body.blocks[sb]["term"]
            if tt["k"] != "SwitchInt":
                continue
            e = strip_refs(body.xtrace(tt["discr"]))
            if is_len(body, e):
                # `match v.len() { 0 => …, 1 => …, _ => … }`
                listed = [int(v) for v, _ in tt["arms"]]
                for v, tg in tt["arms"]:
                    if tg != tt["otherwise"] and sum(1 for _, t2 in tt["arms"] if t2 == tg) == 1 and edge_dominates(body, sb, tg, target):
                        lo, hi = max(lo, int(v)), min(hi, int(v))
                        used.append("len == %s (match arm, bb%d)" % (v, sb))
                if edge_dominates(body, sb, tt["otherwise"], target) and all(tg != tt["otherwise"] for _, tg in tt["arms"]):
                    excluded.update(listed)
                    used.append("len ∉ %s (match default, bb%d)" % (listed, sb))
                continue
            if e[0] != "binop" or e[1] not in CMP_FLIP:
                continue
            x, y = strip_refs(e[2]), strip_refs(e[3])
            op = e[1]
            if is_len(body, y) and x[0] == "const":
                x, y, op = y, x, CMP_FLIP[op]
            if not (is_len(body, x) and y[0] == "const" and isinstance(const_value(y[1]), int)):
                continue
            k = const_value(y[1])
            for truth in (True, False):
                tg = bool_edge(body, sb, truth)
                if not edge_dominates(body, sb, tg, target):
                    continue
                eff = op if truth else {"Eq": "Ne", "Ne": "Eq", "Lt": "Ge", "Le": "Gt", "Gt": "Le", "Ge": "Lt"}[op]
                if eff == "Eq":
                    lo, hi = max(lo, k), min(hi, k)
                elif eff == "Ne":
                    excluded.add(k)
                elif eff == "Lt":
                    hi = min(hi, k - 1)
                elif eff == "Le":
                    hi = min(hi, k)
                elif eff == "Gt":
                    lo = max(lo, k + 1)
                elif eff == "Ge":
                    lo = max(lo, k)
                used.append("len %s %d (bb%d of %s)" % (eff, k, sb, body.key.rsplit("::", 1)[-1]))
    while lo in excluded:
        lo += 1
    while hi in excluded and hi >= lo:
        hi -= 1
    return lo, hi, used


def is_len_of_vec(arity, body, e):
    if (e[0] == "call" and e[1] and e[1]["path"] in ("std::vec::Vec::<T, A>::len", "core::slice::<impl [T]>::len")) or (e[0] == "unop" and e[1] == "PtrMetadata"):
        a = strip_refs(e[2][0] if e[0] == "call" else e[2])
        # the whole list seen as a slice is the list: `items[..]`, `items.as_slice()`, `&**items`
        for _ in range(4):
            if a[0] == "call" and a[1] and a[2] and (a[1]["path"].endswith("Deref>::deref") or a[1]["path"].endswith("::as_slice")
                                                   or (a[1]["path"].endswith("Index<I>>::index") and len(a[2]) == 2 and strip_refs(a[2][1])[0] == "agg" and (strip_refs(a[2][1])[1].get("adt") or "") == "std::ops::RangeFull")):
                a = strip_refs(a[2][0])
            else:
                break
        root = body
        while root.kind == "closure" and root.key not in arity.vec_param:
            nb = body.facts.body(root.key.rsplit("::{closure#", 1)[0])
            if nb is None:
                break
            root = nb
        vp = arity.vec_param.get(root.key)
        if vp is None:
            return False
        return a == ("arg", vp[0]) or a == ("carg", root.key, vp[0])
    return False


# ------------------------------------------------------------------- loops
# A loop is bounded when it is *driven* by a value whose type is a finite iterator: every iteration advances it and the
# loop leaves when it is exhausted.  The type is read structurally (adaptors over a finite source are finite; `&mut I`
# is I); a generic parameter is resolved to the types of the arguments at every call site of the (private) function.
FINITE_SOURCES = re.compile(r"^(std::str::(Chars|CharIndices|Bytes|R?Split\w*|Lines|R?MatchIndices|R?Matches|EncodeUtf16|Escape\w+)"
                            r"|std::slice::(Iter|IterMut|R?Chunks(Exact)?(Mut)?|Windows|R?Split\w*|ArrayChunks|ArrayWindows|EscapeAscii)"
                            r"|std::vec::(IntoIter|Drain)|std::string::Drain|std::array::IntoIter|std::option::(IntoIter|Iter|IterMut)|std::result::(IntoIter|Iter|IterMut)"
                            r"|std::iter::(Once|Empty|OnceWith)|std::ops::Range(Inclusive)?|serde_json::map::(Iter|IterMut|Keys|Values|ValuesMut|IntoIter)"
                            r"|std::collections::\w+::\w+|std::char::(ToLowercase|ToUppercase|EscapeDefault|EscapeUnicode|EscapeDebug))$")
FINITE_IF_INNER = re.compile(r"^std::iter::(Enumerate|Map|Skip|Take|Rev|Filter|FilterMap|Peekable|Cloned|Copied|StepBy|TakeWhile|SkipWhile|MapWhile|Inspect|Fuse|Scan)$")
FINITE_IF_ALL = re.compile(r"^std::iter::(Chain|Zip|Flatten|FlatMap)$")


def split_type(ty):
    """'a::B<X, Y<Z>>' -> ('a::B', ['X', 'Y<Z>']); lifetimes among the arguments are dropped."""
    ty = ty.strip()
    i = ty.find("<")
    if i < 0 or not ty.endswith(">") or ty.startswith(("{", "[", "(", "fn", "dyn ", "impl ")):
        return ty, []
    head, inner = ty[:i], ty[i + 1:-1]
    args, depth, cur = [], 0, ""
    for j, ch in enumerate(inner):
        if ch in "<([{":
            depth += 1
        elif ch in ")]}" or (ch == ">" and inner[j - 1:j] != "-"):
            depth -= 1
        if ch == "," and depth == 0:
            args.append(cur.strip())
            cur = ""
        else:
            cur += ch
    if cur.strip():
        args.append(cur.strip())
    return head, [a for a in args if not re.match(r"^'\w+$", a)]


def _used_as_value(facts, key):
    def is_it(o):
        c = o.get("const") if isinstance(o, dict) and o.get("k") == "Const" else None
        f = (c or {}).get("fn")
        return bool(f) and ((f.get("resolved") or f).get("key") == key or f.get("key") == key)
    for cb in facts.bodies.values():
        for _, _, st in cb.stmts():
            rv = st.get("rv") or {}
            ops = list(rv.get("ops") or []) + [rv[k] for k in ("op", "a", "b") if isinstance(rv.get(k), dict)]
            if any(is_it(o) for o in ops):
                return True
        for _, t in cb.calls(reach_only=False):
            if any(is_it(a) for a in t["args"]):
                return True
    return False


FINITE_COLLECTIONS = re.compile(r"^(std::vec::Vec|\[.*\]|std::collections::(BTreeMap|BTreeSet|VecDeque|HashMap|HashSet|BinaryHeap|LinkedList)|std::option::Option|std::result::Result|serde_json::Map|std::string::String)$")


def iter_type_finite(facts, body, ty, depth=0):
    """Why a value of this type is a finite iterator, or None."""
    if depth > 8:
        return None
    ty = ty.strip()
    while ty.startswith("&"):
        ty = re.sub(r"^&\s*('\w+\s+)?(mut\s+)?", "", ty)
    head, args = split_type(ty)
    if FINITE_SOURCES.match(head):
        return head
    if FINITE_IF_INNER.match(head) and args:
        w = iter_type_finite(facts, body, args[0], depth + 1)
        return "%s over %s" % (head.rsplit("::", 1)[-1], w) if w else None
    if FINITE_IF_ALL.match(head) and args:
        ws = [iter_type_finite(facts, body, a, depth + 1) for a in args[:2]]
        return "%s of %s" % (head.rsplit("::", 1)[-1], " and ".join(ws)) if all(ws) else None
    # the iterator a collection hands out: `<I as IntoIterator>::IntoIter` is finite when I is — a finite iterator is its
    # own IntoIter, a (reference to a) std collection held in memory iterates over its elements
    mproj = re.match(r"^<(.+) as std::iter::IntoIterator>::IntoIter$", ty)
    if mproj:
        inner = mproj.group(1).strip()
        w = iter_type_finite(facts, body, inner, depth + 1)
        return "IntoIter of %s" % w if w else None
    bare = re.sub(r"^&\s*('\w+\s+)?(mut\s+)?", "", ty)
    hb, _ab = split_type(bare)
    if FINITE_COLLECTIONS.match(hb):
        return "the elements of a %s" % hb.rsplit("::", 1)[-1]
    # a type parameter of the function (or `impl Iterator` in argument position): the types handed in at every call site
    root = body
    while root.kind == "closure":
        nb = facts.body(root.key.rsplit("::{closure#", 1)[0])
        if nb is None:
            return None
        root = nb
    it = facts.items.get(root.key, {})
    if not it or it.get("exported") or it.get("reachable"):
        return None
    pos = [i for i, pty in enumerate(it.get("inputs") or []) if pty.strip() == ty or re.sub(r"^&\s*('\w+\s+)?(mut\s+)?", "", pty.strip()) == ty]
    if not pos or not re.match(r"^(\w+|impl .*)$", ty):
        return None
    ws = []
    for cb in facts.fns():
        for cbi, ct in cb.calls():
            c = callee_of(ct)
            if not c or c.get("key") != root.key:
                continue
            for i in pos:
                a = ct["args"][i] if i < len(ct["args"]) else None
                if a is None or a["k"] not in ("Copy", "Move"):
                    return None
                aty = a["place"].get("ty") if a["place"]["proj"] else cb.local_ty(a["place"]["local"])
                if a["place"]["proj"]:
                    last = a["place"]["proj"][-1]
                    aty = last.get("ty")
                w = iter_type_finite(facts, cb, aty, depth + 1) if aty else None
                if not w:
                    return None
                ws.append(w)
    # the function must not be used as a value (a call through the value would be a call site not seen above)
    if ws and _used_as_value(facts, root.key):
        return None
    return "type parameter %s = {%s} at its %d call site(s)" % (ty, ", ".join(sorted(set(ws))), len(ws)) if ws else None


def loops_of(body):
    """[(header, set(blocks), back_edge_sources)]"""
    out = {}
    for (u, h) in body.back_edges():
        blocks = {h}
        st = [u]
        while st:
            n = st.pop()
            if n in blocks:
                continue
            blocks.add(n)
            st.extend(body.preds(n))
        e = out.setdefault(h, [set(), []])
        e[0] |= blocks
        e[1].append(u)
    return [(h, v[0], v[1]) for h, v in out.items()]


def loop_bounded(body, header, blocks, sources):
    """The loop advances a finite iterator on every iteration and leaves when it is exhausted."""
    for bi in blocks:
        t = body.blocks[bi]["term"]
        if t["k"] != "Call" or not t["args"]:
            continue
        p = callee_path(t) or ""
        if not re.search(r"(^std::iter::(Iterator|DoubleEndedIterator)::|as std::iter::(Iterator|DoubleEndedIterator)>::)(next|next_back)$", p):
            continue
        a = t["args"][0]
        if a["k"] not in ("Copy", "Move") or a["place"]["proj"]:
            continue
        why = iter_type_finite(body.facts, body, body.local_ty(a["place"]["local"]))
        if not why:
            continue
        if not all(body.dominates(bi, u) for u in sources):
            continue
        # the result's None edge must leave the loop
        for sb in blocks:
            tt = body.blocks[sb]["term"]
            if tt["k"] != "SwitchInt":
                continue
            e = body.trace(tt["discr"])
            if e[0] == "discr":
                x = strip_refs(e[1])
                if x[0] == "call" and x[3] == bi:
                    r = switch_edges_for_variant(body, sb, "None")
                    if r and r[0] not in blocks:
                        return "advances %s (%s) on every iteration and exits on None" % (p, why)
    return None


# --------------------------------------------------------------- magnitudes
BOUNDED_CALLS = re.compile(r"::(len|count|capacity)$")
PASS_BOUND = re.compile(r"^std::cmp::min$|::(checked_sub|saturating_sub|wrapping_sub|min|unwrap_or|unwrap_or_default|unwrap_or_else|try_into|into|ok|map|and_then|clone|get|copied|cloned)$|as std::convert::(TryInto|Into|From|TryFrom)<.*>>::\w+$|as std::ops::Try>::branch$")


def bounded(body, e, depth=0):
    """Is the magnitude of this integer expression bounded by the size of an in-memory
    collection (or a constant)?  min(a,b) needs one bounded side; subtraction keeps the
    bound of its left side; additions/multiplications and anything read from a JSON number are unbounded."""
    e = strip_refs(e)
    if depth > 12:
        return False
    k = e[0]
    if k == "const":
        return True
    if k == "cast":
        return bounded(body, e[2], depth + 1)
    if k == "phi":
        return all(bounded(body, x, depth + 1) for x in e[2])
    if k == "field" and e[1][0] in ("downcast", "binop", "call", "phi"):
        return bounded(body, e[1] if e[1][0] != "downcast" else e[1][1], depth + 1)
    if k == "downcast":
        return bounded(body, e[1], depth + 1)
    if k == "binop":
        if e[1] in ("Sub", "SubWithOverflow", "SubUnchecked", "Div", "Rem", "Shr", "BitAnd"):
            return bounded(body, e[2], depth + 1)
        return False
    if k == "call" and e[1]:
        p = e[1]["path"]
        if BOUNDED_CALLS.search(p):
            return True
        if p == "std::cmp::min" or p.endswith("::min"):
            return any(bounded(body, a, depth + 1) for a in e[2])
        if PASS_BOUND.search(p):
            if p.endswith(("unwrap_or", "unwrap_or_else")):
                return all(bounded(body, a, depth + 1) for a in e[2] if strip_refs(a)[0] != "agg" or True) if all(strip_refs(a)[0] != "agg" or strip_refs(a)[1].get("agg") != "Closure" for a in e[2]) else bounded(body, e[2][0], depth + 1)
            return bounded(body, e[2][0], depth + 1) if e[2] else False
    return False


def range_iterations(body):
    """[(bi, callee path, end-expression)] for iterations over a std Range in `body`."""
    out = []
    for bi, t in body.calls():
        c = callee_of(t)
        if not c:
            continue
        full = c.get("full") or ""
        if not re.search(r"^<std::ops::Range(Inclusive)?<", full) and "std::ops::Range" not in " ".join((t.get("callee") or {}).get("targs", [])[:1]):
            continue
        if not re.search(r"Iterator>::|IntoIterator>::|^std::iter::Iterator::", c["path"]):
            continue
        recv = strip_refs(body.xtrace(t["args"][0])) if t["args"] else None
        rng = None

        def find(x):
            nonlocal rng
            if x[0] == "agg" and "Range" in (x[1].get("adt") or "") and rng is None:
                rng = x
            return False
        if recv is not None:
            expr_mentions(recv, find)
        if rng is not None and len(rng[2]) >= 2:
            out.append((bi, c["path"], rng[2][1]))
    return out
