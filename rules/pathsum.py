#!/usr/bin/env python3
"""Path summaries of loop-free code: every acyclic path of a body with the branch decisions it takes and the value
it returns, independent of how the code is spelled.

A rule about a *decision function* (which comparison is made for which kind of operand, which constant a kind maps
to, when the second comparison of a `between` is consulted) used to look for the statement shapes that spell the
decision today; a behaviour-preserving rewrite (named booleans, early returns, merged match arms, `map_or` instead
of `match`) then made the rule fail although nothing changed.  This module reads the same facts off the control-flow
graph path by path:

  * values are tracked along one path at a time (an environment local → expression, using the same expression
    forms as `Body.trace`), so a local assigned on several paths means, on each path, what it was assigned there;
  * every `SwitchInt` contributes an *atom* — the variant of an enum-typed place, the truth of a comparison, the
    boolean result of a call site, an integer value — with the value its edge implies; a path that would need one
    atom to have two values is infeasible and dropped; switches on values whose constructor is known on the path
    are followed, not branched;
  * the result of the path is the expression held by the return place at `Return`.

Nothing is executed and no solver is consulted: the summaries are finite objects (a body without loops has finitely
many paths; bodies with loops are summarised up to their first back edge and flagged), and rules compare them with a
finite table.
"""
import re
from .core import callee_of, strip_refs, const_value, _known_ctor, _project_variant, kind_test, VALUE_ADT

CMP_SWAP = {"Gt": "Lt", "Ge": "Le", "Lt": "Gt", "Le": "Ge", "Eq": "Eq", "Ne": "Ne"}
CMP_NEG = {"Eq": "Ne", "Ne": "Eq", "Lt": "Ge", "Le": "Gt", "Gt": "Le", "Ge": "Lt"}


SAME_VARIANT = re.compile(r"^std::(option::Option|result::Result)::<.*?>::(map|copied|cloned|as_ref|as_deref|as_mut|as_deref_mut|inspect|map_err|inspect_err)$")
TRY = ("<std::result::Result<T, E> as std::ops::Try>::branch", "<std::option::Option<T> as std::ops::Try>::branch")


def through_variant_preserving(pe):
    """(inner, ren) — the Option/Result-valued expression whose variant alone decides the variant of pe, with
    ren: variant name of pe → variant name of inner; (None, None) when pe is not such a wrapper."""
    ren = None
    cur = strip_refs(pe)
    moved = False
    for _ in range(8):
        if not (cur[0] == "call" and cur[1] and cur[2]):
            break
        p = cur[1].get("path") or ""
        if p in TRY:
            isres = "Result" in p
            step = {"Continue": "Ok" if isres else "Some", "Break": "Err" if isres else "None"}
        elif SAME_VARIANT.match(p):
            step = {"Some": "Some", "None": "None"} if "option::Option" in p else {"Ok": "Ok", "Err": "Err"}
        elif re.match(r"^std::result::Result::<.*?>::ok$", p):
            step = {"Some": "Ok", "None": "Err"}
        elif re.match(r"^std::result::Result::<.*?>::err$", p):
            step = {"Some": "Err", "None": "Ok"}
        elif re.match(r"^std::option::Option::<.*?>::(ok_or|ok_or_else)$", p):
            step = {"Ok": "Some", "Err": "None"}
        else:
            break
        ren = step if ren is None else {o: step.get(i_, i_) for o, i_ in ren.items()}
        cur = strip_refs(cur[2][0])
        moved = True
    if moved and cur[0] == "call" and cur[1] and re.match(r"^std::(option::Option|result::Result)::<.*?>::\w+$", cur[1].get("path") or ""):
        # the chain bottoms out in another combinator (and_then, or_else, filter …) whose variant depends on a closure:
        # keep the atom on the expression as written (optnorm.cases_expr expands such chains into cases); only `x?` is
        # looked through, as it always was
        top = strip_refs(pe)
        if top[0] == "call" and top[1] and (top[1].get("path") or "") in TRY and top[2]:
            isres = "Result" in top[1]["path"]
            return (strip_refs(top[2][0]), {"Continue": "Ok" if isres else "Some", "Break": "Err" if isres else "None"})
        return (None, None)
    return (cur, ren) if moved else (None, None)


def canon(e, depth=0):
    """Deterministic, complete rendering of an expression (call sites of external calls are not part of it: two
    reads of `len(x)` are the same quantity; local calls keep their site)."""
    if not isinstance(e, tuple):
        return repr(e)
    if depth > 40:
        return "<deep>"
    k = e[0]
    if k == "const":
        c = e[1]
        v = const_value(c)
        if v is not None:
            return "c:%r" % (v,)
        if "fn" in c:
            return "fn:" + (c["fn"].get("key") or c["fn"].get("path") or "?")
        if "promoted" in c:
            return "prom:" + c["promoted"]
        if "item" in c:
            return "item:" + str(c["item"])
        return "const<%s>" % c.get("ty")
    if k == "call":
        c = e[1]
        name = (c.get("key") or c.get("path")) if c else "<indirect>"
        site = "@%s" % (e[3],) if (c is None or c.get("local")) else ""
        return "%s%s(%s)" % (name, site, ",".join(canon(a, depth + 1) for a in e[2]))
    if k == "agg":
        a = e[1]
        return "%s{%s}" % (a.get("variant") or a.get("agg"), ",".join(canon(x, depth + 1) for x in e[2]))
    if k == "phi":
        return "phi(%s)" % "|".join(sorted(canon(x, depth + 1) for x in e[2]))
    out = [str(k)]
    for x in e[1:]:
        if isinstance(x, tuple):
            out.append(canon(x, depth + 1))
        elif isinstance(x, list):
            out.append("[" + ",".join(canon(y, depth + 1) if isinstance(y, tuple) else repr(y) for y in x) + "]")
        elif isinstance(x, dict):
            out.append("{..}")
        else:
            out.append(repr(x))
    return "(" + " ".join(out) + ")"


class Path:
    __slots__ = ("blocks", "atoms", "order", "events", "result", "truncated", "env")

    def __init__(self):
        self.blocks, self.atoms, self.order, self.events, self.result, self.truncated, self.env = [], {}, [], [], None, False, None


class Walker:
    """Enumerate the acyclic paths of `body` from `start`.

    atom values: True/False for boolean atoms; a variant name for ("variant", place); an int for ("int", expr);
    ("not", frozenset(values)) for the default edge of a multi-way switch.
    `known(expr) -> variant|None` lets a rule fix the variant of chosen places (kind specialisation).
    """

    def __init__(self, body, start=0, known=None, max_paths=6000, env=None):
        self.b = body
        self.f = body.facts
        self.known = known
        self.max_paths = max_paths
        self.paths = []
        self.overflow = False
        self.exprs = {}        # atom key -> the expression the atom is about
        self._walk(start, dict(env or {}), {}, [], [], [], set())

    # ---- expression evaluation along a path ---------------------------------------------------------
    def operand(self, o, env):
        if o["k"] in ("Copy", "Move"):
            return self.place(o["place"], env)
        if o["k"] == "Const":
            return self.b.trace(o)
        return ("other", o.get("k"))

    def place(self, p, env):
        l = p["local"]
        if l in env:
            e = env[l]
        else:
            e = self.b._trace_local(l, 0, frozenset())
        return self.b._project(e, p["proj"], env, self) if p["proj"] else e

    def rvalue(self, rv, env):
        k = rv["k"]
        if k == "Use":
            return self.operand(rv["op"], env)
        if k in ("Ref", "RawPtr"):
            return ("ref", self.place(rv["place"], env))
        if k == "CopyForDeref":
            return self.place(rv["place"], env)
        if k == "Cast":
            return ("cast", rv["cast"], self.operand(rv["op"], env), rv["to"])
        if k == "Aggregate":
            return ("agg", {kk: rv[kk] for kk in rv if kk not in ("ops", "k")}, [self.operand(o, env) for o in rv["ops"]])
        if k == "BinaryOp":
            return ("binop", rv["op"], self.operand(rv["a"], env), self.operand(rv["b"], env), rv.get("opty"))
        if k == "UnaryOp":
            return ("unop", rv["op"], self.operand(rv["a"], env))
        if k == "Discriminant":
            return ("discr", self.place(rv["place"], env), rv.get("adt"))
        return ("rv", k)

    # ---- atoms ----------------------------------------------------------------------------------------
    def classify(self, e, t):
        """[(edge target, atom key or None, value)] for the SwitchInt `t` whose discriminant evaluates to e.
        atom None = the edge is taken unconditionally (the switch is decided on this path)."""
        arms = [(str(v), bb) for v, bb in t["arms"]]
        other = t["otherwise"]
        x = strip_refs(e)
        neg = False
        while x[0] == "unop" and x[1] == "Not":
            neg, x = not neg, strip_refs(x[2])
        if x[0] == "cast" and strip_refs(x[2])[0] in ("binop", "call", "const"):
            x = strip_refs(x[2])
        # constant
        if x[0] == "const":
            v = const_value(x[1])
            if isinstance(v, bool):
                v = int(v != neg)
            if isinstance(v, int):
                for val, bb in arms:
                    if val == str(v):
                        return [(bb, None, None)]
                return [(other, None, None)]
        if x[0] == "discr":
            pe = strip_refs(x[1])
            adt = x[2]
            kn = _known_ctor(x[1]) or _known_ctor(pe)
            var = kn[0] if kn else (self.known(pe, adt) if self.known else None)
            if var is not None:
                dv = None
                for vv in self.f.adts.get(adt, {}).get("variants", []):
                    if vv["name"] == var:
                        dv = str(vv["discr"])
                for val, bb in arms:
                    if val == dv:
                        return [(bb, None, None)]
                return [(other, None, None)]
            key = ("variant", canon(pe))
            self.exprs[key] = pe
            # `x?`: the question asked of branch(x) is the question asked of x; likewise the variant of `x.map(f)`,
            # `x.cloned()`, `x.ok()`, `x.ok_or(e)` … is a function of the variant of x alone
            ren = None
            inner, ren_ = through_variant_preserving(pe)
            if inner is not None:
                key = ("variant", canon(inner))
                self.exprs[key] = inner
                ren = ren_
                kn2 = _known_ctor(inner)
                if kn2 is not None:
                    back = [o for o, i_ in ren.items() if i_ == kn2[0]]
                    if len(back) == 1:
                        dv = None
                        for vv in self.f.adts.get(adt, {}).get("variants", []):
                            if vv["name"] == back[0]:
                                dv = str(vv["discr"])
                        if dv is None and back[0] in ("Continue", "Break"):
                            dv = {"Continue": "0", "Break": "1"}[back[0]]
                        if dv is not None:
                            for val, bb in arms:
                                if val == dv:
                                    return [(bb, None, None)]
                            return [(other, None, None)]
            out = []
            listed = []
            for val, bb in arms:
                name = self.f.variant_of_discr(adt, val) if adt else None
                name = name if name is not None else "#" + val
                listed.append(name)
                out.append((bb, key, ren.get(name, name) if ren else name))
            if ren:
                allv = [vv["name"] for vv in self.f.adts.get(adt, {}).get("variants", [])] if adt else ["Continue", "Break"]
                rest = [n for n in (allv or ["Continue", "Break"]) if n not in listed]
                if len(rest) == 1:
                    out.append((other, key, ren.get(rest[0], rest[0])))
                return out
            allv = [vv["name"] for vv in self.f.adts.get(adt, {}).get("variants", [])] if adt else []
            rest = [n for n in allv if n not in listed]
            if len(rest) == 1:
                out.append((other, key, rest[0]))
            elif rest or not allv:
                out.append((other, key, ("not", frozenset(listed))))
            return out
        is_bool = t.get("dty") == "bool"
        if is_bool and self.known and x[0] == "call":
            # `v.is_object()` on a value whose kind is fixed: decided, as the `match` spelling of the same question is
            kt = kind_test(x)
            var = self.known(kt[0], VALUE_ADT) if kt else None
            if var is not None:
                truth = "1" if ((var == kt[1]) != neg) else "0"
                for val, bb in arms:
                    if val == truth:
                        return [(bb, None, None)]
                return [(other, None, None)]
        if is_bool:
            if x[0] == "binop" and x[1] in CMP_NEG:
                op, a, b_ = x[1], strip_refs(x[2]), strip_refs(x[3])
                ca, cb = canon(a), canon(b_)
                if op in ("Gt", "Ge") or (op in ("Eq", "Ne") and ca > cb):
                    op, ca, cb = CMP_SWAP[op], cb, ca
                    a, b_ = b_, a
                pos = True
                if op == "Ne":
                    op, pos = "Eq", False
                elif op == "Le":       # a <= b  ≡  not (b < a)
                    op, ca, cb, pos = "Lt", cb, ca, False
                    a, b_ = b_, a
                key = ("cmp", op, ca, cb)
                # the canonical comparison the atom is about (its truth is the atom's value)
                self.exprs.setdefault(key, ("binop", op, a, b_, x[4] if len(x) > 4 else None))
            elif x[0] == "call":
                c = x[1]
                key = ("site", x[3]) if (c is None or c.get("local")) else ("pure", canon(x))
                pos = True
                self.exprs.setdefault(key, x)
            else:
                key = ("expr", canon(x))
                pos = True
                self.exprs.setdefault(key, x)
            out = []
            for val, bb in arms:
                truth = (val != "0")
                out.append((bb, key, (truth != neg) == pos))
            listed = {val for val, _ in arms}
            if listed == {"0"}:
                out.append((other, key, (True != neg) == pos))
            elif listed == {"1"}:
                out.append((other, key, (False != neg) == pos))
            elif not listed:
                out.append((other, None, None))
            return out
        key = ("int", canon(x))
        self.exprs.setdefault(key, x)
        out = [(bb, key, int(val)) for val, bb in arms]
        out.append((other, key, ("not", frozenset(int(v) for v, _ in arms))))
        return out

    @staticmethod
    def consistent(old, new):
        if old == new:
            return True
        if isinstance(old, tuple) and old and old[0] == "not":
            if isinstance(new, tuple) and new and new[0] == "not":
                return True
            return new not in old[1]
        if isinstance(new, tuple) and new and new[0] == "not":
            return old not in new[1]
        return False

    @staticmethod
    def merge(old, new):
        if isinstance(old, tuple) and old and old[0] == "not":
            if isinstance(new, tuple) and new and new[0] == "not":
                return ("not", old[1] | new[1])
            return new
        return old

    # ---- the walk -------------------------------------------------------------------------------------
    def _walk(self, bi, env, atoms, order, events, blocks, onpath):
        b = self.b
        while True:
            if len(self.paths) >= self.max_paths:
                self.overflow = True
                return
            if bi in onpath:
                p = Path()
                p.blocks, p.atoms, p.order, p.events, p.truncated, p.env = blocks + [bi], atoms, order, events, True, env
                self.paths.append(p)
                return
            onpath = onpath | {bi}
            blocks = blocks + [bi]
            blk = b.blocks[bi]
            for s in blk["stmts"]:
                if s["k"] != "Assign":
                    continue
                pl = s["place"]
                val = self.rvalue(s["rv"], env)
                if not pl["proj"]:
                    env = dict(env)
                    env[pl["local"]] = val
                elif all(pr["k"] == "Field" for pr in pl["proj"]) and len(pl["proj"]) == 1:
                    # field-wise initialisation of a tuple/struct local
                    cur = env.get(pl["local"])
                    i = pl["proj"][0]["i"]
                    if cur is not None and cur[0] == "agg" and cur[1].get("agg") == "fields":
                        ops = list(cur[2])
                    else:
                        ops = []
                    while len(ops) <= i:
                        ops.append(("undef", pl["local"]))
                    ops[i] = val
                    env = dict(env)
                    env[pl["local"]] = ("agg", {"agg": "fields"}, ops)
            t = blk["term"]
            k = t["k"]
            if k == "Return":
                p = Path()
                p.blocks, p.atoms, p.order, p.events, p.env = blocks, atoms, order, events, env
                p.result = env.get(0)
                if p.result is None:
                    with b.restricted(set(blocks)):
                        p.result = b.trace(0)
                self.paths.append(p)
                return
            if k in ("Goto", "Drop", "Assert"):
                bi = t["target"]
                continue
            if k in ("Call", "TailCall"):
                args = [self.operand(a, env) for a in t["args"]]
                c = callee_of(t)
                fexpr = None if c else self.operand(t["func"], env)
                ev = ("call", c, args, bi) if c else ("call", None, args, bi, fexpr)
                events = events + [ev]
                d = t.get("dest")
                if d is not None and not d["proj"]:
                    env = dict(env)
                    env[d["local"]] = ("call", c, args, bi)
                if t.get("target") is None:
                    return
                bi = t["target"]
                continue
            if k == "SwitchInt":
                e = self.operand(t["discr"], env)
                edges = self.classify(e, t)
                seen_targets = set()
                todo = []
                for (tg, key, val) in edges:
                    if key is None:
                        todo = [(tg, atoms, order)]
                        break
                    if key in atoms:
                        if not self.consistent(atoms[key], val):
                            continue
                        na = dict(atoms)
                        na[key] = self.merge(atoms[key], val) if isinstance(atoms[key], tuple) else atoms[key]
                        todo.append((tg, na, order))
                    else:
                        na = dict(atoms)
                        na[key] = val
                        todo.append((tg, na, order + [(key, val)]))
                if len(todo) == 1:
                    bi, atoms, order = todo[0]
                    continue
                for (tg, na, no) in todo:
                    self._walk(tg, env, na, no, events, blocks, onpath)
                return
            # Unreachable / resume / anything else ends the path without a result
            return


def summarize(body, known=None, start=0, max_paths=6000, env=None):
    w = Walker(body, start=start, known=known, max_paths=max_paths, env=env)
    return w
