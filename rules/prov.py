#!/usr/bin/env python3
"""R-PROV — interprocedural may-provenance (tag) analysis over MIR.

Tags
  RULE     rule text (the rule parameter of the entry point and everything
           projected out of it; the operand vector of a lazy operator)
  RULE#c   the c-th operand of a lazy operator (args[c]) — still rule text
  DATA     the data parameter of the entry point / of an operator
  EVAL     a computed value: the result of any evaluate-role function, the
           operands of eager and data operators, anything derived from them

The analysis is flow-insensitive per local (sound over-approximation of every
path), field-sensitive only for closure environments, context-insensitive for
helper functions (parameter tags = join over all call sites), with explicit
transfer models for the std adaptors the crate uses (fold, map, for_each,
Option/Result combinators …).  Any other call gets the conservative default:
the result — and every parameter of every callable argument — carries the
union of all argument tags.

Sinks
  S1  a parameter position that is interpreted as rule text (entry point,
      value parser, list parser, the four Parser::from_value impls, the
      dispatcher): argument tags must be ⊆ {RULE, RULE#c}.
  S2  the data argument of every call to the parsed-value evaluator: reported
      with receiver tags and data tags so that C05/C13/C14 can state their
      per-operator expectations.

A failing S1 sink inside a lazy operator is re-examined by case analysis on
the kind of the operand(s) the function switches on (variant specialisation
with constant propagation of booleans through closure captures): the sink is
discharged when under every variant it is either unreachable or clean.
"""
from collections import defaultdict
from .core import callee_of, op_const, const_value, strip_refs, show_expr, kind_test, decide_kind_test, VALUE_ADT

RULEISH = lambda t: t == "RULE" or t.startswith("RULE#")

FOLD = {"fold", "try_fold", "rfold"}
ITEM_FN = {"map", "for_each", "filter", "any", "all", "find", "position", "filter_map", "flat_map",
           "take_while", "skip_while", "inspect", "find_map", "max_by_key", "min_by_key", "partition", "map_while"}
OPT_FN = {"map", "and_then", "filter", "map_or", "is_some_and", "is_ok_and", "inspect", "then"}
ELSE_FN = {"ok_or_else", "unwrap_or_else", "or_else", "map_err", "map_or_else", "get_or_insert_with"}
INDEX_PATH = "<std::vec::Vec<T, A> as std::ops::Index<I>>::index"


_CALLABLE_CACHE = {}
_INDEX_CACHE = {}


class Sink:
    def __init__(self, kind, body, bi, callee, pos, tags, extra=None):
        self.kind, self.body, self.bi, self.callee, self.pos, self.tags, self.extra = kind, body, bi, callee, pos, set(tags), extra or {}

    def ident(self):
        return "%s@%s#%d" % (self.body.key.split("::", 1)[1], self.callee.split("::", 1)[-1], self.pos)


class Prov:
    def __init__(self, roles, restrict=None, upconst=None, seeds=None, mark_inner=False):
        self.roles = roles
        self.facts = roles.facts
        self.custom_seeds = seeds
        self.mark_inner = mark_inner
        self.tags = defaultdict(set)
        self.restrict = restrict or {}
        self.upconst = upconst or {}
        self.mutalias = {}
        self.mutcap = {}     # (closure, local) -> index of the captured variable a &mut local was reborrowed from
        self.defaulted = set()
        self.s1 = {}
        self.s2 = {}
        self.error_unpacked = self._error_unpack_sites()
        self._seed()

    # ---------------------------------------------------------------- seeds
    def _seed(self):
        r = self.roles
        self.fixed = {}  # (key, local) -> frozen tag set (parameters whose tags are given by role)
        if self.custom_seeds is not None:
            self.fixed = {k: set(v) for k, v in self.custom_seeds.items()}
            for k, v in self.fixed.items():
                self.tags[k] = set(v)
            return
        for k, poss in r.sinks.items():
            for p in poss:
                self.fixed[(k, p)] = {"RULE"}
        self.fixed[(r.entry.key, 2)] = {"DATA"}
        for fk, info in r.op_fns.items():
            b = self.facts.body(fk)
            if b is None:
                continue
            base = 1 if b.kind == "closure" else 0
            if info["role"] == "eager":
                self.fixed[(fk, base + 1)] = {"EVAL"}
            elif info["role"] == "data":
                self.fixed[(fk, base + 1)] = {"DATA"}
                self.fixed[(fk, base + 2)] = {"EVAL"}
            else:
                self.fixed[(fk, base + 1)] = {"DATA"}
                self.fixed[(fk, base + 2)] = {"RULE"}
        for k, v in self.fixed.items():
            self.tags[k] = set(v)

    def _error_unpack_sites(self):
        """Places where something is taken out of a value of the crate's error type (the E of the entry point's
        Result<_, E>), outside the error type's own module (its Display/Debug impls).  When there are none, an error is
        opaque to the interpreter: whatever JSON value an error carries can never come back as a value that is tested,
        parsed or returned — so the Err side of `x?` and of `Result::and_then` hands on no provenance (as the Err side
        of `Result::map` never did)."""
        import re as _re
        out_ty = (self.facts.items.get(self.roles.entry.key) or {}).get("output") or ""
        m = _re.match(r"^std::result::Result<.*, ([\w:]+)>$", out_ty)
        if not m:
            return ["error type not identified"]
        self.error_adt = m.group(1)
        home = self.facts.crate + "::" + self.error_adt.rsplit("::", 1)[0] + "::" if "::" in self.error_adt else None
        sites = []

        def scan(b, bi, x):
            if isinstance(x, dict):
                pj = x.get("proj")
                if isinstance(pj, list) and any(isinstance(q, dict) and q.get("k") == "Downcast" and q.get("adt") == self.error_adt for q in pj):
                    if any(isinstance(q, dict) and q.get("k") == "Field" for q in pj):
                        sites.append("%s bb%d" % (b.key, bi))
                for v in x.values():
                    scan(b, bi, v)
            elif isinstance(x, list):
                for v in x:
                    scan(b, bi, v)
        for b in self.facts.bodies.values():
            if b.kind not in ("fn", "closure") or (home and b.key.startswith(home)):
                continue
            for bi, blk in enumerate(b.blocks):
                scan(b, bi, blk["stmts"])
                scan(b, bi, blk["term"])
        return sites

    # -------------------------------------------------------------- helpers
    def _add(self, key, new):
        if key in self.fixed:
            return False
        cur = self.tags[key]
        if not new <= cur:
            cur |= new
            return True
        return False

    def _inner(self, place, tags, b=None):
        """Going through the Array/Object payload of a JSON value — or through a field /
        variant payload of one of the crate's own tree types — yields a strict sub-structure."""
        crate = self.facts.crate
        for pr in place["proj"]:
            if pr["k"] == "Downcast":
                adt = pr.get("adt") or ""
                if (adt == "serde_json::Value" and pr["variant"] in ("Array", "Object")) or self._is_local_adt(adt):
                    return {t if t.endswith(".in") else t + ".in" for t in tags}
            if pr["k"] == "Field" and b is not None:
                adt = b.locals[place["local"]].get("adt") or ""
                if self._is_local_adt(adt) and self.facts.adts.get(adt, {}).get("kind") == "struct":
                    return {t if t.endswith(".in") else t + ".in" for t in tags}
        return tags

    def _is_local_adt(self, adt):
        return bool(adt) and not adt.startswith(("std::", "core::", "alloc::", "serde_json::", "phf::")) and adt in self.facts.adts

    def place_tags(self, b, p):
        if b.kind == "closure" and p["local"] == 1:
            for pr in p["proj"]:
                if pr["k"] == "Field":
                    return self.tags[(b.key, ("up", pr["i"]))]
                if pr["k"] != "Deref":
                    break
        # tuple built and destructured in place: `let (a, b) = (x, y)` keeps a and b apart
        if p["proj"] and p["proj"][0]["k"] == "Field" and not b.is_arg(p["local"]):
            ds = b.defs().get(p["local"], [])
            if len(ds) == 1 and ds[0][0] == "stmt" and not ds[0][4] and ds[0][3]["k"] == "Aggregate" and ds[0][3].get("agg") == "Tuple":
                ops = ds[0][3]["ops"]
                i = p["proj"][0]["i"]
                if i < len(ops):
                    return self.op_tags(b, ops[i])
        return self.tags[(b.key, p["local"])]

    def op_tags(self, b, o):
        if o["k"] in ("Copy", "Move"):
            return self.place_tags(b, o["place"])
        return set()

    def callable_of(self, b, o):
        """('closure', key) | ('fn', fnref) | None for an operand used as a callable argument."""
        c = op_const(o)
        if c is not None:
            return ("fn", c["fn"]) if "fn" in c else None
        e = strip_refs(b.trace(o))
        if e[0] == "agg" and e[1].get("agg") == "Closure":
            return ("closure", e[1]["closure"])
        if e[0] == "const" and "fn" in e[1]:
            return ("fn", e[1]["fn"])
        return None

    def blocks(self, b):
        r = self.restrict.get(b.key)
        rs = b.reachable()
        return sorted(rs if r is None else (rs & r))

    # ------------------------------------------------------------- fixpoint
    def run(self):
        bodies = [b for b in self.facts.bodies.values() if b.kind in ("fn", "closure")]
        for _ in range(60):
            self.changed = False
            self.s1.clear()
            self.s2.clear()
            for b in bodies:
                self._body(b)
            if not self.changed:
                break
        return self

    def _set(self, key, new):
        if self._add(key, set(new)):
            self.changed = True

    def _flow_to_place(self, b, place, new):
        if not new:
            return
        self._set((b.key, place["local"]), new)
        tgt = self.mutalias.get((b.key, place["local"]))
        if tgt is not None and any(p["k"] == "Deref" for p in place["proj"]):
            self._set((b.key, tgt), new)
        # an assignment through a variable captured by &mut (`*captured = v` inside a closure) is visible in the
        # creating body — as the mutation through &mut arguments of calls already was
        ci = self.mutcap.get((b.key, place["local"])) if b.kind == "closure" else None
        if ci is not None and any(p["k"] == "Deref" for p in place["proj"]):
            cr = b.creator()
            if cr is not None and ci < len(cr[1]):
                cb, o = cr[0], cr[1][ci]
                if o["k"] in ("Copy", "Move") and not o["place"]["proj"]:
                    ctgt = self.mutalias.get((cb.key, o["place"]["local"]), o["place"]["local"])
                    self._set((cb.key, ctgt), new)

    def _body(self, b):
        for bi in self.blocks(b):
            blk = b.blocks[bi]
            for s in blk["stmts"]:
                if s["k"] != "Assign":
                    continue
                rv = s["rv"]
                k = rv["k"]
                new = set()
                if b.kind == "closure" and not s["place"]["proj"]:
                    # a copy of a captured reference (`deref_copy (*env).i`): remembers which capture it stands for
                    pl_ = rv["op"]["place"] if (k == "Use" and rv["op"]["k"] in ("Copy", "Move")) else (rv["place"] if k == "CopyForDeref" else None)
                    if pl_ is not None and pl_["local"] == 1 and pl_["proj"] and pl_["proj"][-1]["k"] == "Field" and "&mut" in b.local_ty(s["place"]["local"]):
                        self.mutcap[(b.key, s["place"]["local"])] = pl_["proj"][-1]["i"]
                if k in ("Use", "Cast", "Repeat", "WrapUnsafeBinder"):
                    new |= self.op_tags(b, rv["op"])
                    if self.mark_inner and rv["op"]["k"] in ("Copy", "Move"):
                        new = self._inner(rv["op"]["place"], new, b)
                elif k == "UnaryOp":
                    pass
                elif k in ("Ref", "RawPtr", "CopyForDeref", "Discriminant"):
                    if k != "Discriminant":
                        new |= self.place_tags(b, rv["place"])
                        if self.mark_inner:
                            new = self._inner(rv["place"], new, b)
                    if k in ("Ref", "RawPtr") and rv.get("mut") and not s["place"]["proj"]:
                        src = rv["place"]["local"]
                        src = self.mutalias.get((b.key, src), src) if any(p["k"] == "Deref" for p in rv["place"]["proj"]) else src
                        self.mutalias[(b.key, s["place"]["local"])] = src
                        if b.kind == "closure" and rv["place"]["local"] == 1:
                            fld = [p_["i"] for p_ in rv["place"]["proj"] if p_["k"] == "Field"]
                            if fld:
                                self.mutcap[(b.key, s["place"]["local"])] = fld[0]
                        elif (b.key, rv["place"]["local"]) in self.mutcap and any(p_["k"] == "Deref" for p_ in rv["place"]["proj"]):
                            self.mutcap[(b.key, s["place"]["local"])] = self.mutcap[(b.key, rv["place"]["local"])]
                elif k == "BinaryOp":
                    pass  # scalar results carry no provenance of interest
                elif k == "Aggregate":
                    for o in rv["ops"]:
                        new |= self.op_tags(b, o)
                    if self.mark_inner and rv.get("agg") == "Adt" and (rv.get("adt") == "serde_json::Value" or self._is_local_adt(rv.get("adt") or "")):
                        # (C01 structural descent only) a tree built around parts of a parameter may be larger than the parameter
                        new = {t if ".built" in t else t.split(".in")[0] + ".built" for t in new}
                    if rv.get("agg") == "Closure":
                        ck = rv["closure"]
                        for i, o in enumerate(rv["ops"]):
                            self._set((ck, ("up", i)), self.op_tags(b, o))
                self._flow_to_place(b, s["place"], new)
            t = blk["term"]
            if t["k"] == "Call":
                self._call(b, bi, t)

    # ----------------------------------------------------------------- calls
    def _params_of(self, kind, ref):
        """(key, first_param_local, nparams, body|None)."""
        if kind == "closure":
            cb = self.facts.body(ref)
            return (ref, 2, (cb.arg_count - 1) if cb else 0, cb)
        r = ref.get("resolved") or ref
        fb = self.facts.body(r["key"]) if r["local"] else None
        return (r["key"], 1, fb.arg_count if fb else 0, fb)

    def _feed_callable(self, b, bi, call, param_sets):
        """param_sets: list of tag sets for the callable's parameters in order (None = union of all)."""
        kind, ref = call
        key, first, n, fb = self._params_of(kind, ref)
        if fb is None:
            # external fn item or enum constructor: identity on its arguments
            out = set()
            for ps in param_sets:
                out |= ps
            return out
        if key in self.roles.sinks:
            for pos in self.roles.sinks[key]:
                idx = pos - first
                if 0 <= idx < len(param_sets):
                    self._note_s1(b, bi, key, pos, param_sets[idx])
            ret = set()
            for pos in self.roles.sinks[key]:
                idx = pos - first
                if 0 <= idx < len(param_sets):
                    ret |= param_sets[idx]
            return ret
        for i, ps in enumerate(param_sets):
            if i < n:
                self._set((key, first + i), ps)
        if key in self.roles.evaluators:
            return {"EVAL"}
        return set(self.tags[(key, 0)])

    def _note_s1(self, b, bi, callee_key, pos, tags):
        self.s1[(b.key, bi, callee_key, pos)] = Sink("S1", b, bi, callee_key, pos, tags)

    def _call(self, b, bi, t):
        c = callee_of(t)
        args = t["args"]
        atags = [set(self.op_tags(b, a)) for a in args]
        allt = set()
        for x in atags:
            allt |= x
        dest = t["dest"]
        if c is None:
            # indirect call through a fn pointer (the operator tables): result is a computed value
            self._flow_to_place(b, dest, {"EVAL"})
            return
        key = c["key"]
        path = c["path"]
        local_body = self.facts.body(key) if c["local"] else None
        # ---- local callee
        if local_body is not None:
            if local_body.kind == "closure":
                # direct call of a closure value: (env, (args…))
                for i in range(2, local_body.arg_count + 1):
                    self._set((key, i), allt)
                self._flow_to_place(b, dest, set(self.tags[(key, 0)]))
                return
            res = None
            if key in self.roles.sinks and not (key == self.roles.entry.key and b.key not in self.roles.inside()):
                res = set()
                for pos in self.roles.sinks[key]:
                    if pos - 1 < len(atags):
                        self._note_s1(b, bi, key, pos, atags[pos - 1])
                        res |= atags[pos - 1]
                for i, ts in enumerate(atags):
                    if (i + 1) not in self.roles.sinks[key]:
                        self._set((key, i + 1), ts)
                if key == self.roles.entry.key:
                    res = {"EVAL"}
            else:
                for i, ts in enumerate(atags):
                    self._set((key, i + 1), ts)
                if key in self.roles.evaluators:
                    res = {"EVAL"}
                    if key == self.roles.parsed_evaluate and len(args) >= 2:
                        self.s2[(b.key, bi)] = Sink("S2", b, bi, key, 2, atags[1], {"receiver": set(atags[0])})
                else:
                    res = set(self.tags[(key, 0)])
            # forwarded local targets (Into→From etc.) are handled below through `fwd`
            self._flow_to_place(b, dest, res)
            return
        # ---- std forwarding to a local impl (Into→From, TryInto→TryFrom, …)
        fwd_local = [f for f in (t["callee"].get("fwd") or []) if f["local"] and self.facts.body(f["key"]) is not None]
        if fwd_local:
            res = set()
            for f in fwd_local:
                fk = f["key"]
                fb = self.facts.body(fk)
                for i, ts in enumerate(atags):
                    if i < fb.arg_count:
                        self._set((fk, i + 1), ts)
                if fk in self.roles.evaluators:
                    res |= {"EVAL"}
                else:
                    res |= self.tags[(fk, 0)]
            self._flow_to_place(b, dest, res)
            return
        # ---- the c-th operand of a lazy operator
        if path == INDEX_PATH and len(args) == 2:
            ik = (id(self.facts), b.key, bi)
            if ik not in _INDEX_CACHE:
                base = strip_refs(b.trace(args[0]))
                cv = const_value(op_const(args[1])) if op_const(args[1]) else None
                if cv is None:
                    e1 = strip_refs(b.trace(args[1]))
                    cv = const_value(e1[1]) if e1[0] == "const" else None
                _INDEX_CACHE[ik] = (base, cv)
            base, cv = _INDEX_CACHE[ik]
            root = self._root_unit(b)
            info = self.roles.op_fns.get(root)
            if info and info["role"] == "lazy" and isinstance(cv, int) and self._is_args_param(b, base, root):
                self._flow_to_place(b, dest, {"RULE#%d" % cv})
                return
        # ---- `x?` on a Result: what is handed on is the error, and errors are opaque (see _error_unpack_sites)
        if path.endswith("::from_residual") and "std::result::Result<" in path and not self.error_unpacked:
            self._flow_to_place(b, dest, set())
            return
        # ---- std adaptors with callable arguments
        ck = (b.key, bi)
        calls = _CALLABLE_CACHE.get((id(self.facts), ck))
        if calls is None:
            calls = [(i, self.callable_of(b, a)) for i, a in enumerate(args)]
            calls = [(i, c2) for i, c2 in calls if c2 is not None]
            _CALLABLE_CACHE[(id(self.facts), ck)] = calls
        meth = path.rsplit("::", 1)[-1]
        is_iter = "Iterator" in path or "iter::" in path
        is_optres = path.startswith("std::option::Option::<") or path.startswith("std::result::Result::<")
        res = set()
        if calls:
            if is_iter and meth in FOLD and len(args) == 3 and calls[-1][0] == 2:
                f = calls[-1][1]
                fkey = self._params_of(*f)[0]
                ret = set(self.tags[(fkey, 0)]) if self.facts.body(fkey) is not None else set()
                out = self._feed_callable(b, bi, f, [atags[1] | ret, atags[0]])
                res = atags[1] | out
            elif is_iter and meth in ITEM_FN and len(args) == 2 and calls[-1][0] == 1:
                out = self._feed_callable(b, bi, calls[-1][1], [atags[0]])
                res = out if meth in ("map", "filter_map", "flat_map", "find_map", "map_while") else (atags[0] | out)
            elif is_optres and meth in OPT_FN and len(args) == 2 and calls[-1][0] == 1:
                out = self._feed_callable(b, bi, calls[-1][1], [atags[0]])
                # map: only the closure's result; and_then likewise when errors are opaque (the Err side hands on an error)
                res = out | (atags[0] if not (meth == "map" or (meth == "and_then" and not self.error_unpacked)) else set())
            elif is_optres and meth in ("map_or", "map_or_else") and len(args) == 3 and calls and calls[-1][0] == 2:
                # x.map_or(default, f) / x.map_or_else(g, f): the payload goes to the last callable, the result is its
                # result or the default (for map_or_else: what the first callable returns)
                out = self._feed_callable(b, bi, calls[-1][1], [atags[0]])
                res = out | atags[1]
                if meth == "map_or_else" and len(calls) == 2:
                    res |= self._feed_callable(b, bi, calls[0][1], [atags[0]])
            elif is_optres and meth in ELSE_FN and calls[-1][0] == len(args) - 1:
                out = self._feed_callable(b, bi, calls[-1][1], [atags[0]])
                res = atags[0] | out
                for x in atags[1:-1]:
                    res |= x
            else:
                self.defaulted.add(path)
                res = set(allt)
                for i, f in calls:
                    fkey, first, n, fb = self._params_of(*f)
                    ret = set(self.tags[(fkey, 0)]) if fb is not None else set()
                    out = self._feed_callable(b, bi, f, [allt | ret] * max(n, 1))
                    res |= out
        else:
            res = set(allt)
        # mutation through &mut arguments (push, insert, extend, push_str …)
        # (not the receiver of an Iterator method that takes a callable — `it.find_map(f)`, `it.try_fold(s, f)`, `it.any(f)`
        #  on `&mut it`: the iterator is advanced, `f` and the seed have no access to it, nothing they carry gets into it)
        iter_recv = bool(calls) and is_iter and meth in (FOLD | ITEM_FN | {"try_for_each"})
        for i, a in enumerate(args):
            if i == 0 and iter_recv:
                continue
            if a["k"] in ("Copy", "Move") and not a["place"]["proj"]:
                tgt = self.mutalias.get((b.key, a["place"]["local"]))
                if tgt is not None:
                    others = set()
                    for j, x in enumerate(atags):
                        if j != i:
                            others |= x
                    self._set((b.key, tgt), others)
                    # the mutated thing is a variable captured by &mut: the mutation is visible in the creating body
                    ci = self.mutcap.get((b.key, a["place"]["local"]))
                    if ci is not None and b.kind == "closure":
                        cr = b.creator()
                        if cr is not None and ci < len(cr[1]):
                            cb, o = cr[0], cr[1][ci]
                            if o["k"] in ("Copy", "Move") and not o["place"]["proj"]:
                                ctgt = self.mutalias.get((cb.key, o["place"]["local"]), o["place"]["local"])
                                self._set((cb.key, ctgt), others)
        self._flow_to_place(b, dest, res)

    def _root_unit(self, b):
        k = b.key
        while "::{closure#" in k and k not in self.roles.op_fns:
            k = k.rsplit("::{closure#", 1)[0]
        return k

    def _is_args_param(self, b, base, root):
        rb = self.facts.body(root)
        first = 2 if rb.kind == "closure" else 1
        argsp = first + 1
        if b.key == root:
            return base == ("arg", argsp)
        return False


# ------------------------------------------------------------------ case split
def switch_places(body, roles):
    """Operand expressions (Index(args, c)) whose discriminant the function switches on."""
    out = {}
    for bi in body.reachable():
        t = body.blocks[bi]["term"]
        if t["k"] != "SwitchInt":
            continue
        e = body.trace(t["discr"])
        if e[0] == "discr":
            x = strip_refs(e[1])
            if x[0] == "call" and x[1] and x[1]["path"] == INDEX_PATH:
                out[repr(x)] = (x, e[2])
        else:
            kt = kind_test(e)       # `args[0].is_object()` switches on the kind of args[0] as a `match` does
            if kt is not None and kt[0][0] == "call" and kt[0][1] and kt[0][1]["path"] == INDEX_PATH:
                out.setdefault(repr(kt[0]), (kt[0], VALUE_ADT))
    return list(out.values())


def specialise_unit(roles, root_key, assume, assume_bool=None):
    """Reachable blocks of a function and its nested closures under a variant
    assumption, with constant propagation of captured booleans.
    Returns {body_key: blocks}."""
    facts = roles.facts
    unit = roles.unit(root_key)
    by_key = {b.key: b for b in unit}
    restrict = {}
    upconst = {}

    def spec(b):
        known = upconst.get(b.key, {})
        blocks = set(b.reachable())
        for _ in range(4):
            def aval(e, dty, _b=b, _blocks=blocks, _known=known):
                x = strip_refs(e)
                if assume_bool is not None:
                    hv = assume_bool(x)
                    if hv is not None:
                        return "1" if hv else "0"
                v = const_of(_b, x, _known)
                if isinstance(v, bool):
                    return "1" if v else "0"
                return None
            nb = _specialise(b, assume, aval, blocks)
            if nb == blocks:
                break
            blocks = nb
        restrict[b.key] = blocks
        # closures created in reachable blocks: propagate constant captures
        for bi in sorted(blocks):
            for s in b.blocks[bi]["stmts"]:
                if s["k"] == "Assign" and s["rv"]["k"] == "Aggregate" and s["rv"].get("agg") == "Closure":
                    ck = s["rv"]["closure"]
                    if ck not in by_key:
                        continue
                    kc = {}
                    with b.restricted(blocks):
                        for i, o in enumerate(s["rv"]["ops"]):
                            v = const_of(b, strip_refs(b.trace(o)), known)
                            if v is not None:
                                kc[i] = v
                    upconst[ck] = kc
                    spec(by_key[ck])

    def const_of(b, x, known):
        if x[0] == "const":
            return const_value(x[1])
        if b.kind == "closure" and x[0] == "field" and strip_refs(x[1]) == ("arg", 1):
            return known.get(x[2])
        if x[0] == "phi":
            vals = {repr(const_of(b, strip_refs(y), known)) for y in x[2]}
            if len(vals) == 1:
                return const_of(b, strip_refs(x[2][0]), known)
        return None

    spec(by_key[root_key])
    # closures never created on a reachable path are unreachable themselves
    for b in unit:
        restrict.setdefault(b.key, set())
    return restrict


def _specialise(b, assume, aval, within):
    seen = set()
    st = [0]
    facts = b.facts
    while st:
        n = st.pop()
        if n in seen:
            continue
        seen.add(n)
        t = b.blocks[n]["term"]
        if t["k"] == "SwitchInt":
            with b.restricted(within):
                e = b.trace(t["discr"])
            tgt = None
            if e[0] == "discr":
                v = assume(strip_refs(e[1]), e[2])
                if v is not None:
                    dv = None
                    for var in facts.adts.get(e[2], {}).get("variants", []):
                        if var["name"] == v:
                            dv = str(var["discr"])
                    tgt = t["otherwise"]
                    for val, bb in t["arms"]:
                        if val == dv:
                            tgt = bb
            elif t.get("dty") == "bool" and decide_kind_test(t, e, assume) is not None:
                tgt = decide_kind_test(t, e, assume)
            elif t.get("dty") == "bool":
                v = aval(e, "bool")
                if v is not None:
                    tgt = t["otherwise"]
                    for val, bb in t["arms"]:
                        if val == v:
                            tgt = bb
            if tgt is not None:
                st.append(tgt)
                continue
        st.extend(b.succs(n))
    return seen


def analyse(roles):
    """Global analysis + case-split discharge.  Returns (prov, s1_results) where
    s1_results = [(sink, verdict, how)] with verdict in {'clean','discharged','dirty'}."""
    p = Prov(roles).run()
    results = []
    for k, s in sorted(p.s1.items(), key=lambda kv: (kv[0][0], kv[0][1])):
        bad = {t for t in s.tags if not RULEISH(t)}
        if not bad:
            results.append((s, "clean", ""))
            continue
        root = p._root_unit(s.body)
        info = roles.op_fns.get(root)
        how = ""
        verdict = "dirty"
        rb = roles.facts.body(root)
        # the case analysis is an argument about one function and the places it switches on: it holds for a lazy operator
        # and equally for a private function that an operator hands its operand list to (`all`/`some` → one shared body)
        if (info and info["role"] == "lazy") or (rb is not None and rb.kind == "fn" and root not in roles.op_fns and not (roles.facts.items.get(root, {}).get("exported") or roles.facts.items.get(root, {}).get("reachable")) and switch_places(rb, roles)):
            places = switch_places(rb, roles)
            if places:
                ok_all = True
                cases = []
                for (x, adt) in places[:1]:
                    for v in roles.facts.variants(adt):
                        restrict = specialise_unit(roles, root, lambda e, a, _x=x, _v=v, _adt=adt: _v if (a == _adt and e == _x) else None)
                        q = Prov(roles, restrict=restrict).run()
                        s2 = q.s1.get(k)
                        if s2 is None:
                            cases.append("%s: unreachable" % v)
                            continue
                        bad2 = {t for t in s2.tags if not RULEISH(t)}
                        if bad2:
                            ok_all = False
                            cases.append("%s: %s" % (v, sorted(s2.tags)))
                        else:
                            cases.append("%s: clean" % v)
                    how = "case split on the kind of %s — %s" % (show_expr(x), "; ".join(cases))
                if ok_all:
                    verdict = "discharged"
        results.append((s, verdict, how))
    return p, results
