#!/usr/bin/env python3
"""Role resolution: find the anchors of the evaluator by what they do and by
their types, never by their names.  A role that cannot be resolved makes the
calling check INCONCLUSIVE."""
from .core import callee_of, callee_path
from .engine import Inconclusive
from . import table as T
from .dispatch import Dispatcher

VALUE_REF = "&serde_json::Value"


class Roles:
    def __init__(self, facts):
        self.facts = facts
        self.tables = T.read_tables(facts)
        self.by_role = T.by_role(self.tables)
        self.disp = Dispatcher(facts)
        items = facts.items
        # entry point: exported fn(&Value,&Value) -> Result<Value,_>
        ent = [b for b in facts.fns() if b.kind == "fn" and items.get(b.key, {}).get("exported")
               and items[b.key].get("inputs") == [VALUE_REF, VALUE_REF]
               and items[b.key]["output"].startswith("std::result::Result<serde_json::Value")
               and "::js_op::" not in b.key]
        if len(ent) != 1:
            raise Inconclusive("public entry point apply(&Value,&Value) not identified (%d candidates)" % len(ent))
        self.entry = ent[0]
        # value parser: calls >= 3 distinct `<X as Parser>::from_value`
        vp = []
        for b in facts.fns():
            if b.kind != "fn":
                continue
            unit = [b] + [x for x in facts.fns() if x.key.startswith(b.key + "::{closure#")]
            ps = {callee_of(t)["key"] for ub in unit for _, t in ub.calls() if callee_of(t) and callee_of(t)["local"]
                  and callee_of(t)["path"].endswith("::from_value") and " as Parser<" in callee_of(t)["path"]}
            if len(ps) >= 3:
                vp.append((b, ps))
        if len(vp) != 1:
            raise Inconclusive("value parser not identified (%d candidates)" % len(vp))
        self.value_parser, self.parsers = vp[0]
        self.parsed_ty = items[self.value_parser.key]["output"]  # Result<Parsed<'a>, Error>
        import re as _re
        self.parsed_adt = _re.match(r"std::result::Result<([\w:]+)", self.parsed_ty).group(1)
        # list parser: fn(Vec<&Value>) -> Result<Vec<Parsed>>
        self.list_parsers = [b for b in facts.fns() if b.kind == "fn" and items.get(b.key, {}).get("output", "").startswith("std::result::Result<std::vec::Vec<%s" % self.parsed_adt)]
        # evaluate-role functions: return Result<Evaluated<..>, _>
        self.evaluated_adt = None
        self.evaluators = set()
        for b in facts.fns():
            if b.kind != "fn":
                continue
            out = items.get(b.key, {}).get("output", "")
            if out.startswith("std::result::Result<") and _re.match(r"std::result::Result<[\w:]*Evaluated\b", out):
                self.evaluators.add(b.key)
                self.evaluated_adt = _re.match(r"std::result::Result<([\w:]+)", out).group(1)
        if len(self.evaluators) < 5:
            raise Inconclusive("expected the five evaluate functions (4 parser impls + the parsed-value dispatcher), found %d" % len(self.evaluators))
        # the evaluator of parsed values (called by operators): first input is &Parsed
        pe = [k for k in self.evaluators if items[k]["inputs"] and items[k]["inputs"][0].startswith("&" + self.parsed_adt)]
        if len(pe) != 1:
            raise Inconclusive("parsed-value evaluator not identified")
        self.parsed_evaluate = pe[0]
        # conversion Evaluated -> Value
        conv = [b for b in facts.fns() if b.kind == "fn" and items.get(b.key, {}).get("output") == "serde_json::Value"
                and len(items[b.key].get("inputs", [])) == 1 and self.evaluated_adt and items[b.key]["inputs"][0].startswith(self.evaluated_adt)]
        # the faithful one: for every variant the payload itself or a clone of it (no look at the JSON kind);
        # any other fn(Evaluated) -> Value is a lossy conversion that clauses about "the evaluated value" must not see through
        from .core import strip_refs
        faithful = []
        self.lossy_conversions = []
        for cb in conv:
            adt = cb.locals[1]["adt"]
            owned = None
            good = True
            for v in facts.variants(adt):
                blocks, dec = cb.specialize(lambda e, a, _v=v: _v if (a == adt and e == ("arg", 1)) else None)
                with cb.restricted(blocks):
                    r = strip_refs(cb.trace(0))
                pay = ("field", ("downcast", ("arg", 1), v), 0)
                if r == pay:
                    owned = v
                elif r[0] == "call" and r[1] and r[1]["path"].endswith("as std::clone::Clone>::clone") and strip_refs(r[2][0]) == pay:
                    pass
                else:
                    good = False
            if good:
                faithful.append((cb, owned))
            else:
                self.lossy_conversions.append(cb.key)
        self.conv_faithful = True
        if len(faithful) == 1:
            self.conv, self.owned_variant = faithful[0]
        else:
            # no faithful candidate: the trait conversion `From<Evaluated> for Value` keeps the role, marked unfaithful —
            # the clauses that rely on "the result is the evaluated value itself" (C02 K3, C14 K2) report it
            trait = [cb for cb in conv if "::{impl#" in cb.key and cb.key.endswith("::from")]
            if len(faithful) == 0 and len(trait) == 1:
                self.conv, self.owned_variant = trait[0], None
                self.conv_faithful = False
                self.lossy_conversions = [k for k in self.lossy_conversions if k != trait[0].key]
            else:
                raise Inconclusive("conversion Evaluated → Value not identified (%d faithful candidates of %d)" % (len(faithful), len(conv)))
        # sink functions: parameter positions that must only ever receive rule text
        self.sinks = {self.entry.key: [1], self.value_parser.key: [1], self.disp.body.key: [self.disp.value_arg]}
        for k in self.parsers:
            self.sinks[k] = [1]
        for b in self.list_parsers:
            self.sinks[b.key] = [1]
        # operator functions by table role
        self.op_fns = {}
        for t in self.tables:
            for e in t.entries:
                self.op_fns.setdefault(e.fn_key, {"role": t.role, "keys": []})["keys"].append(e.key)

    def inside(self):
        """Bodies that run as part of an evaluation (reachable from the entry point, through the tables)."""
        if getattr(self, "_inside", None) is None:
            roots = [self.entry.key] + list(self.op_fns)
            self._inside = self.facts.reach(roots)
        return self._inside

    def fn_of(self, opname):
        e = T.entry(self.tables, opname)
        if e is None:
            raise Inconclusive("operator %r is not bound in any table" % opname)
        return self.facts.body(e.fn_key), e

    def unit(self, key):
        """A function body together with all closures nested in it."""
        return [b for b in self.facts.fns() if b.key == key or b.key.startswith(key + "::{closure#")]
