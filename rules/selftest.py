#!/usr/bin/env python3
"""E5 self-test (thorough tier): the check must fire on every stored change that
targets its property and stay quiet on every behaviour-preserving edit — run on
scratch copies of /repo's *current* tree (outside /repo and /verif, removed
afterwards).  A stored change that no longer applies is skipped, not failed."""
import importlib.util, os, sys
from concurrent.futures import ThreadPoolExecutor

VERIF = os.path.dirname(os.path.dirname(os.path.abspath(__file__)))


def _km():
    spec = importlib.util.spec_from_file_location("killmatrix", os.path.join(VERIF, "tools", "killmatrix.py"))
    m = importlib.util.module_from_spec(spec)
    spec.loader.exec_module(m)
    return m


def run(ctx, prop):
    if os.environ.get("JL_NO_SELFTEST") or os.environ.get("JL_REPO"):
        ctx.notes.append("self-test skipped (nested run)")
        return
    km = _km()
    js = [j for j in km.jobs() if (j[2] == "break" and prop in j[3]) or j[2] == "preserve"]
    nj = min(6, max(1, len(js)))
    parts = [[(i, j) for i, j in enumerate(js) if i % nj == s] for s in range(nj)]

    def run_part(part):
        return [km.run_one(j, [prop], 10 + (i % nj)) for i, j in part]

    results = []
    with ThreadPoolExecutor(max_workers=nj) as ex:
        for out in ex.map(run_part, parts):
            results.extend(out)
    caught = missed = quiet = noisy = skipped = 0
    rows = []
    for r in sorted(results, key=lambda x: x["name"]):
        if "error" in r:
            skipped += 1
            rows.append({"change": r["name"], "verdict": "skipped (does not apply to the current tree)"})
            continue
        v = r["results"][prop]
        fired = v["exit"] == 1 and v["violation_line"]
        if r["kind"] == "break":
            if fired:
                caught += 1
            else:
                missed += 1
            rows.append({"change": r["name"], "expect": "fires", "exit": v["exit"], "clauses": v["clauses"]})
        else:
            if v["exit"] == 0:
                quiet += 1
            else:
                noisy += 1
            rows.append({"change": r["name"], "expect": "quiet", "exit": v["exit"], "clauses": v["clauses"]})
    ctx.counts["self-test"] = {"breaking changes caught": caught, "missed": missed, "preserving edits quiet": quiet, "noisy": noisy, "skipped": skipped}
    ctx.selftest = rows
    # The self-test measures the *checker* (which stored changes it detects, which refactors it stays quiet on); it says
    # nothing about /repo, so it never changes the verdict on the tree — the numbers go into the evidence.
    if missed:
        ctx.notes.append("self-test: %d stored breaking change(s) given for %s are not detected by this check (limits of the static clauses, see DESIGN.md §8): %s" % (missed, prop, [r["change"] for r in rows if r.get("expect") == "fires" and r.get("exit") != 1]))
    if noisy:
        ctx.notes.append("self-test: the check is not quiet on %d stored behaviour-preserving edit(s): %s" % (noisy, [r["change"] for r in rows if r.get("expect") == "quiet" and r.get("exit") != 0]))
