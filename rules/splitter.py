#!/usr/bin/env python3
"""The dotted-path splitter as a finite-state transducer, read off the MIR.

The splitter is a loop over the characters of its input with one boolean of
state (the escape flag), a current segment (String) and a result (Vec<String>).
Every acyclic path through one iteration is enumerated; for each path the
decisions it takes (escape flag, `c == '\\\\'`, `c == delimiter`) and its effects
(pushes onto the segment, emission of the segment, flag writes) are collected
and compared with the transducer the property states:

    flag set                    : segment += c (exactly that), flag := false
    flag clear, c is backslash  : nothing pushed, nothing emitted, flag := true
    flag clear, c is delimiter  : segment emitted and cleared, nothing pushed
    flag clear, any other c     : segment += c (exactly that)

The path enumeration is over the control-flow graph — nothing is executed.  A
shape that is not a one-flag loop over `str::chars` is reported as unreadable
(INCONCLUSIVE), never as a violation.
"""
import re
from .core import callee_of, callee_path, strip_refs, show_expr, const_value
from .engine import Inconclusive
from . import panic as PN

PURE = re.compile(r"as std::clone::Clone>::clone$|as std::ops::Deref(Mut)?>::deref(_mut)?$|::as_str$|::as_mut_str$|as std::borrow::Borrow")


class Transducer:
    def __init__(self, body):
        self.b = body
        self.issues = []
        self.paths = []
        self._read()

    # ---- raw def-use helpers -------------------------------------------------
    def root(self, local, seen=None):
        """Follow single-definition copy/move temporaries to the local they copy."""
        b = self.b
        seen = seen or set()
        while local not in seen:
            seen.add(local)
            if b.is_arg(local):
                return local
            ds = b.defs().get(local, [])
            if len(ds) != 1 or ds[0][0] != "stmt" or ds[0][4]:
                return local
            rv = ds[0][3]
            if rv["k"] == "Use" and rv["op"]["k"] in ("Copy", "Move") and not rv["op"]["place"]["proj"]:
                local = rv["op"]["place"]["local"]
                continue
            if rv["k"] == "Use" and rv["op"]["k"] in ("Copy", "Move") and len(rv["op"]["place"]["proj"]) == 1 and rv["op"]["place"]["proj"][0]["k"] == "Deref":
                # copy through a reference to a local (match guards bind by reference)
                t = self.ref_target({"k": "Copy", "place": {"local": rv["op"]["place"]["local"], "proj": []}})
                if t is not None:
                    local = t
                    continue
            return local
        return local

    def ref_target(self, op):
        """Local that operand `op` (a &/&mut temp, possibly reborrowed) points to; None if unknown."""
        b = self.b
        if op["k"] not in ("Copy", "Move"):
            return None
        l = op["place"]["local"]
        l0 = l
        for _ in range(6):
            if op["place"]["proj"] and l == op["place"]["local"]:
                return None
            ds = b.defs().get(l, [])
            if len(ds) != 1 or ds[0][0] != "stmt":
                # a reborrow chain that ends at a call result / multi-definition local: that local is the target
                return l if l != l0 else None
            rv = ds[0][3]
            if rv["k"] == "Ref":
                pl = rv["place"]
                if not pl["proj"]:
                    return pl["local"]
                if len(pl["proj"]) == 1 and pl["proj"][0]["k"] == "Deref":
                    l = pl["local"]
                    continue
                return None
            if rv["k"] == "Use" and rv["op"]["k"] in ("Copy", "Move") and not rv["op"]["place"]["proj"]:
                l = rv["op"]["place"]["local"]
                continue
            return None
        return None

    # ---- reading the loop ------------------------------------------------------
    def _read(self):
        b = self.b
        loops = PN.loops_of(b)
        if len(loops) != 1:
            raise Inconclusive("splitter: expected one loop, found %d" % len(loops))
        header, blocks, srcs = loops[0]
        self.header, self.blocks = header, blocks
        nxt = [bi for bi in sorted(blocks) if b.blocks[bi]["term"]["k"] == "Call" and (callee_path(b.blocks[bi]["term"]) or "").endswith("::next")]
        if len(nxt) != 1:
            raise Inconclusive("splitter: expected one Iterator::next in the loop, found %d" % len(nxt))
        self.next_bi = nxt[0]
        nt = b.blocks[self.next_bi]["term"]
        self.next_path = callee_path(nt)
        self.iter_expr = strip_refs(b.trace(nt["args"][0]))
        opt_local = nt["dest"]["local"]
        # the Some edge
        some_t = None
        for sb in sorted(blocks):
            tt = b.blocks[sb]["term"]
            if tt["k"] != "SwitchInt":
                continue
            e = b.trace(tt["discr"])
            if e[0] == "discr" and strip_refs(e[1])[0] == "call" and strip_refs(e[1])[3] == self.next_bi:
                from .core import switch_edges_for_variant
                r = switch_edges_for_variant(b, sb, "Some")
                if r:
                    some_t = r[0]
        if some_t is None:
            raise Inconclusive("splitter: Some edge of next() not found")
        # element locals: copies of (opt as Some).0
        self.elems = set()
        for bi in blocks:
            for s in b.blocks[bi]["stmts"]:
                if s["k"] == "Assign" and s["rv"]["k"] == "Use" and s["rv"]["op"]["k"] in ("Copy", "Move"):
                    pl = s["rv"]["op"]["place"]
                    if pl["local"] == opt_local and any(p["k"] == "Downcast" and p.get("variant") == "Some" for p in pl["proj"]):
                        self.elems.add(s["place"]["local"])
        if not self.elems:
            raise Inconclusive("splitter: loop element not found")
        # flag locals: bool locals written with constants inside the loop and switched on inside the loop
        written = {}
        for bi in blocks:
            for s in b.blocks[bi]["stmts"]:
                if s["k"] == "Assign" and not s["place"]["proj"] and s["rv"]["k"] == "Use" and s["rv"]["op"]["k"] == "Const" and s["rv"]["op"]["const"].get("ty") == "bool":
                    written.setdefault(s["place"]["local"], set()).add(s["rv"]["op"]["const"]["bool"])
        tested = set()
        for sb in blocks:
            tt = b.blocks[sb]["term"]
            if tt["k"] == "SwitchInt" and tt["discr"]["k"] in ("Copy", "Move"):
                tested.add(self.root(tt["discr"]["place"]["local"]))
        flags = [l for l in written if l in tested and b.locals[l]["ty"] == "bool"]
        if len(flags) != 1:
            raise Inconclusive("splitter: expected one boolean of loop state, found %d" % len(flags))
        self.flag = flags[0]
        # its value on loop entry
        init = set()
        for d in b.defs().get(self.flag, []):
            if d[0] == "stmt" and d[1] not in blocks:
                rv = d[3]
                init.add(rv["op"]["const"]["bool"] if rv["k"] == "Use" and rv["op"]["k"] == "Const" else None)
        self.flag_init = init
        # enumerate paths through one iteration
        self._enum(some_t)
        # after the loop: is the pending segment emitted, and is the result what is returned?
        self.tail_emits = []
        outside = b.reachable() - blocks
        for bi in sorted(outside):
            t = b.blocks[bi]["term"]
            if t["k"] == "Call" and not b.blocks[bi]["cleanup"] and b.dominates(header, bi):
                eff = self._effect(bi, t, {})
                if eff and eff[0] == "emit":
                    self.tail_emits.append(eff)

    def _decision(self, sb, tt, target_label):
        b = self.b
        d = tt["discr"]
        if d["k"] not in ("Copy", "Move"):
            return ("opaque", "const")
        l = self.root(d["place"]["local"])
        if l == self.flag:
            return ("flag", target_label != "0")
        if l in self.elems or self.root(l) in self.elems:
            # match on the character itself
            if target_label == "otherwise":
                return ("not-in", tuple(sorted(chr(int(v)) for v, _ in tt["arms"])))
            return ("is", chr(int(target_label)), True)
        ds = b.defs().get(l, [])
        if len(ds) == 1 and ds[0][0] == "stmt" and ds[0][3]["k"] == "BinaryOp" and ds[0][3]["op"] in ("Eq", "Ne"):
            rv = ds[0][3]
            truth = (target_label != "0") == (rv["op"] == "Eq")
            ops = [rv["a"], rv["b"]]
            el = [o for o in ops if o["k"] in ("Copy", "Move") and not o["place"]["proj"] and self.root(o["place"]["local"]) in self.elems]
            ot = [o for o in ops if o not in el]
            if len(el) == 1 and len(ot) == 1:
                o = ot[0]
                if o["k"] == "Const" and "char" in o["const"]:
                    return ("is", o["const"]["char"], truth)
                if o["k"] in ("Copy", "Move") and not o["place"]["proj"] and b.is_arg(self.root(o["place"]["local"])):
                    return ("is-arg", self.root(o["place"]["local"]), truth)
        if len(ds) == 1 and ds[0][0] == "stmt" and ds[0][3]["k"] == "UnaryOp" and ds[0][3].get("op") == "Not":
            o = ds[0][3].get("a") or ds[0][3].get("operand")
            if o and o["k"] in ("Copy", "Move") and self.root(o["place"]["local"]) == self.flag:
                return ("flag", target_label == "0")
        return ("opaque", show_expr(b.trace(d))[:80])

    def _effect(self, bi, t, clones):
        """Classify a call's effect on the segment / result."""
        b = self.b
        p = callee_path(t) or "?"
        args = t["args"]
        tgt = self.ref_target(args[0]) if args else None
        ty = b.locals[tgt]["ty"] if tgt is not None else ""
        if p == "std::string::String::push" and ty == "std::string::String":
            x = args[1]
            if x["k"] == "Const":
                return ("push", "const " + repr(x["const"].get("char")), tgt)
            r = self.root(x["place"]["local"]) if not x["place"]["proj"] else None
            return ("push", "elem" if r in self.elems else "other", tgt)
        if re.search(r"^std::string::String::(push_str|insert|insert_str|extend\w*)$|as std::iter::Extend<.*>>::extend$|as std::fmt::Write>::write_\w+$|as std::ops::AddAssign<.*>>::add_assign$", p) and ty == "std::string::String":
            return ("push", "other", tgt)
        if re.search(r"^std::string::String::(pop|truncate|remove|drain|retain)$", p) and ty == "std::string::String":
            return ("shrink", p.rsplit("::", 1)[1], tgt)
        if p == "std::string::String::clear" and ty == "std::string::String":
            return ("clear", tgt)
        if re.search(r"^std::mem::(take|replace)$", p) and ty == "std::string::String":
            clones[t["dest"]["local"]] = ("taken", tgt)
            return ("clear", tgt)
        if p.endswith("as std::clone::Clone>::clone") and ty == "std::string::String":
            clones[t["dest"]["local"]] = ("clone", tgt)
            return None
        if p == "std::vec::Vec::<T, A>::push" and ty.startswith("std::vec::Vec<std::string::String"):
            x = args[1]
            src = None
            if x["k"] in ("Copy", "Move") and not x["place"]["proj"]:
                r = self.root(x["place"]["local"])
                src = clones.get(r) or clones.get(x["place"]["local"]) or (("moved", r) if b.locals[r]["ty"] == "std::string::String" else None)
            return ("emit", src, tgt)
        if PURE.search(p) or p.endswith("::is_empty") or p.endswith("::len"):
            return None
        if p.endswith("::next") and bi == self.next_bi:
            return None
        return ("call", p)

    def _enum(self, start):
        b = self.b
        out = []

        def walk(n, decisions, effects, flagw, clones, seen):
            if len(out) > 4000:
                raise Inconclusive("splitter: too many paths through one iteration")
            if n == self.header:
                out.append((list(decisions), list(effects), list(flagw)))
                return
            if n in seen or n not in self.blocks:
                # leaves the loop from inside an iteration (break / return) or an inner cycle
                out.append((list(decisions), list(effects) + [("leaves", n)], list(flagw)))
                return
            seen = seen | {n}
            blk = b.blocks[n]
            flagw = list(flagw)
            effects = list(effects)
            for s in blk["stmts"]:
                if s["k"] == "Assign" and not s["place"]["proj"] and s["place"]["local"] == self.flag:
                    rv = s["rv"]
                    flagw.append(rv["op"]["const"]["bool"] if rv["k"] == "Use" and rv["op"]["k"] == "Const" else None)
            t = blk["term"]
            if t["k"] == "Call":
                clones = dict(clones)
                eff = self._effect(n, t, clones)
                if eff:
                    effects.append(eff)
                if t["target"] is not None:
                    walk(t["target"], decisions, effects, flagw, clones, seen)
                return
            if t["k"] == "SwitchInt":
                for lab, tg in b.edges(n):
                    if b.blocks[tg]["term"]["k"] == "Unreachable":
                        continue
                    walk(tg, decisions + [self._decision(n, t, lab)], effects, flagw, clones, seen)
                return
            for lab, tg in b.edges(n):
                walk(tg, decisions, effects, flagw, clones, seen)

        walk(start, [], [], [], {}, frozenset())
        self.paths = out

    # ---- the verdicts -------------------------------------------------------------
    def classify(self, decisions, delim_arg):
        """(flag, is_backslash, is_delim) with None for undecided; 'contradiction' paths dropped by caller."""
        flag = bs = dl = None
        opaque = []
        for d in decisions:
            if d[0] == "flag":
                if flag is not None and flag != d[1]:
                    return "infeasible"
                flag = d[1]
            elif d[0] == "is":
                if d[1] == "\\":
                    if bs is not None and bs != d[2]:
                        return "infeasible"
                    bs = d[2]
                else:
                    opaque.append("c == %r" % d[1])
            elif d[0] == "not-in":
                if "\\" in d[1]:
                    bs = False
                if [c for c in d[1] if c != "\\"]:
                    opaque.append("c not in %r" % (d[1],))
            elif d[0] == "is-arg":
                if d[1] == delim_arg:
                    if dl is not None and dl != d[2]:
                        return "infeasible"
                    dl = d[2]
                else:
                    opaque.append("c == arg%d" % d[1])
            else:
                opaque.append(d[1])
        return flag, bs, dl, opaque


def expected(flag, bs, dl):
    """(pushes, emits, final flag) demanded for the class; None = undecided class."""
    if flag is True:
        return (["elem"], 0, False)
    if flag is False:
        if bs is True:
            return ([], 0, True)
        if bs is False:
            if dl is True:
                return ([], 1, False)
            if dl is False:
                return (["elem"], 0, False)
    return None
