#!/usr/bin/env python3
"""R-API A3 and the ECMAScript StringToNumber structure of the shared
string→number conversion (used by C07, C09, C10).

The constants involved — the white-space set, the three Infinity spellings, the
radix prefixes, the decimal alphabet — are the behaviour the properties state,
so they are read out of the MIR as values (interval abstract interpretation of
the white-space predicate; constants of the comparison chains) and compared
with the ECMAScript tables transcribed below."""
import re
from .core import (callee_of, callee_path, strip_refs, strip_payload, show_expr, const_value, expr_mentions, op_const, edge_dominates, bool_edge, switch_edges_for_variant)
from .engine import Inconclusive
from . import panic as PN

FROM_STR = "core::num::float_parse::<impl std::str::FromStr for f64>::from_str"
PARSE = "core::str::<impl str>::parse"

# ECMA-262 WhiteSpace ∪ LineTerminator (StrWhiteSpaceChar)
ES_WS = [(0x9, 0xD), (0x20, 0x20), (0xA0, 0xA0), (0x1680, 0x1680), (0x2000, 0x200A), (0x2028, 0x2029), (0x202F, 0x202F), (0x205F, 0x205F), (0x3000, 0x3000), (0xFEFF, 0xFEFF)]
MAXC = 0x10FFFF


def iv_norm(ivs):
    ivs = sorted((a, b) for a, b in ivs if a <= b)
    out = []
    for a, b in ivs:
        if out and a <= out[-1][1] + 1:
            out[-1] = (out[-1][0], max(out[-1][1], b))
        else:
            out.append((a, b))
    return out


def iv_and(ivs, lo, hi):
    return [(max(a, lo), min(b, hi)) for a, b in ivs if max(a, lo) <= min(b, hi)]


def iv_minus_point(ivs, v):
    out = []
    for a, b in ivs:
        if a <= v <= b:
            if a <= v - 1:
                out.append((a, v - 1))
            if v + 1 <= b:
                out.append((v + 1, b))
        else:
            out.append((a, b))
    return out


def charset_of(body):
    """Accepted code points of a pure `fn(char) -> bool`, as normalised intervals;
    or ('calls', path) when the predicate delegates to another function."""
    for bi, t in body.calls():
        return ("calls", callee_path(t) or "<indirect>")
    accepted = []
    budget = [20000]

    def cp(c):
        v = const_value(c)
        if isinstance(v, str) and len(v) == 1:
            return ord(v)
        if isinstance(v, int) and not isinstance(v, bool):
            return v
        return None

    def walk(bi, ivs, ret):
        budget[0] -= 1
        if budget[0] < 0:
            raise Inconclusive("character predicate too large to read")
        if not ivs:
            return
        blk = body.blocks[bi]
        bools = {}
        for s in blk["stmts"]:
            if s["k"] != "Assign":
                continue
            rv = s["rv"]
            if s["place"]["local"] == 0 and rv["k"] == "Use" and op_const(rv["op"]) and isinstance(const_value(op_const(rv["op"])), bool):
                ret = const_value(op_const(rv["op"]))
            elif s["place"]["local"] == 0:
                ret = ("expr", s)
            if rv["k"] == "BinaryOp" and rv["op"] in ("Le", "Lt", "Ge", "Gt", "Eq", "Ne"):
                bools[s["place"]["local"]] = rv
        t = blk["term"]
        if t["k"] == "Return":
            if ret is True:
                accepted.extend(ivs)
            elif ret is not False:
                raise Inconclusive("character predicate returns a non-constant")
            return
        if t["k"] == "Goto":
            return walk(t["target"], ivs, ret)
        if t["k"] == "SwitchInt":
            d = t["discr"]
            if d["k"] in ("Copy", "Move") and not d["place"]["proj"]:
                l = d["place"]["local"]
                e = strip_refs(body.trace(d))
                if e == ("arg", 1) or (e[0] == "cast" and strip_refs(e[2]) == ("arg", 1)):
                    rest = ivs
                    for v, tg in t["arms"]:
                        v = int(v)
                        walk(tg, iv_and(ivs, v, v), ret)
                        rest = iv_minus_point(rest, v)
                    walk(t["otherwise"], rest, ret)
                    return
                rv = bools.get(l)
                if rv is None:
                    # comparison computed in an earlier block
                    for d2 in body.defs().get(l, []):
                        if d2[0] == "stmt" and d2[3]["k"] == "BinaryOp":
                            rv = d2[3]
                if rv is not None:
                    a, b = rv["a"], rv["b"]
                    ea, eb = strip_refs(body.trace(a)), strip_refs(body.trace(b))
                    isarg = lambda x: x == ("arg", 1) or (x[0] == "cast" and strip_refs(x[2]) == ("arg", 1))
                    op = rv["op"]
                    if isarg(eb) and ea[0] == "const":
                        ea, eb = eb, ea
                        op = {"Le": "Ge", "Lt": "Gt", "Ge": "Le", "Gt": "Lt", "Eq": "Eq", "Ne": "Ne"}[op]
                    if isarg(ea) and eb[0] == "const" and cp(eb[1]) is not None:
                        k = cp(eb[1])
                        yes = {"Le": (0, k), "Lt": (0, k - 1), "Ge": (k, MAXC), "Gt": (k + 1, MAXC), "Eq": (k, k)}.get(op)
                        if op == "Ne":
                            t_ivs, f_ivs = iv_minus_point(ivs, k), iv_and(ivs, k, k)
                        else:
                            t_ivs = iv_and(ivs, yes[0], yes[1])
                            f_ivs = [x for x in iv_norm(iv_and(ivs, 0, yes[0] - 1) + iv_and(ivs, yes[1] + 1, MAXC))]
                        walk(bool_edge(body, bi, True), t_ivs, ret)
                        walk(bool_edge(body, bi, False), f_ivs, ret)
                        return
            raise Inconclusive("character predicate branches on something that is not a comparison of its argument with a constant")
        raise Inconclusive("character predicate has an unexpected terminator %s" % t["k"])

    walk(0, [(0, MAXC)], None)
    return iv_norm(accepted)


def fmt_set(ivs):
    return ", ".join(("U+%04X" % a) if a == b else ("U+%04X–U+%04X" % (a, b)) for a, b in ivs)


def find_str_to_number(facts):
    """The shared conversion: the local generic fn → Option<f64> that (transitively) hosts the
    crate's f64::from_str over a whole string and is called from ≥ 3 places."""
    cands = []
    for b in facts.fns():
        it = facts.items.get(b.key, {})
        if b.kind == "fn" and it.get("output") == "std::option::Option<f64>" and len(it.get("inputs", [])) == 1 and not it["inputs"][0].endswith("serde_json::Value") and not it["inputs"][0].endswith("String"):
            if any((callee_path(t) or "") in (FROM_STR, PARSE) for bb in [b] + [x for x in facts.fns() if x.key.startswith(b.key + "::{closure#")] for _, t in bb.calls()):
                cands.append(b)
    if len(cands) != 1:
        raise Inconclusive("shared string→number conversion not identified (%d candidates)" % len(cands))
    return cands[0]


def check(ctx, facts, cfg, clause="A3"):
    """Clauses on the shared string→number conversion. Returns the function body."""
    f = find_str_to_number(facts)
    unit = [f] + [x for x in facts.fns() if x.key.startswith(f.key + "::{closure#")]
    loc = f.where()
    # ---- the parse call(s) of Rust's float grammar
    parses = [(b, bi, t) for b in unit for bi, t in b.calls() if (callee_path(t) or "") == FROM_STR or ((callee_path(t) or "") == PARSE and "f64" in (callee_of(t).get("full") or ""))]
    ctx.check(len(parses) == 1, clause + ".single-parse", "one use of Rust's float parser in the conversion (%s)" % cfg, "%d uses" % len(parses), where=loc, fn=f.key)
    gate_ok = False
    alphabet = None
    for b, bi, t in parses:
        # dominated by the true edge of Iterator::all over chars() of the same string
        for sb in b.reachable():
            tt = b.blocks[sb]["term"]
            if tt["k"] != "SwitchInt":
                continue
            e = strip_refs(b.trace(tt["discr"]))
            neg = False
            if e[0] == "unop" and e[1] == "Not":
                e = strip_refs(e[2])
                neg = True
            if e[0] == "call" and e[1] and re.search(r"Iterator(>)?::(all|any)$", e[1]["path"]):
                is_all = e[1]["path"].endswith("all")
                it = strip_refs(e[2][0])
                over_chars = expr_mentions(it, lambda x: x[0] == "call" and x[1] and x[1]["path"] in ("core::str::<impl str>::chars", "core::str::<impl str>::bytes"))
                edge = bool_edge(b, sb, (is_all and not neg) or (not is_all and neg))
                if over_chars and edge_dominates(b, sb, edge, bi) and is_all:
                    clos = strip_refs(e[2][1])
                    if clos[0] == "agg" and clos[1].get("agg") == "Closure":
                        alphabet = closure_alphabet(facts.body(clos[1]["closure"]))
                        gate_ok = True
        ctx.check(gate_ok, clause + ".alphabet-gate", "Rust's float parser only sees strings that passed a character-set test (%s)" % cfg,
                  "f64::from_str is applied to a string whose characters were not all tested against a fixed set: Rust's grammar also accepts inf / infinity / nan in any case", where=b.where(bi), fn=b.key, nontrivial=True)
    if alphabet is not None:
        want = set("0123456789+-.eE")
        ctx.check(alphabet == want, clause + ".alphabet", "the admitted alphabet is the decimal-literal characters (%s)" % cfg,
                  "characters admitted to the float parser: %s (expected digits and + - . e E)" % "".join(sorted(alphabet - want)) if alphabet else "?", where=loc, fn=f.key, nontrivial=True, sample={"alphabet": "".join(sorted(alphabet))})
    # ---- trimming with the ES white-space set
    trims = [(bi, t) for bi, t in f.calls() if (callee_path(t) or "").startswith("core::str::<impl str>::trim")]
    ctx.check(len(trims) == 1, clause + ".trim", "surrounding white space is trimmed once (%s)" % cfg, "%d trim calls" % len(trims), where=loc, fn=f.key)
    for bi, t in trims:
        p = callee_path(t)
        if p == "core::str::<impl str>::trim_matches" and len(t["args"]) == 2:
            c = op_const(t["args"][1])
            pred = None
            if c and "fn" in c:
                r = c["fn"].get("resolved") or c["fn"]
                pred = facts.body(r["key"]) if r["local"] else None
                if pred is None:
                    ctx.fail(clause + ".whitespace-set", "predicate %s" % r["path"], "white space is defined by %s, not by the ECMAScript StrWhiteSpaceChar set" % r["path"], where=f.where(bi), fn=f.key)
            else:
                e = strip_refs(f.trace(t["args"][1]))
                if e[0] == "agg" and e[1].get("agg") == "Closure":
                    pred = facts.body(e[1]["closure"])
            if pred is not None:
                cs = charset_of(pred)
                if isinstance(cs, tuple) and cs and cs[0] == "calls":
                    ctx.fail(clause + ".whitespace-set", "delegates to %s" % cs[1], "the white-space predicate delegates to %s — not the ECMAScript StrWhiteSpaceChar set (e.g. char::is_whitespace also accepts U+0085 and rejects U+FEFF)" % cs[1], where=pred.where(), fn=pred.key)
                else:
                    want = iv_norm(ES_WS)
                    ctx.check(cs == want, clause + ".whitespace-set", "trimmed characters = ECMAScript WhiteSpace ∪ LineTerminator (%s)" % cfg,
                              "the white-space predicate accepts {%s}; ECMAScript's set is {%s}" % (fmt_set(cs), fmt_set(want)), where=pred.where(), fn=pred.key, nontrivial=True,
                              sample={"accepted": fmt_set(cs)})
        else:
            ctx.fail(clause + ".whitespace-set", "uses %s" % p.rsplit("::", 1)[1], "white space is trimmed with %s (Unicode White_Space), not the ECMAScript StrWhiteSpaceChar set" % p, where=f.where(bi), fn=f.key)
    # ---- the empty string is 0
    zero = False
    for sb in f.reachable():
        tt = f.blocks[sb]["term"]
        if tt["k"] == "SwitchInt":
            e = strip_refs(f.trace(tt["discr"]))
            if e[0] == "call" and e[1] and re.search(r"PartialEq.*::eq$|::is_empty$", e[1]["path"]):
                args = [strip_refs(a) for a in e[2]]
                if e[1]["path"].endswith("is_empty") or any(a[0] == "const" and const_value(a[1]) == "" for a in args):
                    tg = bool_edge(f, sb, True)
                    region = f.reachable(tg) - f.reachable(bool_edge(f, sb, False))
                    with f.restricted(region | {tg}):
                        r = strip_refs(f.trace(0))
                    if r[0] == "agg" and r[1].get("variant") == "Some" and strip_refs(r[2][0])[0] == "const" and const_value(strip_refs(r[2][0])[1]) == 0.0:
                        zero = True
    ctx.check(zero, clause + ".empty-is-zero", "the empty (or all-white-space) string converts to 0 (%s)" % cfg, "no `== \"\"` edge returning Some(0.0)", where=loc, fn=f.key, nontrivial=True)
    # ---- Infinity spellings
    inf = {}
    for sb in f.reachable():
        tt = f.blocks[sb]["term"]
        if tt["k"] == "SwitchInt":
            e = strip_refs(f.trace(tt["discr"]))
            if e[0] == "call" and e[1] and re.search(r"PartialEq.*::eq$", e[1]["path"]):
                for a in e[2]:
                    a = strip_refs(a)
                    if a[0] == "const" and isinstance(const_value(a[1]), str) and const_value(a[1]) != "":
                        tg = bool_edge(f, sb, True)
                        # follow to the assignment of _0
                        region = f.reachable(tg)
                        val = None
                        cur = tg
                        for _ in range(6):
                            for s in f.blocks[cur]["stmts"]:
                                if s["k"] == "Assign" and s["place"]["local"] == 0 and s["rv"]["k"] == "Aggregate" and s["rv"].get("variant") == "Some":
                                    c = op_const(s["rv"]["ops"][0])
                                    val = const_value(c) if c else None
                            if val is not None:
                                break
                            nx = f.succs(cur)
                            if len(nx) != 1:
                                break
                            cur = nx[0]
                        inf[const_value(a[1])] = val
    want_inf = {"Infinity": float("inf"), "+Infinity": float("inf"), "-Infinity": float("-inf")}
    ctx.check(inf == want_inf, clause + ".infinity", "only the spellings Infinity / +Infinity / -Infinity denote infinities (%s)" % cfg,
              "string constants mapped to numbers: %s" % inf, where=loc, fn=f.key, nontrivial=True, sample={"spellings": {k: str(v) for k, v in inf.items()}})
    # ---- radix prefixes
    rad = [(bi, t) for bi, t in f.calls() if callee_of(t) and callee_of(t)["local"] and len(t["args"]) == 2 and f.local_ty(t["args"][1]["place"]["local"]) == "u32"] if True else []
    ctx.check(len(rad) == 1, clause + ".radix-call", "prefixed integer literals are handed to one radix parser (%s)" % cfg, "%d candidates" % len(rad), where=loc, fn=f.key)
    for bi, t in rad:
        vs = PN.value_set(facts, f, f.trace(t["args"][1]))
        ctx.check(vs == {16, 8, 2}, clause + ".radix-values", "radix ∈ {16, 8, 2} (%s)" % cfg, "radix values: %s" % (sorted(vs) if vs else vs), where=f.where(bi), fn=f.key, nontrivial=True)
        # prefix characters: the char switches that precede it
        chars = {}
        for sb in f.reachable():
            tt = f.blocks[sb]["term"]
            if tt["k"] == "SwitchInt" and tt.get("dty") == "char":
                for v, tg in tt["arms"]:
                    rv = None
                    for s in f.blocks[tg]["stmts"]:
                        if s["k"] == "Assign" and s["rv"]["k"] == "Aggregate" and s["rv"].get("variant") == "Some":
                            c = op_const(s["rv"]["ops"][0])
                            rv = const_value(c) if c else None
                    chars[chr(int(v))] = rv
        want = {"0": None, "x": 16, "X": 16, "o": 8, "O": 8, "b": 2, "B": 2}
        ctx.check(chars == want, clause + ".radix-prefixes", "0x/0X → 16, 0o/0O → 8, 0b/0B → 2 (%s)" % cfg, "prefix characters: %s" % chars, where=f.where(bi), fn=f.key, nontrivial=True, sample={"prefixes": {k: v for k, v in chars.items()}})
    return f


def closure_alphabet(cb):
    """Characters admitted by a closure of the form |c| c.is_ascii_digit() || "<set>".contains(c) (any order)."""
    if cb is None:
        return None
    out = set()
    ok = True
    for bi, t in cb.calls():
        p = callee_path(t) or ""
        if p == "std::char::methods::<impl char>::is_ascii_digit":
            out |= set("0123456789")
        elif p == "core::str::<impl str>::contains":
            a = strip_refs(cb.trace(t["args"][0]))
            if a[0] == "const" and isinstance(const_value(a[1]), str):
                out |= set(const_value(a[1]))
            else:
                ok = False
        elif p == "core::slice::<impl [T]>::contains":
            ok = False
        else:
            ok = False
    # plain comparisons with char constants
    for bi, si, s in cb.stmts():
        if s["k"] == "Assign" and s["rv"]["k"] == "BinaryOp" and s["rv"]["op"] == "Eq":
            for o in (s["rv"]["a"], s["rv"]["b"]):
                c = op_const(o)
                if c and "char" in c:
                    out.add(c["char"])
    for bi in cb.reachable():
        tt = cb.blocks[bi]["term"]
        if tt["k"] == "SwitchInt" and tt.get("dty") == "char":
            for v, tg in tt["arms"]:
                out.add(chr(int(v)))
    return out if ok else None
