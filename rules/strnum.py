#!/usr/bin/env python3
"""R-API A3 and the ECMAScript StringToNumber structure of the shared
string→number conversion (used by C07, C09, C10).

The constants involved — the white-space set, the three Infinity spellings, the
radix prefixes, the decimal alphabet — are the behaviour the properties state,
so they are read out of the MIR as values (interval abstract interpretation of
the white-space predicate; constants of the comparison chains) and compared
with the ECMAScript tables transcribed below."""
import re
from .core import (callee_of, callee_path, strip_refs, strip_payload, show_expr, const_value, expr_mentions, op_const, edge_dominates, bool_edge, switch_edges_for_variant)
from .engine import Inconclusive
from . import panic as PN

FROM_STR = "core::num::float_parse::<impl std::str::FromStr for f64>::from_str"
PARSE = "core::str::<impl str>::parse"

# ECMA-262 WhiteSpace ∪ LineTerminator (StrWhiteSpaceChar)
ES_WS = [(0x9, 0xD), (0x20, 0x20), (0xA0, 0xA0), (0x1680, 0x1680), (0x2000, 0x200A), (0x2028, 0x2029), (0x202F, 0x202F), (0x205F, 0x205F), (0x3000, 0x3000), (0xFEFF, 0xFEFF)]
MAXC = 0x10FFFF


def iv_norm(ivs):
    ivs = sorted((a, b) for a, b in ivs if a <= b)
    out = []
    for a, b in ivs:
        if out and a <= out[-1][1] + 1:
            out[-1] = (out[-1][0], max(out[-1][1], b))
        else:
            out.append((a, b))
    return out


def iv_and(ivs, lo, hi):
    return [(max(a, lo), min(b, hi)) for a, b in ivs if max(a, lo) <= min(b, hi)]


def iv_minus_point(ivs, v):
    out = []
    for a, b in ivs:
        if a <= v <= b:
            if a <= v - 1:
                out.append((a, v - 1))
            if v + 1 <= b:
                out.append((v + 1, b))
        else:
            out.append((a, b))
    return out


def charset_of(body):
    """Accepted code points of a pure `fn(char) -> bool`, as normalised intervals;
    or ('calls', path) when the predicate delegates to another function."""
    for bi, t in body.calls():
        return ("calls", callee_path(t) or "<indirect>")
    accepted = []
    budget = [20000]

    def cp(c):
        v = const_value(c)
        if isinstance(v, str) and len(v) == 1:
            return ord(v)
        if isinstance(v, int) and not isinstance(v, bool):
            return v
        return None

    def walk(bi, ivs, ret):
        budget[0] -= 1
        if budget[0] < 0:
            raise Inconclusive("character predicate too large to read")
        if not ivs:
            return
        blk = body.blocks[bi]
        bools = {}
        for s in blk["stmts"]:
            if s["k"] != "Assign":
                continue
            rv = s["rv"]
            if s["place"]["local"] == 0 and rv["k"] == "Use" and op_const(rv["op"]) and isinstance(const_value(op_const(rv["op"])), bool):
                ret = const_value(op_const(rv["op"]))
            elif s["place"]["local"] == 0:
                ret = ("expr", s)
            if rv["k"] == "BinaryOp" and rv["op"] in ("Le", "Lt", "Ge", "Gt", "Eq", "Ne"):
                bools[s["place"]["local"]] = rv
        t = blk["term"]
        if t["k"] == "Return":
            if ret is True:
                accepted.extend(ivs)
            elif ret is not False:
                raise Inconclusive("character predicate returns a non-constant")
            return
        if t["k"] == "Goto":
            return walk(t["target"], ivs, ret)
        if t["k"] == "SwitchInt":
            d = t["discr"]
            if d["k"] in ("Copy", "Move") and not d["place"]["proj"]:
                l = d["place"]["local"]
                e = strip_refs(body.trace(d))
                if e == ("arg", 1) or (e[0] == "cast" and strip_refs(e[2]) == ("arg", 1)):
                    rest = ivs
                    for v, tg in t["arms"]:
                        v = int(v)
                        walk(tg, iv_and(ivs, v, v), ret)
                        rest = iv_minus_point(rest, v)
                    walk(t["otherwise"], rest, ret)
                    return
                rv = bools.get(l)
                if rv is None:
                    # comparison computed in an earlier block
                    for d2 in body.defs().get(l, []):
                        if d2[0] == "stmt" and d2[3]["k"] == "BinaryOp":
                            rv = d2[3]
                if rv is not None:
                    a, b = rv["a"], rv["b"]
                    ea, eb = strip_refs(body.trace(a)), strip_refs(body.trace(b))
                    isarg = lambda x: x == ("arg", 1) or (x[0] == "cast" and strip_refs(x[2]) == ("arg", 1))
                    op = rv["op"]
                    if isarg(eb) and ea[0] == "const":
                        ea, eb = eb, ea
                        op = {"Le": "Ge", "Lt": "Gt", "Ge": "Le", "Gt": "Lt", "Eq": "Eq", "Ne": "Ne"}[op]
                    if isarg(ea) and eb[0] == "const" and cp(eb[1]) is not None:
                        k = cp(eb[1])
                        yes = {"Le": (0, k), "Lt": (0, k - 1), "Ge": (k, MAXC), "Gt": (k + 1, MAXC), "Eq": (k, k)}.get(op)
                        if op == "Ne":
                            t_ivs, f_ivs = iv_minus_point(ivs, k), iv_and(ivs, k, k)
                        else:
                            t_ivs = iv_and(ivs, yes[0], yes[1])
                            f_ivs = [x for x in iv_norm(iv_and(ivs, 0, yes[0] - 1) + iv_and(ivs, yes[1] + 1, MAXC))]
                        walk(bool_edge(body, bi, True), t_ivs, ret)
                        walk(bool_edge(body, bi, False), f_ivs, ret)
                        return
            raise Inconclusive("character predicate branches on something that is not a comparison of its argument with a constant")
        raise Inconclusive("character predicate has an unexpected terminator %s" % t["k"])

    walk(0, [(0, MAXC)], None)
    return iv_norm(accepted)


def fmt_set(ivs):
    return ", ".join(("U+%04X" % a) if a == b else ("U+%04X–U+%04X" % (a, b)) for a, b in ivs)


def find_str_to_number(facts):
    """The shared conversion: the local fn string → Option<f64> that (through the crate's own functions) hosts the
    crate's f64::from_str over a whole string.  When the conversion is split into helpers of the same signature
    (one of them hosting the float parser) it is the outermost one: the candidate that reaches all the others."""
    cands = []
    for b in facts.fns():
        it = facts.items.get(b.key, {})
        if b.kind == "fn" and it.get("output") == "std::option::Option<f64>" and len(it.get("inputs", [])) == 1 and re.search(r"^(&str|[A-Z][A-Za-z0-9]*|impl .*AsRef<str>.*)$", it["inputs"][0]):
            reach = facts.reach([b.key])
            hosts = any((callee_path(t) or "") in (FROM_STR, PARSE) for k in reach for bb in [facts.body(k)] if bb is not None for _, t in bb.calls())
            if hosts:
                cands.append((b, reach))
    if len(cands) > 1:
        keys = {b.key for b, _ in cands}
        outer = [b for b, reach in cands if keys <= set(reach) | {b.key}]
        if len(outer) == 1:
            return outer[0]
    if len(cands) != 1:
        raise Inconclusive("shared string→number conversion not identified (%d candidates)" % len(cands))
    return cands[0][0]


def radix_parser_role(facts, f):
    """The digit parser of prefixed literals: the function (digits: &str, radix: u32) → Option<f64> the conversion reaches."""
    out = []
    for k in sorted(facts.reach([f.key])):
        it = facts.items.get(k, {})
        if k != f.key and it.get("output") == "std::option::Option<f64>" and sorted(it.get("inputs", [])) == ["&str", "u32"]:
            out.append(k)
    return out


def trimmer_role(facts, f):
    """Hand-written trimming helpers: private `&str → &str` functions with loops that the conversion calls.  They are
    not inlined into the conversion's view (its decision paths are read with the helper's result as the trimmed text)."""
    out = []
    for k in sorted(facts.reach([f.key])):
        it = facts.items.get(k, {})
        b = facts.body(k)
        if k != f.key and b is not None and b.kind == "fn" and it.get("inputs") == ["&str"] and it.get("output") == "&str" and b.back_edges():
            out.append(k)
    return out


def conversion_view(facts, f):
    """The conversion with its private helpers (other than the digit parser) inlined at their call sites
    (rules/inline.py): splitting the conversion into helpers changes neither what it computes nor this view."""
    from . import inline
    stop = set(radix_parser_role(facts, f)) | set(trimmer_role(facts, f))
    try:
        cands = set(inline.candidates(facts.path))
    except Exception:
        return facts, f
    helpers = {k for k in facts.reach([f.key]) if k in cands and k != f.key and k not in stop and not any(k.startswith(s_ + "::") for s_ in stop)}
    # helpers only reached through the digit parser stay where they are
    through = set()
    for s_ in stop:
        through |= set(facts.reach([s_]))
    direct = set()
    todo = [f.key]
    while todo:
        k = todo.pop()
        for b in facts.fns():
            if b.key == k or b.key.startswith(k + "::{closure#"):
                for _, t in b.calls():
                    c = callee_of(t)
                    if c and c.get("local") and c.get("key") in helpers and c["key"] not in direct:
                        direct.add(c["key"])
                        todo.append(c["key"])
    helpers = direct
    if not helpers:
        return facts, f
    already = list((getattr(facts, "inlined", None) or {}).get("helpers", []))
    try:
        v = inline.load_view(facts.path, sorted(set(already) | helpers))
    except Exception:
        return facts, f
    fv = v.body(f.key)
    return (v, fv) if fv is not None else (facts, f)


def whitespace_set(ctx, facts, pred, clause, cfg):
    """The set a white-space predicate accepts = ECMAScript WhiteSpace ∪ LineTerminator."""
    cs = table_charset(facts, pred)
    if cs is None:
        cs = charset_of(pred)
    if isinstance(cs, tuple) and cs and cs[0] == "calls":
        if re.search(r"^std::char::methods::<impl char>::is_\w+$", cs[1]):
            ctx.fail(clause + ".whitespace-set", "delegates to %s" % cs[1], "the white-space predicate delegates to %s — not the ECMAScript StrWhiteSpaceChar set (e.g. char::is_whitespace also accepts U+0085 and rejects U+FEFF)" % cs[1], where=pred.where(), fn=pred.key)
        else:
            ctx.unread(clause + ".whitespace-set", "predicate (%s)" % cfg, "the white-space predicate is neither a comparison chain nor a scan of a constant table (it calls %s): the set it accepts is not read" % cs[1], where=pred.where(), fn=pred.key)
    else:
        want = iv_norm(ES_WS)
        ctx.check(cs == want, clause + ".whitespace-set", "trimmed characters = ECMAScript WhiteSpace ∪ LineTerminator (%s)" % cfg,
                  "the white-space predicate accepts {%s}; ECMAScript's set is {%s}" % (fmt_set(cs), fmt_set(want)), where=pred.where(), fn=pred.key, nontrivial=True,
                  sample={"accepted": fmt_set(cs)})


def check(ctx, facts, cfg, clause="A3"):
    """Clauses on the shared string→number conversion. Returns the function body."""
    f0 = find_str_to_number(facts)
    facts, f = conversion_view(facts, f0)
    unit = [f] + [x for x in facts.fns() if x.key.startswith(f.key + "::{closure#")]
    loc = f.where()
    # ---- the parse call(s) of Rust's float grammar
    parses = [(b, bi, t) for b in unit for bi, t in b.calls() if (callee_path(t) or "") == FROM_STR or ((callee_path(t) or "") == PARSE and "f64" in (callee_of(t).get("full") or ""))]
    ctx.check(len(parses) == 1, clause + ".single-parse", "one use of Rust's float parser in the conversion (%s)" % cfg, "%d uses" % len(parses), where=loc, fn=f.key)
    gate_ok = False
    alphabet = None
    for b, bi, t in parses:
        # dominated by the true edge of Iterator::all over chars() of the same string
        for sb in b.reachable():
            tt = b.blocks[sb]["term"]
            if tt["k"] != "SwitchInt":
                continue
            e = strip_refs(b.trace(tt["discr"]))
            neg = False
            if e[0] == "unop" and e[1] == "Not":
                e = strip_refs(e[2])
                neg = True
            if e[0] == "call" and e[1] and re.search(r"Iterator(>)?::(all|any)$", e[1]["path"]):
                is_all = e[1]["path"].endswith("all")
                it = strip_refs(e[2][0])
                over_chars = expr_mentions(it, lambda x: x[0] == "call" and x[1] and x[1]["path"] in ("core::str::<impl str>::chars", "core::str::<impl str>::bytes"))
                edge = bool_edge(b, sb, (is_all and not neg) or (not is_all and neg))
                if over_chars and edge_dominates(b, sb, edge, bi) and is_all:
                    clos = strip_refs(e[2][1])
                    if clos[0] == "const" and "fn" in clos[1] and (clos[1]["fn"].get("resolved") or clos[1]["fn"]).get("local"):
                        # `.all(is_decimal_literal_char)`: a private predicate function handed in by name
                        fb_ = facts.body((clos[1]["fn"].get("resolved") or clos[1]["fn"])["key"])
                        ivs_ = predicate_set(fb_, 1)
                        if ivs_ is not None and sum(hi_ - lo_ + 1 for lo_, hi_ in ivs_) <= 4096:
                            alphabet = {chr(c_) for lo_, hi_ in ivs_ for c_ in range(lo_, hi_ + 1)}
                        elif ivs_ is not None:
                            alphabet = ("large", fmt_set(ivs_[:6]))
                        gate_ok = True
                        gate_at = (b, sb)
                    if clos[0] == "agg" and clos[1].get("agg") == "Closure":
                        # the set the closure accepts, read on its path summaries (any spelling of the test); the
                        # older syntactic reading only when that does not read it
                        ivs_ = predicate_set(facts.body(clos[1]["closure"]), 2)
                        if ivs_ is not None and sum(hi_ - lo_ + 1 for lo_, hi_ in ivs_) <= 4096:
                            alphabet = {chr(c_) for lo_, hi_ in ivs_ for c_ in range(lo_, hi_ + 1)}
                        elif ivs_ is not None:
                            alphabet = ("large", fmt_set(ivs_[:6]))
                        else:
                            alphabet = closure_alphabet(facts.body(clos[1]["closure"]))
                        gate_ok = True
                        gate_at = (b, sb)
        ctx.check(gate_ok, clause + ".alphabet-gate", "Rust's float parser only sees strings that passed a character-set test (%s)" % cfg,
                  "f64::from_str is applied to a string whose characters were not all tested against a fixed set: Rust's grammar also accepts inf / infinity / nan in any case", where=b.where(bi), fn=b.key, nontrivial=True)
    if isinstance(alphabet, tuple):
        ctx.fail(clause + ".alphabet", "admits %s…" % alphabet[1][:40], "characters admitted to the float parser: {%s, …} (expected digits and + - . e E)" % alphabet[1], where=loc, fn=f.key)
    elif alphabet is None and gate_ok:
        ctx.unread(clause + ".alphabet", "alphabet (%s)" % cfg, "the character test in front of the float parser was not read as a set of characters", where=loc, fn=f.key)
    elif alphabet is not None:
        want = set("0123456789+-.eE")
        ctx.check(alphabet == want, clause + ".alphabet", "the admitted alphabet is the decimal-literal characters (%s)" % cfg,
                  "characters admitted to the float parser: %s (expected digits and + - . e E)" % "".join(sorted(alphabet - want)) if alphabet else "?", where=loc, fn=f.key, nontrivial=True, sample={"alphabet": "".join(sorted(alphabet))})
    # ---- trimming with the ES white-space set
    trims = [(bi, t) for bi, t in f.calls() if (callee_path(t) or "").startswith("core::str::<impl str>::trim")]
    trimmers = set(trimmer_role(facts, f))
    own = [(bi, t) for bi, t in f.calls() if callee_of(t) and callee_of(t).get("key") in trimmers]
    if own and not trims:
        # a hand-written trimming loop: which characters it removes is read (the predicates it applies to the
        # characters it takes off either end); that it removes exactly the longest prefix and suffix is not
        for bi, t in own[:1]:
            tb = facts.body(callee_of(t)["key"])
            preds = {}
            for bi2, t2 in tb.calls():
                c2 = callee_of(t2)
                if c2 and c2.get("local") and facts.items.get(c2.get("key"), {}).get("inputs") == ["char"] and facts.items[c2["key"]].get("output") == "bool":
                    preds[c2["key"]] = facts.body(c2["key"])
            for bi2, t2 in tb.calls():
                p2 = callee_path(t2) or ""
                if re.search(r"^std::char::methods::<impl char>::is_(whitespace|ascii_whitespace|control|alphabetic|numeric)$", p2):
                    ctx.fail(clause + ".whitespace-set", "delegates to %s" % p2, "the trimming helper classifies characters with %s — not the ECMAScript StrWhiteSpaceChar set" % p2, where=tb.where(bi2), fn=tb.key)
                if p2.startswith("core::str::<impl str>::trim"):
                    ctx.fail(clause + ".whitespace-set", "uses %s" % p2.rsplit("::", 1)[1], "white space is trimmed with %s, not the ECMAScript StrWhiteSpaceChar set" % p2, where=tb.where(bi2), fn=tb.key)
            for pk, pred in sorted(preds.items()):
                whitespace_set(ctx, facts, pred, clause, cfg)
            if not preds:
                ctx.unread(clause + ".whitespace-set", "predicate (%s)" % cfg, "the trimming helper %s applies no character predicate of this crate: the set it removes is not read" % tb.key.split("::", 1)[1], where=tb.where(), fn=tb.key)
            ctx.unread(clause + ".trim", "trimming helper (%s)" % cfg, "white space is removed by the hand-written loop(s) of %s: that exactly the longest prefix and suffix of white space are removed is not read" % tb.key.split("::", 1)[1], where=tb.where(), fn=tb.key)
    elif not trims and f.back_edges():
        # (a view with a trimming helper inlined: the loops are in the conversion itself)
        ctx.unread(clause + ".trim", "trimming (%s)" % cfg, "the conversion calls no trimming function and has loops of its own: whether they trim the white space is not read", where=loc, fn=f.key)
    else:
        ctx.check(len(trims) == 1, clause + ".trim", "surrounding white space is trimmed once (%s)" % cfg, "%d trim calls" % len(trims), where=loc, fn=f.key)
    for bi, t in trims:
        p = callee_path(t)
        if p == "core::str::<impl str>::trim_matches" and len(t["args"]) == 2:
            c = op_const(t["args"][1])
            pred = None
            if c and "fn" in c:
                r = c["fn"].get("resolved") or c["fn"]
                pred = facts.body(r["key"]) if r["local"] else None
                if pred is None:
                    ctx.fail(clause + ".whitespace-set", "predicate %s" % r["path"], "white space is defined by %s, not by the ECMAScript StrWhiteSpaceChar set" % r["path"], where=f.where(bi), fn=f.key)
            else:
                e = strip_refs(f.trace(t["args"][1]))
                if e[0] == "agg" and e[1].get("agg") == "Closure":
                    pred = facts.body(e[1]["closure"])
            if pred is not None:
                whitespace_set(ctx, facts, pred, clause, cfg)
        else:
            ctx.fail(clause + ".whitespace-set", "uses %s" % p.rsplit("::", 1)[1], "white space is trimmed with %s (Unicode White_Space), not the ECMAScript StrWhiteSpaceChar set" % p, where=f.where(bi), fn=f.key)
    # ---- decided on the path summaries of the conversion (helpers inlined): which strings are answered directly
    w = conversion_paths(f)
    if w is None or any(p.truncated for p in w.paths):
        for cl_, what in ((".empty-is-zero", "empty string"), (".infinity", "Infinity spellings"), (".radix-prefixes", "radix prefixes")):
            ctx.unread(clause + cl_, "%s (%s)" % (what, cfg), "the conversion has loops or too many paths to summarise", where=loc, fn=f.key)
        return f0
    is_trim = lambda y: y[0] == "call" and y[1] and ((y[1].get("path") or "").startswith("core::str::<impl str>::trim") or y[1].get("key") in trimmers)

    def str_test(key, ex):
        """("empty",) / ("eq", constant) when the atom tests the trimmed string for emptiness / equality with a constant."""
        if ex is None or key[0] not in ("pure", "cmp"):
            return None
        return str_expr_test(ex)

    def str_expr_test(ex):
        x = strip_refs(ex)
        if not expr_mentions(x, is_trim):
            return None
        if x[0] == "call" and x[1]:
            pth = x[1]["path"]
            if pth.endswith("::is_empty") and len(x[2]) == 1:
                return ("empty",)
            if re.search(r"PartialEq.*::eq$", pth) and len(x[2]) == 2:
                for a in x[2]:
                    a = strip_refs(a)
                    if a[0] == "const" and isinstance(const_value(a[1]), str):
                        return ("empty",) if const_value(a[1]) == "" else ("eq", const_value(a[1]))
        if x[0] == "binop" and x[1] == "Eq":
            for a, b in ((x[2], x[3]), (x[3], x[2])):
                a, b = strip_refs(a), strip_refs(b)
                if b[0] == "const" and const_value(b[1]) == 0 and a[0] == "call" and a[1] and a[1]["path"].endswith("::len"):
                    return ("empty",)
        return None

    def some_const(r):
        r = strip_refs(r) if r is not None else None
        if r is not None and r[0] == "agg" and r[1].get("variant") == "Some" and r[2]:
            v = strip_refs(r[2][0])
            if v[0] == "const" and isinstance(const_value(v[1]), (int, float)) and not isinstance(const_value(v[1]), bool):
                return float(const_value(v[1]))
        return None
    rad_keys = set(radix_parser_role(facts, f))
    zero_paths, zero_bad, inf, inf_bad, inf_unread = 0, [], {}, [], []
    prefixes, pref_unread, nrad_sites = {}, [], set()
    for p in w.paths:
        tests = [(str_test(k, w.exprs.get(k)), v) for k, v in p.order]
        if any(t == ("empty",) and v is True for t, v in tests):
            zero_paths += 1
            if some_const(p.result) != 0.0:
                zero_bad.append(show_expr(strip_refs(p.result))[:60] if p.result else "?")
            continue
        hit = [t[1] for t, v in tests if t and t[0] == "eq" and v is True]
        # a path that answers with what a lookup in a constant table found (taken only when it found something):
        # one spelling per row whose test is the equality of the trimmed string with a constant
        lk = table_lookup(facts, p.result) if p.result is not None and not hit else None
        if lk is not None:
            rc = _PS.canon(strip_refs(p.result))
            guarded = False
            for k, v in p.order:
                ex = strip_refs(w.exprs.get(k)) if w.exprs.get(k) is not None else None
                if k[0] == "pure" and v is True and ex is not None and ex[0] == "call" and ex[1] and (ex[1].get("path") or "").endswith("Option::<T>::is_some") and ex[2] and _PS.canon(strip_refs(ex[2][0])) == rc:
                    guarded = True
                if k[0] == "variant" and v == "Some" and ex is not None and _PS.canon(ex) == rc:
                    guarded = True
            if not guarded:
                inf_unread.append("the result of a table lookup is returned on a path that does not ask whether it found a row")
                continue
            for test, val in lk:
                t = str_expr_test(test)
                val = strip_refs(val)
                cv = const_value(val[1]) if val[0] == "const" else None
                if t and t[0] == "eq" and isinstance(cv, (int, float)) and not isinstance(cv, bool):
                    if t[1] in inf and inf[t[1]] != float(cv):
                        inf_bad.append(t[1])
                    inf[t[1]] = float(cv)
                else:
                    inf_unread.append("table row %s ⇒ %s" % (show_expr(strip_refs(test))[:60], show_expr(val)[:30]))
            continue
        if hit:
            val = some_const(p.result)
            for k_ in hit:
                if k_ in inf and inf[k_] != val:
                    inf_bad.append(k_)
                inf[k_] = val
            continue
        for ev in p.events:
            c = ev[1]
            if c and c.get("key") in rad_keys and len(ev[2]) == 2:
                nrad_sites.add(ev[3])
                rx = [strip_cast(a) for a in ev[2] if strip_cast(a)[0] == "const" and isinstance(const_value(strip_cast(a)[1]), int) and not isinstance(const_value(strip_cast(a)[1]), bool)]
                chars = []
                for k, v in p.order:
                    if k[0] == "int" and isinstance(v, int) and expr_mentions(w.exprs.get(k) or (), is_trim):
                        pos = None
                        ex = w.exprs.get(k)

                        def find(y):
                            nonlocal pos
                            if y[0] in ("cindex", "index") and pos is None:
                                ints = [z for z in y[1:] if isinstance(z, int) and not isinstance(z, bool)]
                                cs_ = [const_value(strip_refs(z)[1]) for z in y[1:] if isinstance(z, tuple) and strip_refs(z)[0] == "const"]
                                cand = ints or [z for z in cs_ if isinstance(z, int)]
                                if cand:
                                    pos = cand[0]
                            return False
                        expr_mentions(ex, find)
                        chars.append((v, pos))
                if len(rx) != 1 or len(chars) != 2 or not all(0 < v < 0x110000 for v, _ in chars):
                    pref_unread.append("radix %s after %s" % ([show_expr(strip_refs(a))[:30] for a in ev[2]], chars))
                    continue
                if all(pos is not None for _, pos in chars) and [pos for _, pos in chars] != [0, 1]:
                    prefixes["@%s:%s" % (chars[0][1], chars[1][1]) + chr(chars[0][0]) + chr(chars[1][0])] = const_value(rx[0][1])
                    continue
                prefixes[chr(chars[0][0]) + chr(chars[1][0])] = const_value(rx[0][1])
    ctx.check(zero_paths >= 1 and not zero_bad, clause + ".empty-is-zero", "the empty (or all-white-space) string converts to 0 (%s)" % cfg,
              "no emptiness test of the trimmed string" if not zero_paths else "the empty string converts to %s" % zero_bad[:2], where=loc, fn=f.key, nontrivial=True)
    want_inf = {"Infinity": float("inf"), "+Infinity": float("inf"), "-Infinity": float("-inf")}
    if inf_unread and not inf_bad and all(want_inf.get(k_) == v_ for k_, v_ in inf.items()):
        ctx.unread(clause + ".infinity", "Infinity spellings (%s)" % cfg, "the strings answered from a constant table were not all read (%s)" % inf_unread[0], where=loc, fn=f.key)
    else:
        ctx.check(inf == want_inf and not inf_bad, clause + ".infinity", "only the spellings Infinity / +Infinity / -Infinity denote infinities (%s)" % cfg,
                  "string constants mapped to numbers: %s" % inf, where=loc, fn=f.key, nontrivial=True, sample={"spellings": {k: str(v) for k, v in inf.items()}})
    # ---- radix prefixes: every path into the digit parser is taken after two character tests that fix the prefix, with a constant radix
    rad = [(bi, t) for bi, t in f.calls() if callee_of(t) and callee_of(t).get("key") in rad_keys]
    ctx.check(len(rad_keys) == 1 and len(rad) >= 1, clause + ".radix-call", "prefixed integer literals are handed to one radix parser (%s)" % cfg, "%d radix parsers, %d call sites" % (len(rad_keys), len(rad)), where=loc, fn=f.key)
    for rk in sorted(rad_keys):
        radix_parser(ctx, facts, facts.body(rk), clause, cfg)
    if rad:
        bi = rad[0][0]
        if pref_unread:
            # the prefixes are not tested character by character: a constant table of (prefix, radix) rows?
            rows = None
            for bi2, t2 in f.calls():
                if (callee_path(t2) or "").endswith("::strip_prefix") or (callee_path(t2) or "").endswith("::starts_with"):
                    pe = strip_refs(f.trace(t2["args"][1]))
                    if pe[0] == "field" and isinstance(pe[2], int):
                        rows = (PN._const_table_rows(facts, f, pe[1]), pe[2])
            if rows and rows[0] is not None:
                tab = {}
                for r_ in rows[0]:
                    r_ = strip_refs(r_)
                    if r_[0] == "agg" and len(r_[2]) == 2:
                        a_, b_ = strip_refs(r_[2][0]), strip_refs(r_[2][1])
                        if a_[0] == "const" and b_[0] == "const":
                            tab[const_value(a_[1])] = const_value(b_[1])
                prefixes, pref_unread = tab, []
        want_tab = {"0x": 16, "0X": 16, "0o": 8, "0O": 8, "0b": 2, "0B": 2}
        if pref_unread or not prefixes:
            vs = PN.value_set(facts, f, f.trace(rad[0][1]["args"][1])) if len(rad[0][1]["args"]) == 2 else None
            if vs is not None:
                ctx.check(vs == {16, 8, 2}, clause + ".radix-values", "radix ∈ {16, 8, 2} (%s)" % cfg, "radix values: %s" % sorted(vs), where=f.where(bi), fn=f.key, nontrivial=True)
            ctx.unread(clause + ".radix-prefixes", "prefixes (%s)" % cfg, "the radix prefixes are not read as two character tests before the digit parser or a constant table (%s)" % "; ".join(pref_unread[:2]), where=f.where(bi), fn=f.key)
        else:
            ctx.check(set(prefixes.values()) == {16, 8, 2}, clause + ".radix-values", "radix ∈ {16, 8, 2} (%s)" % cfg, "radix values: %s" % sorted(set(prefixes.values())), where=f.where(bi), fn=f.key, nontrivial=True)
            ctx.check(prefixes == want_tab, clause + ".radix-prefixes", "0x/0X → 16, 0o/0O → 8, 0b/0B → 2 (%s)" % cfg, "prefixes read off the paths into the digit parser: %s" % prefixes, where=f.where(bi), fn=f.key, nontrivial=True, sample={"prefixes": prefixes})
    return f0


def radix_parser(ctx, facts, rp, clause, cfg):
    """The value of the digits of a prefixed integer literal (ES NonDecimalIntegerLiteral): NaN (None)
    for no digits or a character that is not a digit of the radix; otherwise Σ digit·radix^k —
    through the integer parser of the standard library and/or a fold acc·radix + digit from 0."""
    if rp is None:
        raise Inconclusive("radix parser body not available")
    # ---- exactness: the digits are valued by the exact integer parser (one rounding, `as f64`); a floating accumulation
    # acc·radix + digit rounds at every step once the value passes 2^53 and may end one ulp away from the double
    # ECMAScript prescribes.  Positive evidence of the defect: f64 arithmetic in the parser and no integer parse at all.
    runit = [facts.body(k) for k in sorted(facts.reach([rp.key])) if facts.body(k) is not None]
    has_int_parse = any(re.search(r"^core::num::<impl [ui](64|128|size)>::from_str_radix$", callee_path(t) or "") for b_ in runit for _, t in b_.calls())
    float_arith = [(b_, bi, si) for b_ in runit for bi, si, st in b_.stmts() if st["k"] == "Assign" and st["rv"]["k"] == "BinaryOp" and st["rv"]["op"] in ("Mul", "Add") and st["rv"].get("opty") in ("f64", "f32")]
    WIDE = ("u64", "u128", "i64", "i128", "usize", "isize")
    int_arith = any(re.search(r"^core::num::<impl (u64|u128|i64|i128|usize|isize)>::(checked_|wrapping_|overflowing_|saturating_)?(mul|add)$", callee_path(t) or "") for b_ in runit for _, t in b_.calls()) or \
        any(st["k"] == "Assign" and st["rv"]["k"] in ("BinaryOp", "CheckedBinaryOp") and st["rv"].get("op") in ("Mul", "Add", "MulWithOverflow", "AddWithOverflow") and st["rv"].get("opty") in WIDE for b_ in runit for bi, si, st in b_.stmts())
    if has_int_parse:
        ctx.ok(clause + ".radix-exact", "the digits are valued by the exact integer parser (%s)" % cfg, nontrivial=True)
    elif int_arith:
        ctx.unread(clause + ".radix-exact", "digit parser (%s)" % cfg, "the digits are accumulated in a wide integer by the parser's own arithmetic (no from_str_radix): whether the double is the exact integer converted once is not read", where=rp.where(), fn=rp.key)
    elif float_arith:
        b_, bi, si = float_arith[0]
        ctx.fail(clause + ".radix-exact", "floating accumulation only (%s)" % cfg, "the digits of a prefixed literal are only accumulated in floating point (acc·radix + digit, rounded at every step): literals with more than 53 significant bits can differ from the correctly rounded double; no exact integer parse (from_str_radix) is made", where=b_.where(bi, si), fn=b_.key)
    else:
        ctx.unread(clause + ".radix-exact", "digit parser (%s)" % cfg, "neither an integer parse nor a floating accumulation found in the digit parser", where=rp.where(), fn=rp.key)
    # ---- guards, results, accumulation: read off the path summaries of the parser (rules/pathsum.py), the case normal
    # form of its results (rules/optnorm.py) and its accumulations (rules/accum.py) — see _RadixReader below
    str_arg = [i + 1 for i, x in enumerate(facts.items[rp.key].get("inputs", [])) if x == "&str"]
    rad_arg = [i + 1 for i, x in enumerate(facts.items[rp.key].get("inputs", [])) if x == "u32"]
    if len(str_arg) != 1 or len(rad_arg) != 1:
        raise Inconclusive("radix parser signature (&str, u32) not recognised")
    _RadixReader(ctx, facts, rp, clause, cfg, str_arg[0], rad_arg[0]).run()


# ---------------------------------------------------------------------------------------------------------------------
# the set of characters (or bytes) a predicate accepts, read on its path summaries: every atom of a path must be a test
# of the character against constants (comparison, integer switch, ASCII class method, membership in a constant string);
# the characters a path admits are those consistent with its atoms and with its result being true.  Which spelling
# (|| chain, match with ranges, matches!, method calls) does not matter.  None = some atom was not read.
# ---------------------------------------------------------------------------------------------------------------------
ASCII_CLASSES = {
    "is_ascii_digit": [(48, 57)], "is_ascii_hexdigit": [(48, 57), (65, 70), (97, 102)], "is_ascii_alphabetic": [(65, 90), (97, 122)],
    "is_ascii_alphanumeric": [(48, 57), (65, 90), (97, 122)], "is_ascii_uppercase": [(65, 90)], "is_ascii_lowercase": [(97, 122)],
    "is_ascii": [(0, 127)],
}


def iv_cut(ivs, sel, keep):
    """ivs ∩ sel (keep) or ivs − sel (not keep); sel = normalised intervals."""
    out = []
    if keep:
        for lo, hi in sel:
            out.extend(iv_and(ivs, lo, hi))
        return iv_norm(out)
    rest = list(ivs)
    for lo, hi in sel:
        nxt = []
        for a, b in rest:
            if hi < a or lo > b:
                nxt.append((a, b))
                continue
            if a <= lo - 1:
                nxt.append((a, lo - 1))
            if hi + 1 <= b:
                nxt.append((hi + 1, b))
        rest = nxt
    return iv_norm(rest)


def predicate_set(cb, argn):
    """Accepted code points (normalised intervals) of a pure predicate over its parameter `argn`, or None (not read)."""
    if cb is None:
        return None
    w = _PS.summarize(cb, max_paths=3000)
    if w.overflow or not w.paths or any(p.truncated for p in w.paths):
        return None

    def isarg(x):
        return strip_cast(x) == ("arg", argn)

    def cp(x):
        x = strip_cast(x)
        v = const_value(x[1]) if x[0] == "const" else None
        if isinstance(v, str) and len(v) == 1:
            return ord(v)
        return v if isinstance(v, int) and not isinstance(v, bool) else None

    def sel_of(x):
        """(set of code points for which x is true) or None."""
        x = strip_refs(x)
        if x[0] == "const" and isinstance(const_value(x[1]), bool):
            return [(0, MAXC)] if const_value(x[1]) else []
        if x[0] == "unop" and x[1] == "Not":
            s_ = sel_of(x[2])
            return None if s_ is None else iv_cut([(0, MAXC)], s_, False)
        if x[0] == "binop" and x[1] in ("Le", "Lt", "Ge", "Gt", "Eq", "Ne"):
            a, b, op = x[2], x[3], x[1]
            if isarg(b) and cp(a) is not None:
                a, b = b, a
                op = {"Le": "Ge", "Lt": "Gt", "Ge": "Le", "Gt": "Lt", "Eq": "Eq", "Ne": "Ne"}[op]
            if not (isarg(a) and cp(b) is not None):
                return None
            k = cp(b)
            return iv_norm({"Le": [(0, k)], "Lt": [(0, k - 1)], "Ge": [(k, MAXC)], "Gt": [(k + 1, MAXC)], "Eq": [(k, k)], "Ne": [(0, k - 1), (k + 1, MAXC)]}[op])
        if x[0] == "binop" and x[1] in ("BitOr", "BitAnd"):
            a, b = sel_of(x[2]), sel_of(x[3])
            if a is None or b is None:
                return None
            return iv_norm(a + b) if x[1] == "BitOr" else iv_cut(a, b, True)
        if x[0] == "call" and x[1]:
            pth = x[1].get("path") or ""
            m = re.search(r"^(std::char::methods::<impl char>|core::num::<impl u8>|core::char::methods::<impl char>)::(is_ascii\w*)$", pth)
            if m and m.group(2) in ASCII_CLASSES and len(x[2]) == 1 and isarg(x[2][0]):
                return list(ASCII_CLASSES[m.group(2)])
            if pth == "core::str::<impl str>::contains" and len(x[2]) == 2 and isarg(x[2][1]):
                a = strip_refs(x[2][0])
                if a[0] == "const" and isinstance(const_value(a[1]), str):
                    return iv_norm([(ord(c), ord(c)) for c in const_value(a[1])])
            if pth in ("core::slice::<impl [T]>::contains",) and len(x[2]) == 2 and isarg(x[2][1]):
                a = strip_refs(x[2][0])
                if a[0] == "const" and isinstance(const_value(a[1]), str):       # b"+-.eE"
                    return iv_norm([(ord(c), ord(c)) for c in const_value(a[1])])
        return None

    acc = []
    for p in w.paths:
        ivs = [(0, MAXC)]
        for k, v in p.atoms.items():          # (the refined values: a second switch on the same quantity narrows the atom)
            ex = w.exprs.get(k)
            if ex is None:
                return None
            if k[0] == "int":
                if not isarg(ex):
                    return None
                if isinstance(v, int) and not isinstance(v, bool):
                    ivs = iv_cut(ivs, [(v, v)], True)
                elif isinstance(v, tuple) and v and v[0] == "not":
                    ivs = iv_cut(ivs, iv_norm([(int(z), int(z)) for z in v[1]]), False)
                else:
                    return None
                continue
            if not isinstance(v, bool):
                return None
            s_ = sel_of(ex)
            if s_ is None:
                return None
            ivs = iv_cut(ivs, s_, v)
        if p.result is None:
            return None
        s_ = sel_of(p.result)
        if s_ is None:
            return None
        acc.extend(iv_cut(ivs, s_, True))
    return iv_norm(acc)


# ---------------------------------------------------------------------------------------------------------------------
# a lookup in a constant table: `TABLE.iter().find(|row| <test of row against captured values>)[.map(|row| <part of row>)]`
# evaluated row by row (the closures are read through their path summaries with the row substituted for the parameter)
# ---------------------------------------------------------------------------------------------------------------------
def _subst(e, env, ups, depth=0):
    """Substitute the closure parameter(s) (env: arg number → expression) and the captures (field i of arg 1 → ups[i])
    and reduce projections of aggregates."""
    if not isinstance(e, tuple) or depth > 30:
        return e
    if e[0] == "arg" and e[1] in env:
        return env[e[1]]
    if e[0] == "field" and isinstance(e[2], int) and isinstance(e[1], tuple):
        if strip_refs(e[1]) == ("arg", 1) and ups is not None and e[2] < len(ups):
            return ups[e[2]]
        base = strip_refs(_subst(e[1], env, ups, depth + 1))
        if base[0] == "agg" and not base[1].get("variant") and e[2] < len(base[2]):
            return base[2][e[2]]
        return ("field", base, e[2]) + tuple(e[3:])
    out = []
    for x in e:
        if isinstance(x, tuple):
            out.append(_subst(x, env, ups, depth + 1))
        elif isinstance(x, list):
            out.append([_subst(y, env, ups, depth + 1) if isinstance(y, tuple) else y for y in x])
        else:
            out.append(x)
    return tuple(out)


def _closure_value(facts, clo, row):
    """The value of a straight-line closure applied to `row` (captures substituted), or None."""
    clo = strip_refs(clo)
    if not (clo[0] == "agg" and clo[1].get("closure")):
        return None
    cb = facts.body(clo[1]["closure"])
    if cb is None:
        return None
    w = _PS.summarize(cb, max_paths=50)
    if w.overflow or len(w.paths) != 1 or w.paths[0].order or w.paths[0].truncated or w.paths[0].result is None:
        return None
    return _subst(w.paths[0].result, {2: row}, [u for u in clo[2]])


def table_lookup(facts, e):
    """e = find(iter(TABLE), pred) possibly under Option::map/copied/cloned → [(pred(row), mapped row)] per row
    (expressions with the row substituted), or None when e is not such a lookup / was not read."""
    e = strip_refs(e)
    maps = []
    hops = 0
    while e[0] == "call" and e[1] and hops < 6:
        pth = e[1].get("path") or ""
        if pth == "std::option::Option::<T>::map" and len(e[2]) == 2:
            maps.append(e[2][1])
            e = strip_refs(e[2][0])
        elif re.search(r"Option::<&T>::(copied|cloned)$", pth) and e[2]:
            e = strip_refs(e[2][0])
        else:
            break
        hops += 1
    if not (e[0] == "call" and e[1] and re.search(r"Iterator(>)?::find$", e[1].get("path") or "") and len(e[2]) == 2):
        return None
    rows = _table_rows(facts, e[2][0])
    if rows is None:
        return None
    out = []
    for row in rows:
        test = _closure_value(facts, e[2][1], row)
        if test is None:
            return None
        val = row
        for m in reversed(maps):
            val = _closure_value(facts, m, val)
            if val is None:
                return None
        out.append((test, val))
    return out


def strip_cast(e):
    e = strip_refs(e)
    while e[0] == "cast":
        e = strip_refs(e[2])
    return e


def closure_alphabet(cb):
    """Characters admitted by a closure of the form |c| c.is_ascii_digit() || "<set>".contains(c) (any order)."""
    if cb is None:
        return None
    out = set()
    ok = True
    for bi, t in cb.calls():
        p = callee_path(t) or ""
        if p == "std::char::methods::<impl char>::is_ascii_digit":
            out |= set("0123456789")
        elif p == "core::str::<impl str>::contains":
            a = strip_refs(cb.trace(t["args"][0]))
            if a[0] == "const" and isinstance(const_value(a[1]), str):
                out |= set(const_value(a[1]))
            else:
                ok = False
        elif p == "core::slice::<impl [T]>::contains":
            ok = False
        else:
            ok = False
    # plain comparisons with char constants
    for bi, si, s in cb.stmts():
        if s["k"] == "Assign" and s["rv"]["k"] == "BinaryOp" and s["rv"]["op"] == "Eq":
            for o in (s["rv"]["a"], s["rv"]["b"]):
                c = op_const(o)
                if c and "char" in c:
                    out.add(c["char"])
    for bi in cb.reachable():
        tt = cb.blocks[bi]["term"]
        if tt["k"] == "SwitchInt" and tt.get("dty") == "char":
            for v, tg in tt["arms"]:
                out.add(chr(int(v)))
    return out if ok else None


# ---------------------------------------------------------------------------------------------------------------------
# path summaries of the conversion (rules/pathsum.py), with the atoms of stateful calls keyed by call site:
# `(rest.next(), rest.next())` are two different characters although both are spelled `next(&mut rest)`
# ---------------------------------------------------------------------------------------------------------------------
from . import pathsum as _PS      # noqa: E402

STATEFUL = re.compile(r"::(next|next_back|nth|pop|pop_front|pop_back)$")


class SiteWalker(_PS.Walker):
    def classify(self, e, t):
        out = _PS.Walker.classify(self, e, t)
        sites = []

        def find(x):
            if x[0] == "call" and x[1] and STATEFUL.search(x[1].get("path") or "") and len(x) > 3:
                sites.append(x[3])
            return False
        expr_mentions(e, find)
        if not sites:
            return out
        tag = ("sites",) + tuple(sorted(set(sites)))
        res = []
        for (bb, key, val) in out:
            if key is not None:
                k2 = tuple(key) + (tag,)
                if key in self.exprs:
                    self.exprs[k2] = self.exprs[key]
                key = k2
            res.append((bb, key, val))
        return res


def conversion_paths(f, max_paths=4000):
    w = SiteWalker(f, max_paths=max_paths)
    if w.overflow or not w.paths:
        return None
    return w


def _table_rows(facts, it):
    """Rows of the constant array behind `TABLE.iter()` / `&TABLE` (expressions), or None."""
    it = strip_refs(it)
    hops = 0
    while it[0] == "call" and it[1] and re.search(r"(::iter|::into_iter|IntoIterator>::into_iter|Deref>::deref|::as_slice|::copied|::cloned)$", it[1]["path"]) and it[2] and hops < 6:
        it = strip_refs(it[2][0])
        hops += 1
    while it[0] == "cast" and str(it[1]).startswith("PointerCoercion"):
        it = strip_refs(it[2])
    arr = None
    if it[0] == "const" and it[1].get("item"):
        cb = facts.body(it[1]["item"])
        if cb is not None:
            arr = strip_refs(cb.trace(0))
    elif it[0] == "agg":
        arr = it
    while arr is not None and arr[0] == "cast" and str(arr[1]).startswith("PointerCoercion"):
        arr = strip_refs(arr[2])
    if arr is not None and arr[0] == "agg" and arr[1].get("agg") == "Array":
        return [strip_refs(r) for r in arr[2]]
    return None


def table_charset(facts, pred):
    """The set accepted by a predicate that scans a constant table: `TABLE.iter().any(|&(lo, hi)| lo <= c && c <= hi)`
    (any comparison chain over the row's fields is read, by interval evaluation of the closure's path summaries per
    row) or `TABLE.contains(&c)`.  None when the predicate is not of that kind."""
    r = strip_refs(pred.trace(0))
    if not (r[0] == "call" and r[1]):
        return None
    pth = r[1]["path"]
    if pth.endswith("::contains") and len(r[2]) == 2 and strip_refs(r[2][1]) == ("arg", 1):
        rows = _table_rows(facts, r[2][0])
        if rows is None:
            return None
        out = []
        for x in rows:
            if not (x[0] == "const" and isinstance(const_value(x[1]), str) and len(const_value(x[1])) == 1):
                return None
            out.append((ord(const_value(x[1])), ord(const_value(x[1]))))
        return iv_norm(out)
    if not (re.search(r"Iterator(>)?::any$", pth) and len(r[2]) == 2):
        return None
    rows = _table_rows(facts, r[2][0])
    clo = strip_refs(r[2][1])
    if rows is None or not (clo[0] == "agg" and clo[1].get("closure")):
        return None
    ups = [strip_refs(u) for u in clo[2]]
    cb = facts.body(clo[1]["closure"])
    if cb is None or any(True for _ in cb.calls()):
        return None
    w = _PS.summarize(cb, max_paths=500)
    if w.overflow or any(p.truncated for p in w.paths):
        return None

    def cp(x):
        v = const_value(x[1]) if x[0] == "const" else None
        if isinstance(v, str) and len(v) == 1:
            return ord(v)
        return v if isinstance(v, int) and not isinstance(v, bool) else None

    def term(x, row):
        """("c",) the character tested | ("k", code point)"""
        x = strip_refs(x)
        while x[0] == "cast":
            x = strip_refs(x[2])
        if x[0] == "const":
            return ("k", cp(x)) if cp(x) is not None else None
        if x[0] == "field" and isinstance(x[2], int):
            base = strip_refs(x[1])
            if base == ("arg", 1) and x[2] < len(ups) and ups[x[2]] == ("arg", 1):
                return ("c",)
            if base == ("arg", 2):
                if row[0] == "agg" and x[2] < len(row[2]):
                    y = strip_refs(row[2][x[2]])
                    return ("k", cp(y)) if y[0] == "const" and cp(y) is not None else None
        if x == ("arg", 2) and row[0] == "const":
            return ("k", cp(row)) if cp(row) is not None else None
        return None

    def constrain(ivs, x, truth, row):
        """ivs restricted to the characters for which the comparison x has the given truth; None = not read."""
        x = strip_refs(x)
        if x[0] == "const" and isinstance(const_value(x[1]), bool):
            return ivs if const_value(x[1]) == truth else []
        if x[0] == "unop" and x[1] == "Not":
            return constrain(ivs, x[2], not truth, row)
        if x[0] != "binop" or x[1] not in ("Le", "Lt", "Ge", "Gt", "Eq", "Ne"):
            return None
        a, b = term(x[2], row), term(x[3], row)
        op = x[1]
        if a is None or b is None:
            return None
        if a[0] == "k" and b[0] == "c":
            a, b = b, a
            op = {"Le": "Ge", "Lt": "Gt", "Ge": "Le", "Gt": "Lt", "Eq": "Eq", "Ne": "Ne"}[op]
        if not (a[0] == "c" and b[0] == "k"):
            return None
        k = b[1]
        yes = {"Le": [(0, k)], "Lt": [(0, k - 1)], "Ge": [(k, MAXC)], "Gt": [(k + 1, MAXC)], "Eq": [(k, k)], "Ne": [(0, k - 1), (k + 1, MAXC)]}[op]
        no = {"Le": [(k + 1, MAXC)], "Lt": [(k, MAXC)], "Ge": [(0, k - 1)], "Gt": [(0, k)], "Eq": [(0, k - 1), (k + 1, MAXC)], "Ne": [(k, k)]}[op]
        sel = yes if truth else no
        out = []
        for lo, hi in sel:
            out.extend(iv_and(ivs, lo, hi))
        return iv_norm(out)
    acc = []
    for row in rows:
        for p in w.paths:
            ivs = [(0, MAXC)]
            for k, v in p.order:
                ex = w.exprs.get(k)
                if ex is None or not isinstance(v, bool):
                    return None
                ivs = constrain(ivs, ex, v, row)
                if ivs is None:
                    return None
            res = strip_refs(p.result) if p.result is not None else None
            if res is None:
                return None
            ivs = constrain(ivs, res, True, row)
            if ivs is None:
                return None
            acc.extend(ivs)
    return iv_norm(acc)


# ---------------------------------------------------------------------------------------------------------------------
# the digit parser of prefixed literals, read without naming a statement shape
#
#   guards   on every path (path summaries; a path cut at a loop back edge still carries the atoms taken before the
#            loop) that reaches a *valuation* — a call of <int>::from_str_radix, an f64 fold/try_fold, the header of
#            a loop that carries an f64, a to_digit call, or a call that is handed a closure containing one of these —
#            the path has established before it "digits is not empty" and "every character is a digit of the radix";
#   results  every result of every path, with Option/Result combinators expanded into cases, is None, or
#            Some(<payload of from_str_radix(digits, radix)> as f64), or an accumulation over chars() of the digits
#            seeded with 0.0 whose step is carried·(radix as f64) + (to_digit(c, radix) as f64);
#   three outcomes per clause: satisfied / violated (read, and it says something else) / not read (ctx.unread).
# ---------------------------------------------------------------------------------------------------------------------
from . import optnorm as _ON, accum as _AC      # noqa: E402
from .core import _residual_variant              # noqa: E402

INT_PARSE = re.compile(r"^core::num::<impl [ui](8|16|32|64|128|size)>::from_str_radix$")
TO_DIGIT = "std::char::methods::<impl char>::to_digit"
IS_DIGIT = "std::char::methods::<impl char>::is_digit"
CHARS = "core::str::<impl str>::chars"
ITER_ALL = re.compile(r"Iterator(>)?::(all|any)$")
ITER_NEXT = re.compile(r"Iterator(>)?::next$")
LOSSLESS_F64 = re.compile(r"^(<f64 as std::convert::From<(u8|u16|u32|i8|i16|i32|f32)>>::from|std::convert::num::<impl std::convert::From<(u8|u16|u32|i8|i16|i32|f32)> for f64>::from)$")
INTO_ITER = re.compile(r"(IntoIterator>::into_iter|Iterator(>)?::by_ref)$")
ACC, ELEM = ("acc",), ("elem",)


class _PosWalker(_PS.Walker):
    """Path summaries that remember at which block(s) each atom is decided, so that "the path has established the
    fact before it reaches the valuation" can be asked of a path."""

    def __init__(self, body, **kw):
        self._term_block = {id(blk["term"]): bi for bi, blk in enumerate(body.blocks)}
        self.key_blocks = {}
        _PS.Walker.__init__(self, body, **kw)

    def classify(self, e, t):
        out = _PS.Walker.classify(self, e, t)
        bi = self._term_block.get(id(t))
        for (_, key, _v) in out:
            if key is not None:
                self.key_blocks.setdefault(key, set()).add(bi)
        return out

    def atom_pos(self, p, key):
        bs = self.key_blocks.get(key, ())
        for i, b in enumerate(p.blocks):
            if b in bs:
                return i
        return -1


def strip_conv(e):
    """Peel reference plumbing, `as` casts and the lossless conversions f64::from(u32) off a number."""
    while True:
        e = strip_refs(e)
        if e[0] == "cast":
            e = e[2]
        elif e[0] == "call" and e[1] and LOSSLESS_F64.match(e[1].get("path") or "") and e[2]:
            e = e[2][0]
        else:
            return e


def _show(e, n=160):
    """show_expr with the payload placeholders of the case normal form spelled out."""
    def sub(x, depth=0):
        if not isinstance(x, tuple) or not x or depth > 30:
            return x
        if x[0] == "payload" and len(x) > 2:
            return ("call", {"path": "payload-of"}, [sub(x[2], depth + 1)], -1)
        if x == ACC:
            return ("call", {"path": "acc"}, [], -1)
        if x == ELEM:
            return ("call", {"path": "c"}, [], -1)
        return tuple(sub(y, depth + 1) if isinstance(y, tuple) else ([sub(z, depth + 1) if isinstance(z, tuple) else z for z in y] if isinstance(y, list) else y) for y in x)
    return show_expr(sub(e))[:n]


def _is_none(v):
    v = strip_refs(v)
    return (v[0] == "agg" and v[1].get("variant") == "None") or _residual_variant(v) == "None"


def _some_payload(v):
    v = strip_refs(v)
    if v[0] == "agg" and v[1].get("variant") == "Some" and len(v[2]) == 1:
        return v[2][0]
    return None


def _payload_src(e):
    """The Option/Result-valued expression whose success payload e is (after normalisation), else None."""
    e = strip_refs(e)
    if e[0] == "payload":
        return strip_refs(e[2])
    if e[0] == "field" and e[2] == 0 and isinstance(e[1], tuple) and e[1][0] == "downcast" and e[1][2] in ("Some", "Ok", "Continue"):
        n = _ON.normalise(e)       # a payload projection inside a source expression (normalise does not descend into sources)
        if n[0] == "payload":
            return strip_refs(n[2])
    return None


def _upvars(e, depth=0):
    """`(*env).i` of a closure whose environment is the known closure aggregate: the captured operand itself
    (closures called by reference read their captures through one more deref than optnorm's binding resolves)."""
    if not isinstance(e, tuple) or not e or depth > 40:
        return e
    if e[0] == "field" and len(e) > 2 and isinstance(e[2], int) and isinstance(e[1], tuple):
        base = strip_refs(e[1])
        if base[0] == "agg" and base[1].get("agg") == "Closure" and e[2] < len(base[2]):
            return _upvars(base[2][e[2]], depth + 1)
    out = []
    for x in e:
        if isinstance(x, tuple):
            out.append(_upvars(x, depth + 1))
        elif isinstance(x, list):
            out.append([_upvars(y, depth + 1) if isinstance(y, tuple) else y for y in x])
        else:
            out.append(x)
    return tuple(out)


def _closure_cases(facts, clo, argvals):
    """optnorm's cases of calling a closure, with the captures resolved to the creator's operands."""
    cc = _ON._closure_cases(facts, clo, argvals, 0) if clo[0] == "agg" and clo[1].get("closure") else None
    if cc is None:
        return None
    return [(tuple((k, val, _upvars(_ON.SRC_EXPRS.get(k) or ())) for k, val in conds), _upvars(v)) for conds, v in cc]


class _AccumUnit:
    """What accum.find needs of a unit: the parser with its closures."""

    def __init__(self, root, bodies):
        self.root, self.bodies = root, bodies

    def calls(self, pred=None):
        return iter(())


class _RadixReader:
    def __init__(self, ctx, facts, rp, clause, cfg, sa, ra):
        self.ctx, self.facts, self.rp, self.K, self.cfg, self.sa, self.ra = ctx, facts, rp, clause, cfg, sa, ra
        self.units = [rp] + [b for b in facts.fns() if b.key.startswith(rp.key + "::{closure#")]
        self.loops = {h: blocks for (h, blocks, _srcs) in PN.loops_of(rp)}
        self.in_loop = set().union(*self.loops.values()) if self.loops else set()
        self.verdicts = {}       # (clause, key) -> [("ok"|"viol"|"unread", detail, where)]

    # ---- bookkeeping: one verdict per clause instance, the worst reading wins (violated > not read > satisfied)
    def note(self, clause, key, outcome, detail="", where=None, fn=None, ok_detail=""):
        self.verdicts.setdefault((clause, key), []).append((outcome, detail, where or self.rp.where(), fn or self.rp.key, ok_detail))

    def flush(self):
        for (clause, key), vs in self.verdicts.items():
            viol = [v for v in vs if v[0] == "viol"]
            unread = [v for v in vs if v[0] == "unread"]
            if viol:
                self.ctx.fail(self.K + clause, key, viol[0][1], where=viol[0][2], fn=viol[0][3])
            elif unread:
                self.ctx.unread(self.K + clause, key, unread[0][1], where=unread[0][2], fn=unread[0][3])
            else:
                self.ctx.ok(self.K + clause, key, nontrivial=True)
        self.verdicts = {}

    # ---- what an expression is about ----------------------------------------------------------------------------
    def is_digits(self, e):
        return strip_refs(e) == ("arg", self.sa)

    def is_radix(self, e):
        return strip_conv(e) == ("arg", self.ra)

    def mentions_digits(self, e):
        return expr_mentions(e, lambda y: y == ("arg", self.sa))

    def chars_of_digits(self, it):
        """True: `it` is chars() of the digits parameter (front to back, all of them); False: it is read and is
        something else over the digits (reversed, skipped, another string); None: not read."""
        it = strip_refs(it)
        hops = 0
        while it[0] == "call" and it[1] and INTO_ITER.search(it[1].get("path") or "") and it[2] and hops < 4:
            it = strip_refs(it[2][0])
            hops += 1
        if it[0] == "call" and it[1] and it[1].get("path") == CHARS and it[2]:
            return True if self.is_digits(it[2][0]) else False
        if it[0] == "call" and it[1] and re.search(r"Iterator(>)?::(rev|skip|take|step_by|skip_while|take_while|filter)$", it[1].get("path") or "") and it[2] and self.mentions_digits(it):
            return False
        return None

    def len_of_digits(self, e):
        e = strip_conv(e)
        if e[0] == "call" and e[1] and (e[1].get("path") or "").endswith("::len") and len(e[2]) == 1:
            x = strip_refs(e[2][0])
            if x[0] == "call" and x[1] and (x[1].get("path") or "").endswith("::as_bytes") and x[2]:
                x = strip_refs(x[2][0])
            return x == ("arg", self.sa)
        return False

    def closure_has_valuation(self, key):
        for b in self.units:
            if b.key == key or b.key.startswith(key + "::{closure#"):
                for _, t in b.calls():
                    p = callee_path(t) or ""
                    if INT_PARSE.match(p) or p == TO_DIGIT or _AC.FOLD.search(p):
                        return True
        return False

    # ---- atoms --------------------------------------------------------------------------------------------------
    def fact_of(self, key, ex, val):
        """What an atom of a path says about the digits:
        ("empty", bool)                     the digit string is (not) empty
        ("alldigits", bool, atom key)       every character is (not) a digit — the predicate is judged by all_digits_test
        ("outcome",)                        the outcome of a valuation (from_str_radix Ok/Err, to_digit Some/None)
        ("digits?",)                        a test of the digits this reader cannot classify
        None                                not about the digits"""
        if ex is None:
            return None
        x = strip_refs(ex)
        if key[0] == "cmp" and x[0] == "binop" and isinstance(val, bool):
            a, b = x[2], x[3]
            ka = const_value(strip_conv(a)[1]) if strip_conv(a)[0] == "const" else None
            kb = const_value(strip_conv(b)[1]) if strip_conv(b)[0] == "const" else None
            if x[1] == "Eq":
                if (self.len_of_digits(a) and kb == 0) or (self.len_of_digits(b) and ka == 0):
                    return ("empty", val)
            if x[1] == "Lt":
                if ka == 0 and not isinstance(ka, bool) and self.len_of_digits(b):      # 0 < len
                    return ("empty", not val)
                if kb == 1 and not isinstance(kb, bool) and self.len_of_digits(a):      # len < 1
                    return ("empty", val)
            return ("digits?",) if self.mentions_digits(x) else None
        if key[0] in ("pure", "site") and x[0] == "call" and x[1] and isinstance(val, bool):
            pth = x[1].get("path") or ""
            if pth.endswith("::is_empty") and len(x[2]) == 1:
                y = strip_refs(x[2][0])
                if y[0] == "call" and y[1] and (y[1].get("path") or "").endswith("::as_bytes") and y[2]:
                    y = strip_refs(y[2][0])
                if y == ("arg", self.sa):
                    return ("empty", val)
            m = re.search(r"PartialEq.*::(eq|ne)$", pth)
            if m and len(x[2]) == 2:
                p_, q_ = strip_refs(x[2][0]), strip_refs(x[2][1])
                for u, v in ((p_, q_), (q_, p_)):
                    if u == ("arg", self.sa) and v[0] == "const" and const_value(v[1]) == "":
                        return ("empty", val if m.group(1) == "eq" else not val)
            m2 = re.search(r"Iterator(>)?::(all|any)$", pth)
            if m2 and len(x[2]) == 2 and self.chars_of_digits(x[2][0]) is True:
                # all(is a digit) — or its De Morgan dual: not any(is not a digit); the predicate is judged by all_digits_test
                return ("alldigits", val if m2.group(2) == "all" else not val, key)
            return ("digits?",) if self.mentions_digits(x) else None
        if key[0] == "variant":
            y = x
            inner, _ren = _PS.through_variant_preserving(y)
            if inner is not None:
                y = strip_refs(inner)
            if y[0] == "call" and y[1] and (INT_PARSE.match(y[1].get("path") or "") or y[1].get("path") == TO_DIGIT or _AC.FOLD.search(y[1].get("path") or "")):
                return ("outcome",)
            return ("digits?",) if self.mentions_digits(x) else None
        return ("digits?",) if self.mentions_digits(x) else None

    def all_digits_test(self, key, ex):
        """.radix-digit-test for one `chars(digits).all(pred)` atom: pred is char::is_digit(c, radix)
        (`chars(digits).any(pred)`: pred is its negation)."""
        x = strip_refs(ex)
        clos = strip_refs(x[2][1])
        inst = "every character of the digits must be a digit of the radix (char::is_digit(c, radix)) (%s)" % self.cfg
        shown = "the all-digits test is %s over %s" % (show_expr(clos)[:60], show_expr(strip_refs(x[2][0]))[:60])
        where = self.rp.where(x[3]) if len(x) > 3 and isinstance(x[3], int) and 0 <= x[3] < len(self.rp.blocks) else self.rp.where()
        cc = _closure_cases(self.facts, clos, [ELEM])
        if cc is None:
            self.note(".radix-digit-test", inst, "unread", "the predicate of the all-digits test is not read (%s)" % shown, where)
            return
        calls = []

        def find(y):
            if y[0] == "call" and y[1] and y[1].get("path") == IS_DIGIT and len(y[2]) == 2:
                calls.append(y)
            return False
        for conds, v in cc:
            expr_mentions(v, find)
            for _k, _val, kex in conds:
                expr_mentions(kex, find)
        wrong = [y for y in calls if not (strip_refs(y[2][0]) == ELEM and self.is_radix(y[2][1]))]
        is_any = (x[1].get("path") or "").endswith("any")
        v0 = strip_refs(cc[0][1]) if len(cc) == 1 and not cc[0][0] else ()
        negated = False
        while v0 and v0[0] == "unop" and v0[1] == "Not":
            negated, v0 = not negated, strip_refs(v0[2])
        single = bool(v0) and v0[0] == "call" and v0 in [strip_refs(y) for y in calls]
        if wrong:
            self.note(".radix-digit-test", inst, "viol", shown + ": it asks %s" % "; ".join(_show(y, 80) for y in wrong[:2]), where)
        elif single and negated == is_any:
            self.note(".radix-digit-test", inst, "ok")
        elif single:
            self.note(".radix-digit-test", inst, "viol", shown + ": %s" % ("it asks whether some character is a digit of the radix" if is_any else "it asks whether every character is not a digit of the radix"), where)
        else:
            self.note(".radix-digit-test", inst, "unread", "the predicate of the all-digits test is not the single question char::is_digit(c, radix) (%s)" % shown, where)

    # ---- valuations on a path ---------------------------------------------------------------------------------------
    def valuations(self, p):
        """[(position on the path, instance name, block, in a loop?)]"""
        out = []
        for ev in p.events:
            c, args, bi = ev[1], ev[2], ev[3]
            pth = (c or {}).get("path") or ""
            if bi not in p.blocks:
                continue
            pos = p.blocks.index(bi)
            if INT_PARSE.match(pth):
                out.append((pos, "integer parse", bi, bi in self.in_loop))
            elif _AC.FOLD.search(pth) and (self.rp.key, bi) in self.acc_sites:
                out.append((pos, "fold", bi, bi in self.in_loop))
            elif pth == TO_DIGIT:
                out.append((pos, "digit value", bi, bi in self.in_loop))
            elif not ITER_ALL.search(pth):
                clos = []
                for a in args:
                    expr_mentions(a, lambda y: clos.append(y[1]["closure"]) if (y[0] == "agg" and y[1].get("closure")) else False)
                if any(self.closure_has_valuation(k) for k in clos):
                    out.append((pos, "closure with the valuation", bi, bi in self.in_loop))
        for h in self.acc_loops:
            if h in p.blocks:
                out.append((p.blocks.index(h), "digit loop", h, True))
        return out

    # ---- (a) guards ---------------------------------------------------------------------------------------------------
    def guards(self):
        w, rp, cfg = self.w, self.rp, self.cfg
        empties, alls, fuzzy_before_valuation = set(), {}, False
        any_valuation = False
        for p in w.paths:
            facts_ = [(w.atom_pos(p, k), self.fact_of(k, w.exprs.get(k), v)) for k, v in p.order]
            for pos, f_ in facts_:
                if f_ and f_[0] == "empty":
                    empties.add(pos >= 0)
                if f_ and f_[0] == "alldigits":
                    alls[f_[2]] = w.exprs.get(f_[2])
            for (vpos, name, bi, looped) in self.valuations(p):
                any_valuation = True
                before = [f_ for pos, f_ in facts_ if f_ and pos < vpos]
                fuzzy = any(f_[0] == "digits?" for f_ in before)
                fuzzy_before_valuation = fuzzy_before_valuation or fuzzy
                # non-empty
                inst = "digits are valued only when there is at least one (%s, %s)" % (name, cfg)
                em = [f_[1] for f_ in before if f_[0] == "empty"]
                if True in em:
                    self.note(".radix-guard-empty", inst, "viol", "the %s at %s is reached on a path on which the digit string is empty" % (name, rp.where(bi)), rp.where(bi))
                elif False in em:
                    self.note(".radix-guard-empty", inst, "ok")
                elif fuzzy:
                    self.note(".radix-guard-empty", inst, "unread", "no emptiness test is read on a path to the %s at %s, but the path takes tests of the digits this reader does not classify" % (name, rp.where(bi)), rp.where(bi))
                else:
                    self.note(".radix-guard-empty", inst, "viol", "the %s at %s is reachable with an empty digit string: no path to it has established that there is a digit" % (name, rp.where(bi)), rp.where(bi))
                # all digits
                inst = "digits are valued only when all are digits of the radix (%s, %s)" % (name, cfg)
                ad = [f_[1] for f_ in before if f_[0] == "alldigits"]
                if False in ad:
                    self.note(".radix-guard-digits", inst, "viol", "the %s at %s is reached on a path on which a character is not a digit of the radix" % (name, rp.where(bi)), rp.where(bi))
                elif True in ad:
                    self.note(".radix-guard-digits", inst, "ok")
                elif fuzzy or looped:
                    self.note(".radix-guard-digits", inst, "unread", "no `all characters are digits` test is read on a path to the %s at %s; the path runs through a loop or through tests of the digits this reader does not classify (a loop-form digit test is not read)" % (name, rp.where(bi)), rp.where(bi))
                else:
                    self.note(".radix-guard-digits", inst, "viol", "the %s at %s is reachable although a character is not a digit of the radix: no path to it has established that all are" % (name, rp.where(bi)), rp.where(bi))
        for k, ex in alls.items():
            self.all_digits_test(k, ex)
        # existence of the two tests
        some_fuzzy = any((self.fact_of(k, w.exprs.get(k), v) or ("",))[0] == "digits?" for p in w.paths for k, v in p.order)
        inst = "an emptiness test on the digits exists (%s)" % cfg
        if empties:
            self.note(".radix-empty-test", inst, "ok")
        elif some_fuzzy and (fuzzy_before_valuation or not any_valuation):
            self.note(".radix-empty-test", inst, "unread", "no emptiness test of the digits is read; the parser tests the digits in a form this reader does not classify")
        else:
            self.note(".radix-empty-test", inst, "viol", "no test for an empty digit string: `0x` alone would be a number")
        inst = "an all-digits test exists (%s)" % cfg
        if alls:
            self.note(".radix-digit-test-site", inst, "ok")
        elif some_fuzzy or self.loops:
            self.note(".radix-digit-test-site", inst, "unread", "no `chars().all(..)` test of the digits is read; the parser tests the digits in a loop or in a form this reader does not classify")
        else:
            self.note(".radix-digit-test-site", inst, "viol", "no test that every character is a digit of the radix")

    # ---- (b) results ---------------------------------------------------------------------------------------------------
    def path_result(self, p):
        """The result expression of a complete path.  A path through a loop is acyclic in the summary (the loop body
        is seen at most once), so a value carried around the loop is read from the definitions on the path and in
        the loops it runs through (phi with ("cycle", local) marking the carried value)."""
        hs = [h for h in self.loops if h in p.blocks]
        if not hs:
            return p.result, None
        blocks = set(p.blocks)
        for h in hs:
            blocks |= self.loops[h]
        with self.rp.restricted(blocks):
            r = self.rp.trace(0)
        return r, hs

    def carried(self, h):
        """Locals carried around the loop at h: {local: (seed expr, [step exprs])} (one definition before the loop,
        definitions in it that read the local itself)."""
        b, blocks = self.rp, self.loops[h]
        out = {}
        for l, ds in b.defs().items():
            if b.is_arg(l):
                continue
            inside = [d for d in ds if d[1] in blocks and not d[-1]]
            outside = [d for d in ds if d[1] not in blocks and not d[-1]]
            if not inside or len(outside) != 1 or any(d[-1] for d in ds):
                continue
            steps = [b._trace_def(d, 0, frozenset([l])) for d in inside]
            if any(expr_mentions(s_, lambda y: y == ("cycle", l)) for s_ in steps):
                out[l] = (b._trace_def(outside[0], 0, frozenset()), steps)
        return out

    def results(self):
        w, rp, cfg = self.w, self.rp, self.cfg
        inst = "the parser returns None, the parsed integer as a double, or the digit accumulation (%s)" % cfg
        kinds = set()
        shown = []
        for p in w.paths:
            if p.truncated:
                continue
            res, hs = self.path_result(p)
            if res is None:
                self.note(".radix-results", inst, "unread", "a path returns a value that is not read", rp.where(p.blocks[-1]))
                continue
            r0 = strip_refs(res)
            # a value carried around a loop of the path
            inner = _some_payload(r0)
            if hs and inner is not None:
                x = strip_refs(inner)
                hit = None
                for h in hs:
                    for l, (seed, steps) in self.carried(h).items():
                        if x[0] == "phi" and x[1] == l:
                            hit = (h, l, seed, steps)
                if hit:
                    kinds.add("accum")
                    self.loop_accumulation(*hit)
                    continue
            if hs and expr_mentions(r0, lambda y: y[0] in ("cycle", "phi", "partial", "deep")):
                self.note(".radix-results", inst, "unread", "a result computed in a loop is not read: %s" % show_expr(r0)[:120], rp.where(p.blocks[-1]))
                continue
            cases = _ON.cases_expr(self.facts, res)
            if cases is None:
                self.note(".radix-results", inst, "unread", "a result is not read as cases: %s" % show_expr(r0)[:120], rp.where(p.blocks[-1]))
                continue
            for conds, v in cases:
                v = _ON.normalise(strip_refs(v))
                kind = self.one_result(v, inst, p)
                if kind:
                    kinds.add(kind)
                shown.append(show_expr(v)[:60])
        if "none" not in kinds:
            self.note(".radix-results", inst, "viol" if not any(v[0] == "unread" for v in self.verdicts.get((".radix-results", inst), [])) else "unread", "no path of the parser returns None (results: %s)" % shown[:4])
        elif not (kinds & {"int", "accum"}):
            self.note(".radix-results", inst, "unread", "no valuation of the digits (integer parse or accumulation) is read among the results: %s" % shown[:4])
        else:
            self.note(".radix-results", inst, "ok")

    def one_result(self, v, inst, p):
        rp, cfg = self.rp, self.cfg
        where = rp.where(p.blocks[-1]) if p.blocks else rp.where()
        if _is_none(v):
            return "none"
        inner = _some_payload(v)
        has_int = expr_mentions(v, lambda y: y[0] == "call" and y[1] and INT_PARSE.match(y[1].get("path") or "") is not None)
        fold = strip_refs(inner) if inner is not None else strip_refs(v)
        if fold[0] == "call" and fold[1] and _AC.FOLD.search(fold[1].get("path") or "") and not has_int:
            self.fold_accumulation(fold)
            return "accum"
        if has_int:
            # ---- the integer path: Some(<payload of from_str_radix(digits, radix)> as f64)
            i1 = "value = the integer parsed by from_str_radix, converted with `as f64` (%s)" % cfg
            i2 = "the parsed integer is converted with `as f64` (%s)" % cfg
            i3 = "the integer parser is given the digits and the radix themselves (%s)" % cfg
            src = _payload_src(strip_conv(inner)) if inner is not None else None
            if src is None or not (src[0] == "call" and src[1] and INT_PARSE.match(src[1].get("path") or "")) or strip_refs(strip_conv(inner))[0] != "payload":
                self.note(".radix-int-path", i1, "viol", "the valuation is %s" % _show(v), where)
                return "int"
            self.note(".radix-int-path", i1, "ok")
            x = strip_refs(inner)
            cast_ok = x[0] == "cast" and x[1] == "IntToFloat" and str(x[3]) == "f64" and strip_refs(x[2])[0] == "payload"
            self.note(".radix-int-cast", i2, "ok" if cast_ok else "viol", "the parsed integer becomes %s" % _show(x, 120), where)
            args_ok = len(src[2]) == 2 and self.is_digits(src[2][0]) and strip_refs(src[2][1]) == ("arg", self.ra)
            self.note(".radix-parse-args", i3, "ok" if args_ok else "viol", "from_str_radix(%s)" % ", ".join(show_expr(strip_refs(a))[:40] for a in src[2]), where)
            return "int"
        if inner is not None:
            x = strip_refs(inner)
            # a value this reader can follow to its leaves (constants, parameters, arithmetic, std calls) and that is
            # neither the parsed integer nor an accumulation is another result; anything computed by the crate's own
            # functions, held in a struct, or carried around a loop is not read
            opaque = expr_mentions(x, lambda y: (y[0] == "call" and (y[1] is None or y[1].get("local"))) or y[0] in ("cycle", "phi", "partial", "deep", "undef", "field", "upvar", "rv", "other", "index", "cindex", "proj", "never"))
            if opaque:
                self.note(".radix-results", inst, "unread", "a result is not read: %s" % _show(v, 120), where)
                return None
            self.note(".radix-results", inst, "viol", "the parser also returns %s" % _show(v, 120), where)
            return None
        self.note(".radix-results", inst, "unread", "a result is not read: %s" % _show(v, 120), where)
        return None

    # ---- accumulations ---------------------------------------------------------------------------------------------------
    def step_ok(self, v, is_acc, is_elem):
        """True / False / None (not read): v is carried·(radix as f64) + (to_digit(c, radix) as f64)"""
        v = strip_refs(v)
        if v[0] != "binop":
            return None
        if v[1] != "Add":
            return False
        verdicts = []
        for m_, d_ in ((strip_refs(v[2]), strip_refs(v[3])), (strip_refs(v[3]), strip_refs(v[2]))):
            if not (m_[0] == "binop" and m_[1] == "Mul"):
                continue
            fs = [m_[2], m_[3]]
            mul_ok = (is_acc(fs[0]) and self.is_radix(fs[1])) or (is_acc(fs[1]) and self.is_radix(fs[0]))
            dd = strip_conv(d_)
            dsrc = _payload_src(dd)
            if dsrc is None:
                dsrc = strip_payload(dd)
            if not (dsrc[0] == "call" and dsrc[1] and dsrc[1].get("path") == TO_DIGIT and len(dsrc[2]) == 2):
                verdicts.append(False)
                continue
            if not is_elem(dsrc[2][0]):
                verdicts.append(False)
                continue
            if self.is_radix(dsrc[2][1]):
                verdicts.append(bool(mul_ok))
                continue
            k = strip_conv(dsrc[2][1])
            kv = const_value(k[1]) if k[0] == "const" else None
            if isinstance(kv, int) and not isinstance(kv, bool) and kv >= 16 and mul_ok:
                verdicts.append(None)      # to_digit(c, 16) equals to_digit(c, radix) on characters that passed is_digit(radix), radix ≤ 16
            else:
                verdicts.append(False)
        if True in verdicts:
            return True
        if None in verdicts:
            return None
        return False

    def seed_check(self, seed, where, fn):
        inst = "the accumulation starts from 0 (%s)" % self.cfg
        sv = _AC.seed_value(seed)
        good = isinstance(sv, (int, float)) and not isinstance(sv, bool) and sv == 0.0 and isinstance(sv, float)
        s0 = strip_refs(seed)
        if s0[0] == "agg" and s0[1].get("variant") in ("None", "Err"):
            self.note(".radix-fold-seed", inst, "viol", "the accumulation starts from %s" % show_expr(s0), where, fn)
        elif good:
            self.note(".radix-fold-seed", inst, "ok")
        elif isinstance(sv, (int, float)) and not isinstance(sv, bool):
            self.note(".radix-fold-seed", inst, "viol", "the accumulation starts from %s" % show_expr(strip_refs(seed)), where, fn)
        else:
            self.note(".radix-fold-seed", inst, "unread", "the seed of the accumulation is not a constant: %s" % show_expr(strip_refs(seed))[:80], where, fn)

    def fold_accumulation(self, fold):
        """A result that is `iter.fold(seed, step)` / `iter.try_fold(seed, step)`."""
        cfg = self.cfg
        where = self.rp.where()
        fn = self.rp.key
        for b, bi in self.fold_sites:       # the call site the value comes from (for the report only)
            if bi == fold[3] and callee_path(b.blocks[bi]["term"]) == fold[1].get("path"):
                where, fn = b.where(bi), b.key
        name = (fold[1].get("path") or "").rsplit("::", 1)[1]
        i_src = "the accumulation runs over the digits, front to back (%s)" % cfg
        if name in ("rfold", "try_rfold"):
            self.note(".radix-fold-source", i_src, "viol", "the accumulation runs over the digits back to front (%s)" % name, where, fn)
        elif len(fold[2]) != 3:
            self.note(".radix-fold-source", i_src, "unread", "%s with %d arguments" % (name, len(fold[2])), where, fn)
            return
        else:
            src = self.chars_of_digits(fold[2][0])
            if src is True:
                self.note(".radix-fold-source", i_src, "ok")
            elif src is False or strip_refs(fold[2][0])[0] == "call" and strip_refs(fold[2][0])[1] and strip_refs(fold[2][0])[1].get("path") == CHARS:
                self.note(".radix-fold-source", i_src, "viol", "the accumulation runs over %s" % show_expr(strip_refs(fold[2][0]))[:100], where, fn)
            else:
                self.note(".radix-fold-source", i_src, "unread", "the sequence the accumulation runs over is not read: %s" % show_expr(strip_refs(fold[2][0]))[:100], where, fn)
        self.seed_check(fold[2][1], where, fn)
        i_step = "each step is acc·radix + digit(c) (%s)" % cfg
        clo = strip_refs(fold[2][2])
        cc = _closure_cases(self.facts, clo, [ACC, ELEM])
        if cc is None:
            self.note(".radix-fold-step", i_step, "unread", "the step of the accumulation is not read (%s)" % show_expr(clo)[:80], where, fn)
            return
        cb = self.facts.body(clo[1]["closure"])
        is_acc = lambda y: strip_refs(y) == ACC or _payload_src(y) == ACC
        is_elem = lambda y: strip_refs(y) == ELEM
        nsteps = 0
        for conds, v in cc:
            v = _ON.normalise(strip_refs(v))
            if _is_none(v):
                # the accumulation gives up: only because the carried Option is None or the character has no digit value
                why = any(k[0] == "variant" and val in ("None", "Break", "Err") for k, val, _kex in conds)
                if not why:
                    self.note(".radix-fold-step", i_step, "unread", "the step returns None under a condition that is not read", cb.where(), cb.key)
                continue
            val = _some_payload(v)
            val = v if val is None else val
            nsteps += 1
            r = self.step_ok(val, is_acc, is_elem)
            if r is True:
                self.note(".radix-fold-step", i_step, "ok")
            elif r is False:
                self.note(".radix-fold-step", i_step, "viol", "the step of the accumulation is %s" % _show(val), cb.where(), cb.key)
            else:
                self.note(".radix-fold-step", i_step, "unread", "the step of the accumulation is not read: %s" % _show(val), cb.where(), cb.key)
        if not nsteps:
            self.note(".radix-fold-step", i_step, "unread", "the step of the accumulation never produces a value", cb.where(), cb.key)

    def loop_accumulation(self, h, l, seed, steps):
        """A result that is Some(<f64 carried around the loop at h>)."""
        rp, cfg = self.rp, self.cfg
        where = rp.where(h)
        self.seed_check(seed, where, rp.key)
        i_step = "each step is acc·radix + digit(c) (%s)" % cfg
        i_src = "the accumulation runs over the digits, front to back (%s)" % cfg
        elems = []

        def is_elem(y):
            s_ = _payload_src(y)
            if s_ is not None and s_[0] == "call" and s_[1] and ITER_NEXT.search(s_[1].get("path") or "") and s_[2] and len(s_) > 3 and s_[3] in self.loops[h]:
                elems.append(s_)
                return True
            return False
        is_acc = lambda y: strip_refs(y) == ("cycle", l)
        for st in steps:
            v = _ON.normalise(strip_refs(st))
            r = self.step_ok(v, is_acc, is_elem)
            if r is True:
                self.note(".radix-fold-step", i_step, "ok")
            elif r is False:
                self.note(".radix-fold-step", i_step, "viol", "the step of the accumulation is %s" % _show(v), where)
            else:
                self.note(".radix-fold-step", i_step, "unread", "the step of the accumulation is not read: %s" % _show(v), where)
        # the sequence: next() of chars() of the digits, and the loop is left only when it is exhausted or with None
        if not elems:
            self.note(".radix-fold-source", i_src, "unread", "the element the loop accumulates is not read as the payload of next() in the loop", where)
            return
        for s_ in elems:
            src = self.chars_of_digits(s_[2][0])
            if src is True:
                self.note(".radix-fold-source", i_src, "ok")
            elif src is False:
                self.note(".radix-fold-source", i_src, "viol", "the accumulation runs over %s" % show_expr(strip_refs(s_[2][0]))[:100], where)
            else:
                self.note(".radix-fold-source", i_src, "unread", "the sequence the loop runs over is not read: %s" % show_expr(strip_refs(s_[2][0]))[:100], where)
        early = self.loop_leaves_with_a_value(h, {s_[3] for s_ in elems})
        if early:
            self.note(".radix-fold-source", i_src, "viol", "the accumulation loop is left before the digits are exhausted on a path that still returns a number (%s)" % ", ".join(rp.where(u) for u, _ in early[:2]), rp.where(early[0][0]))

    def loop_leaves_with_a_value(self, h, next_sites):
        """Exit edges of the loop at h, other than the exhaustion (None) edge of its next(), from which a Some(..) can
        be returned."""
        rp, blocks = self.rp, self.loops[h]
        none_edges = set()
        for sb in blocks:
            tt = rp.blocks[sb]["term"]
            if tt["k"] != "SwitchInt":
                continue
            e = rp.trace(tt["discr"])
            if e[0] == "discr":
                x = strip_refs(e[1])
                if x[0] == "call" and x[1] and ITER_NEXT.search(x[1].get("path") or "") and x[3] in next_sites:
                    r = switch_edges_for_variant(rp, sb, "None")
                    if r:
                        none_edges.add((sb, r[0]))
        bad = []
        for u in sorted(blocks):
            for v in rp.succs(u):
                if v in blocks or (u, v) in none_edges or rp.blocks[v].get("cleanup"):
                    continue
                w2 = _PS.Walker(rp, start=v, max_paths=300)
                if w2.overflow or any(not (q.result is not None and _is_none(q.result)) for q in w2.paths if not q.truncated):
                    bad.append((u, v))
        return bad

    # ---- the whole reading ---------------------------------------------------------------------------------------------------
    def run(self):
        rp, cfg = self.rp, self.cfg
        w = _PosWalker(rp, max_paths=3000)
        self.w = w
        if w.overflow or not w.paths:
            for cl_ in (".radix-empty-test", ".radix-digit-test-site", ".radix-guard-empty", ".radix-guard-digits", ".radix-results"):
                self.ctx.unread(self.K + cl_, "digit parser (%s)" % cfg, "the digit parser has too many paths to summarise", where=rp.where(), fn=rp.key)
            return
        accs = _AC.find(_AccumUnit(rp, self.units))
        self.acc_sites = {(a.body.key, a.bi) for a in accs if a.form != "loop"}
        self.fold_sites = [(a.body, a.bi) for a in accs if a.form != "loop"]
        self.acc_loops = sorted({a.bi for a in accs if a.form == "loop" and a.body is rp})
        # every integer parse is given the digits and the radix themselves (wherever its result goes)
        i3 = "the integer parser is given the digits and the radix themselves (%s)" % cfg
        for b in self.units:
            for bi, t in b.calls():
                if INT_PARSE.match(callee_path(t) or "") and len(t["args"]) == 2:
                    a0, a1 = strip_refs(b.xtrace(t["args"][0])), strip_refs(b.xtrace(t["args"][1]))
                    good = a0 in (("arg", self.sa), ("carg", rp.key, self.sa)) and a1 in (("arg", self.ra), ("carg", rp.key, self.ra))
                    self.note(".radix-parse-args", i3, "ok" if good else "viol", "from_str_radix(%s, %s)" % (show_expr(a0)[:40], show_expr(a1)[:40]), b.where(bi), b.key)
        self.guards()
        self.results()
        self.flush()


def container_elements_converted(ctx, facts, roots, cfg, clause):
    """A container becomes a number (or a primitive) only through its string form: ECMAScript's ToPrimitive of an array
    is `join(",")`, so `[true]` is "true" is NaN — never "the value of its only element".  Positive evidence of the
    contrary: in the reach of `roots`, a value → number / primitive conversion of the crate is applied to an *element*
    of a JSON container — its argument derives from the Array/Object payload of a value, or from a parameter / local
    that is a collection of owned `serde_json::Value`s (the operand list is a collection of `&Value`s and is not one)."""
    from .core import expr_mentions
    items = facts.items

    def is_conv(k):
        it = items.get(k, {})
        out = it.get("output", "")
        return it.get("inputs") and all(x.endswith("serde_json::Value") for x in it["inputs"]) and len(it["inputs"]) <= 2 and \
            (out == "std::option::Option<f64>" or out.startswith("std::result::Result<f64") or out.endswith("::Primitive") or out == "f64")
    owned_coll = re.compile(r"(\[serde_json::Value(; \d+)?\]|Vec<serde_json::Value>|Iter<'\w*, serde_json::Value>|Map<std::string::String, serde_json::Value>)")
    n = 0
    found = []
    for k in sorted(facts.reach(list(roots))):
        b = facts.body(k)
        if b is None or b.kind not in ("fn", "closure"):
            continue
        colls = {l for l in range(len(b.locals)) if owned_coll.search(b.local_ty(l) or "")}
        for bi, t in b.calls():
            c = callee_of(t)
            if not c or not c.get("local") or not is_conv(c["key"]):
                continue
            n += 1
            for a in t["args"]:
                e = b.xtrace(a) if hasattr(b, "xtrace") else b.trace(a)
                opened = expr_mentions(e, lambda y: isinstance(y, tuple) and y and y[0] == "downcast" and y[2] in ("Array", "Object"))
                elem = expr_mentions(e, lambda y: isinstance(y, tuple) and y and ((y[0] == "arg" and y[1] in colls and b.kind == "fn") or (y[0] == "carg" and False)))
                if not elem and b.kind == "closure":
                    elem = expr_mentions(b.trace(a), lambda y: isinstance(y, tuple) and y and y[0] == "arg" and y[1] >= 2 and y[1] in colls)
                if opened or elem:
                    found.append((b, bi, c["key"]))
                    break
    for b, bi, ck in found:
        ctx.fail(clause, "%s → %s" % (b.key.split("::", 1)[1], ck.split("::", 1)[1]),
                 "%s applies the conversion %s to an element of a JSON container: a container converts through its string form only ([true] is \"true\", not 1)" % (b.key.split("::", 1)[1], ck.split("::", 1)[1]),
                 where=b.where(bi), fn=b.key)
    if not found:
        ctx.ok(clause, "no numeric conversion is applied to an element of a container (%d conversion call sites, %s)" % (n, cfg), nontrivial=True)
