#!/usr/bin/env python3
"""R-API A3 and the ECMAScript StringToNumber structure of the shared
string→number conversion (used by C07, C09, C10).

The constants involved — the white-space set, the three Infinity spellings, the
radix prefixes, the decimal alphabet — are the behaviour the properties state,
so they are read out of the MIR as values (interval abstract interpretation of
the white-space predicate; constants of the comparison chains) and compared
with the ECMAScript tables transcribed below."""
import re
from .core import (callee_of, callee_path, strip_refs, strip_payload, show_expr, const_value, expr_mentions, op_const, edge_dominates, bool_edge, switch_edges_for_variant)
from .engine import Inconclusive
from . import panic as PN

FROM_STR = "core::num::float_parse::<impl std::str::FromStr for f64>::from_str"
PARSE = "core::str::<impl str>::parse"

# ECMA-262 WhiteSpace ∪ LineTerminator (StrWhiteSpaceChar)
ES_WS = [(0x9, 0xD), (0x20, 0x20), (0xA0, 0xA0), (0x1680, 0x1680), (0x2000, 0x200A), (0x2028, 0x2029), (0x202F, 0x202F), (0x205F, 0x205F), (0x3000, 0x3000), (0xFEFF, 0xFEFF)]
MAXC = 0x10FFFF


def iv_norm(ivs):
    ivs = sorted((a, b) for a, b in ivs if a <= b)
    out = []
    for a, b in ivs:
        if out and a <= out[-1][1] + 1:
            out[-1] = (out[-1][0], max(out[-1][1], b))
        else:
            out.append((a, b))
    return out


def iv_and(ivs, lo, hi):
    return [(max(a, lo), min(b, hi)) for a, b in ivs if max(a, lo) <= min(b, hi)]


def iv_minus_point(ivs, v):
    out = []
    for a, b in ivs:
        if a <= v <= b:
            if a <= v - 1:
                out.append((a, v - 1))
            if v + 1 <= b:
                out.append((v + 1, b))
        else:
            out.append((a, b))
    return out


def charset_of(body):
    """Accepted code points of a pure `fn(char) -> bool`, as normalised intervals;
    or ('calls', path) when the predicate delegates to another function."""
    for bi, t in body.calls():
        return ("calls", callee_path(t) or "<indirect>")
    accepted = []
    budget = [20000]

    def cp(c):
        v = const_value(c)
        if isinstance(v, str) and len(v) == 1:
            return ord(v)
        if isinstance(v, int) and not isinstance(v, bool):
            return v
        return None

    def walk(bi, ivs, ret):
        budget[0] -= 1
        if budget[0] < 0:
            raise Inconclusive("character predicate too large to read")
        if not ivs:
            return
        blk = body.blocks[bi]
        bools = {}
        for s in blk["stmts"]:
            if s["k"] != "Assign":
                continue
            rv = s["rv"]
            if s["place"]["local"] == 0 and rv["k"] == "Use" and op_const(rv["op"]) and isinstance(const_value(op_const(rv["op"])), bool):
                ret = const_value(op_const(rv["op"]))
            elif s["place"]["local"] == 0:
                ret = ("expr", s)
            if rv["k"] == "BinaryOp" and rv["op"] in ("Le", "Lt", "Ge", "Gt", "Eq", "Ne"):
                bools[s["place"]["local"]] = rv
        t = blk["term"]
        if t["k"] == "Return":
            if ret is True:
                accepted.extend(ivs)
            elif ret is not False:
                raise Inconclusive("character predicate returns a non-constant")
            return
        if t["k"] == "Goto":
            return walk(t["target"], ivs, ret)
        if t["k"] == "SwitchInt":
            d = t["discr"]
            if d["k"] in ("Copy", "Move") and not d["place"]["proj"]:
                l = d["place"]["local"]
                e = strip_refs(body.trace(d))
                if e == ("arg", 1) or (e[0] == "cast" and strip_refs(e[2]) == ("arg", 1)):
                    rest = ivs
                    for v, tg in t["arms"]:
                        v = int(v)
                        walk(tg, iv_and(ivs, v, v), ret)
                        rest = iv_minus_point(rest, v)
                    walk(t["otherwise"], rest, ret)
                    return
                rv = bools.get(l)
                if rv is None:
                    # comparison computed in an earlier block
                    for d2 in body.defs().get(l, []):
                        if d2[0] == "stmt" and d2[3]["k"] == "BinaryOp":
                            rv = d2[3]
                if rv is not None:
                    a, b = rv["a"], rv["b"]
                    ea, eb = strip_refs(body.trace(a)), strip_refs(body.trace(b))
                    isarg = lambda x: x == ("arg", 1) or (x[0] == "cast" and strip_refs(x[2]) == ("arg", 1))
                    op = rv["op"]
                    if isarg(eb) and ea[0] == "const":
                        ea, eb = eb, ea
                        op = {"Le": "Ge", "Lt": "Gt", "Ge": "Le", "Gt": "Lt", "Eq": "Eq", "Ne": "Ne"}[op]
                    if isarg(ea) and eb[0] == "const" and cp(eb[1]) is not None:
                        k = cp(eb[1])
                        yes = {"Le": (0, k), "Lt": (0, k - 1), "Ge": (k, MAXC), "Gt": (k + 1, MAXC), "Eq": (k, k)}.get(op)
                        if op == "Ne":
                            t_ivs, f_ivs = iv_minus_point(ivs, k), iv_and(ivs, k, k)
                        else:
                            t_ivs = iv_and(ivs, yes[0], yes[1])
                            f_ivs = [x for x in iv_norm(iv_and(ivs, 0, yes[0] - 1) + iv_and(ivs, yes[1] + 1, MAXC))]
                        walk(bool_edge(body, bi, True), t_ivs, ret)
                        walk(bool_edge(body, bi, False), f_ivs, ret)
                        return
            raise Inconclusive("character predicate branches on something that is not a comparison of its argument with a constant")
        raise Inconclusive("character predicate has an unexpected terminator %s" % t["k"])

    walk(0, [(0, MAXC)], None)
    return iv_norm(accepted)


def fmt_set(ivs):
    return ", ".join(("U+%04X" % a) if a == b else ("U+%04X–U+%04X" % (a, b)) for a, b in ivs)


def find_str_to_number(facts):
    """The shared conversion: the local fn string → Option<f64> that (through the crate's own functions) hosts the
    crate's f64::from_str over a whole string.  When the conversion is split into helpers of the same signature
    (one of them hosting the float parser) it is the outermost one: the candidate that reaches all the others."""
    cands = []
    for b in facts.fns():
        it = facts.items.get(b.key, {})
        if b.kind == "fn" and it.get("output") == "std::option::Option<f64>" and len(it.get("inputs", [])) == 1 and re.search(r"^(&str|[A-Z][A-Za-z0-9]*|impl .*AsRef<str>.*)$", it["inputs"][0]):
            reach = facts.reach([b.key])
            hosts = any((callee_path(t) or "") in (FROM_STR, PARSE) for k in reach for bb in [facts.body(k)] if bb is not None for _, t in bb.calls())
            if hosts:
                cands.append((b, reach))
    if len(cands) > 1:
        keys = {b.key for b, _ in cands}
        outer = [b for b, reach in cands if keys <= set(reach) | {b.key}]
        if len(outer) == 1:
            return outer[0]
    if len(cands) != 1:
        raise Inconclusive("shared string→number conversion not identified (%d candidates)" % len(cands))
    return cands[0][0]


def radix_parser_role(facts, f):
    """The digit parser of prefixed literals: the function (digits: &str, radix: u32) → Option<f64> the conversion reaches."""
    out = []
    for k in sorted(facts.reach([f.key])):
        it = facts.items.get(k, {})
        if k != f.key and it.get("output") == "std::option::Option<f64>" and sorted(it.get("inputs", [])) == ["&str", "u32"]:
            out.append(k)
    return out


def conversion_view(facts, f):
    """The conversion with its private helpers (other than the digit parser) inlined at their call sites
    (rules/inline.py): splitting the conversion into helpers changes neither what it computes nor this view."""
    from . import inline
    stop = set(radix_parser_role(facts, f))
    try:
        cands = set(inline.candidates(facts.path))
    except Exception:
        return facts, f
    helpers = {k for k in facts.reach([f.key]) if k in cands and k != f.key and k not in stop and not any(k.startswith(s_ + "::") for s_ in stop)}
    # helpers only reached through the digit parser stay where they are
    through = set()
    for s_ in stop:
        through |= set(facts.reach([s_]))
    direct = set()
    todo = [f.key]
    while todo:
        k = todo.pop()
        for b in facts.fns():
            if b.key == k or b.key.startswith(k + "::{closure#"):
                for _, t in b.calls():
                    c = callee_of(t)
                    if c and c.get("local") and c.get("key") in helpers and c["key"] not in direct:
                        direct.add(c["key"])
                        todo.append(c["key"])
    helpers = direct
    if not helpers:
        return facts, f
    already = list((getattr(facts, "inlined", None) or {}).get("helpers", []))
    try:
        v = inline.load_view(facts.path, sorted(set(already) | helpers))
    except Exception:
        return facts, f
    fv = v.body(f.key)
    return (v, fv) if fv is not None else (facts, f)


def check(ctx, facts, cfg, clause="A3"):
    """Clauses on the shared string→number conversion. Returns the function body."""
    f0 = find_str_to_number(facts)
    facts, f = conversion_view(facts, f0)
    unit = [f] + [x for x in facts.fns() if x.key.startswith(f.key + "::{closure#")]
    loc = f.where()
    # ---- the parse call(s) of Rust's float grammar
    parses = [(b, bi, t) for b in unit for bi, t in b.calls() if (callee_path(t) or "") == FROM_STR or ((callee_path(t) or "") == PARSE and "f64" in (callee_of(t).get("full") or ""))]
    ctx.check(len(parses) == 1, clause + ".single-parse", "one use of Rust's float parser in the conversion (%s)" % cfg, "%d uses" % len(parses), where=loc, fn=f.key)
    gate_ok = False
    alphabet = None
    for b, bi, t in parses:
        # dominated by the true edge of Iterator::all over chars() of the same string
        for sb in b.reachable():
            tt = b.blocks[sb]["term"]
            if tt["k"] != "SwitchInt":
                continue
            e = strip_refs(b.trace(tt["discr"]))
            neg = False
            if e[0] == "unop" and e[1] == "Not":
                e = strip_refs(e[2])
                neg = True
            if e[0] == "call" and e[1] and re.search(r"Iterator(>)?::(all|any)$", e[1]["path"]):
                is_all = e[1]["path"].endswith("all")
                it = strip_refs(e[2][0])
                over_chars = expr_mentions(it, lambda x: x[0] == "call" and x[1] and x[1]["path"] in ("core::str::<impl str>::chars", "core::str::<impl str>::bytes"))
                edge = bool_edge(b, sb, (is_all and not neg) or (not is_all and neg))
                if over_chars and edge_dominates(b, sb, edge, bi) and is_all:
                    clos = strip_refs(e[2][1])
                    if clos[0] == "agg" and clos[1].get("agg") == "Closure":
                        alphabet = closure_alphabet(facts.body(clos[1]["closure"]))
                        gate_ok = True
        ctx.check(gate_ok, clause + ".alphabet-gate", "Rust's float parser only sees strings that passed a character-set test (%s)" % cfg,
                  "f64::from_str is applied to a string whose characters were not all tested against a fixed set: Rust's grammar also accepts inf / infinity / nan in any case", where=b.where(bi), fn=b.key, nontrivial=True)
    if alphabet is not None:
        want = set("0123456789+-.eE")
        ctx.check(alphabet == want, clause + ".alphabet", "the admitted alphabet is the decimal-literal characters (%s)" % cfg,
                  "characters admitted to the float parser: %s (expected digits and + - . e E)" % "".join(sorted(alphabet - want)) if alphabet else "?", where=loc, fn=f.key, nontrivial=True, sample={"alphabet": "".join(sorted(alphabet))})
    # ---- trimming with the ES white-space set
    trims = [(bi, t) for bi, t in f.calls() if (callee_path(t) or "").startswith("core::str::<impl str>::trim")]
    ctx.check(len(trims) == 1, clause + ".trim", "surrounding white space is trimmed once (%s)" % cfg, "%d trim calls" % len(trims), where=loc, fn=f.key)
    for bi, t in trims:
        p = callee_path(t)
        if p == "core::str::<impl str>::trim_matches" and len(t["args"]) == 2:
            c = op_const(t["args"][1])
            pred = None
            if c and "fn" in c:
                r = c["fn"].get("resolved") or c["fn"]
                pred = facts.body(r["key"]) if r["local"] else None
                if pred is None:
                    ctx.fail(clause + ".whitespace-set", "predicate %s" % r["path"], "white space is defined by %s, not by the ECMAScript StrWhiteSpaceChar set" % r["path"], where=f.where(bi), fn=f.key)
            else:
                e = strip_refs(f.trace(t["args"][1]))
                if e[0] == "agg" and e[1].get("agg") == "Closure":
                    pred = facts.body(e[1]["closure"])
            if pred is not None:
                cs = table_charset(facts, pred)
                if cs is None:
                    cs = charset_of(pred)
                if isinstance(cs, tuple) and cs and cs[0] == "calls":
                    if re.search(r"^std::char::methods::<impl char>::is_\w+$", cs[1]):
                        ctx.fail(clause + ".whitespace-set", "delegates to %s" % cs[1], "the white-space predicate delegates to %s — not the ECMAScript StrWhiteSpaceChar set (e.g. char::is_whitespace also accepts U+0085 and rejects U+FEFF)" % cs[1], where=pred.where(), fn=pred.key)
                    else:
                        ctx.unread(clause + ".whitespace-set", "predicate (%s)" % cfg, "the white-space predicate is neither a comparison chain nor a scan of a constant table (it calls %s): the set it accepts is not read" % cs[1], where=pred.where(), fn=pred.key)
                else:
                    want = iv_norm(ES_WS)
                    ctx.check(cs == want, clause + ".whitespace-set", "trimmed characters = ECMAScript WhiteSpace ∪ LineTerminator (%s)" % cfg,
                              "the white-space predicate accepts {%s}; ECMAScript's set is {%s}" % (fmt_set(cs), fmt_set(want)), where=pred.where(), fn=pred.key, nontrivial=True,
                              sample={"accepted": fmt_set(cs)})
        else:
            ctx.fail(clause + ".whitespace-set", "uses %s" % p.rsplit("::", 1)[1], "white space is trimmed with %s (Unicode White_Space), not the ECMAScript StrWhiteSpaceChar set" % p, where=f.where(bi), fn=f.key)
    # ---- decided on the path summaries of the conversion (helpers inlined): which strings are answered directly
    w = conversion_paths(f)
    if w is None or any(p.truncated for p in w.paths):
        for cl_, what in ((".empty-is-zero", "empty string"), (".infinity", "Infinity spellings"), (".radix-prefixes", "radix prefixes")):
            ctx.unread(clause + cl_, "%s (%s)" % (what, cfg), "the conversion has loops or too many paths to summarise", where=loc, fn=f.key)
        return f0
    is_trim = lambda y: y[0] == "call" and y[1] and (y[1].get("path") or "").startswith("core::str::<impl str>::trim")

    def str_test(key, ex):
        """("empty",) / ("eq", constant) when the atom tests the trimmed string for emptiness / equality with a constant."""
        if ex is None or key[0] not in ("pure", "cmp"):
            return None
        x = strip_refs(ex)
        if not expr_mentions(x, is_trim):
            return None
        if x[0] == "call" and x[1]:
            pth = x[1]["path"]
            if pth.endswith("::is_empty") and len(x[2]) == 1:
                return ("empty",)
            if re.search(r"PartialEq.*::eq$", pth) and len(x[2]) == 2:
                for a in x[2]:
                    a = strip_refs(a)
                    if a[0] == "const" and isinstance(const_value(a[1]), str):
                        return ("empty",) if const_value(a[1]) == "" else ("eq", const_value(a[1]))
        if x[0] == "binop" and x[1] == "Eq":
            for a, b in ((x[2], x[3]), (x[3], x[2])):
                a, b = strip_refs(a), strip_refs(b)
                if b[0] == "const" and const_value(b[1]) == 0 and a[0] == "call" and a[1] and a[1]["path"].endswith("::len"):
                    return ("empty",)
        return None

    def some_const(r):
        r = strip_refs(r) if r is not None else None
        if r is not None and r[0] == "agg" and r[1].get("variant") == "Some" and r[2]:
            v = strip_refs(r[2][0])
            if v[0] == "const" and isinstance(const_value(v[1]), (int, float)) and not isinstance(const_value(v[1]), bool):
                return float(const_value(v[1]))
        return None
    rad_keys = set(radix_parser_role(facts, f))
    zero_paths, zero_bad, inf, inf_bad = 0, [], {}, []
    prefixes, pref_unread, nrad_sites = {}, [], set()
    for p in w.paths:
        tests = [(str_test(k, w.exprs.get(k)), v) for k, v in p.order]
        if any(t == ("empty",) and v is True for t, v in tests):
            zero_paths += 1
            if some_const(p.result) != 0.0:
                zero_bad.append(show_expr(strip_refs(p.result))[:60] if p.result else "?")
            continue
        hit = [t[1] for t, v in tests if t and t[0] == "eq" and v is True]
        if hit:
            val = some_const(p.result)
            for k_ in hit:
                if k_ in inf and inf[k_] != val:
                    inf_bad.append(k_)
                inf[k_] = val
            continue
        for ev in p.events:
            c = ev[1]
            if c and c.get("key") in rad_keys and len(ev[2]) == 2:
                nrad_sites.add(ev[3])
                rx = [strip_cast(a) for a in ev[2] if strip_cast(a)[0] == "const" and isinstance(const_value(strip_cast(a)[1]), int) and not isinstance(const_value(strip_cast(a)[1]), bool)]
                chars = []
                for k, v in p.order:
                    if k[0] == "int" and isinstance(v, int) and expr_mentions(w.exprs.get(k) or (), is_trim):
                        pos = None
                        ex = w.exprs.get(k)

                        def find(y):
                            nonlocal pos
                            if y[0] in ("cindex", "index") and pos is None:
                                ints = [z for z in y[1:] if isinstance(z, int) and not isinstance(z, bool)]
                                cs_ = [const_value(strip_refs(z)[1]) for z in y[1:] if isinstance(z, tuple) and strip_refs(z)[0] == "const"]
                                cand = ints or [z for z in cs_ if isinstance(z, int)]
                                if cand:
                                    pos = cand[0]
                            return False
                        expr_mentions(ex, find)
                        chars.append((v, pos))
                if len(rx) != 1 or len(chars) != 2 or not all(0 < v < 0x110000 for v, _ in chars):
                    pref_unread.append("radix %s after %s" % ([show_expr(strip_refs(a))[:30] for a in ev[2]], chars))
                    continue
                if all(pos is not None for _, pos in chars) and [pos for _, pos in chars] != [0, 1]:
                    prefixes["@%s:%s" % (chars[0][1], chars[1][1]) + chr(chars[0][0]) + chr(chars[1][0])] = const_value(rx[0][1])
                    continue
                prefixes[chr(chars[0][0]) + chr(chars[1][0])] = const_value(rx[0][1])
    ctx.check(zero_paths >= 1 and not zero_bad, clause + ".empty-is-zero", "the empty (or all-white-space) string converts to 0 (%s)" % cfg,
              "no emptiness test of the trimmed string" if not zero_paths else "the empty string converts to %s" % zero_bad[:2], where=loc, fn=f.key, nontrivial=True)
    want_inf = {"Infinity": float("inf"), "+Infinity": float("inf"), "-Infinity": float("-inf")}
    ctx.check(inf == want_inf and not inf_bad, clause + ".infinity", "only the spellings Infinity / +Infinity / -Infinity denote infinities (%s)" % cfg,
              "string constants mapped to numbers: %s" % inf, where=loc, fn=f.key, nontrivial=True, sample={"spellings": {k: str(v) for k, v in inf.items()}})
    # ---- radix prefixes: every path into the digit parser is taken after two character tests that fix the prefix, with a constant radix
    rad = [(bi, t) for bi, t in f.calls() if callee_of(t) and callee_of(t).get("key") in rad_keys]
    ctx.check(len(rad_keys) == 1 and len(rad) >= 1, clause + ".radix-call", "prefixed integer literals are handed to one radix parser (%s)" % cfg, "%d radix parsers, %d call sites" % (len(rad_keys), len(rad)), where=loc, fn=f.key)
    for rk in sorted(rad_keys):
        radix_parser(ctx, facts, facts.body(rk), clause, cfg)
    if rad:
        bi = rad[0][0]
        if pref_unread:
            # the prefixes are not tested character by character: a constant table of (prefix, radix) rows?
            rows = None
            for bi2, t2 in f.calls():
                if (callee_path(t2) or "").endswith("::strip_prefix") or (callee_path(t2) or "").endswith("::starts_with"):
                    pe = strip_refs(f.trace(t2["args"][1]))
                    if pe[0] == "field" and isinstance(pe[2], int):
                        rows = (PN._const_table_rows(facts, f, pe[1]), pe[2])
            if rows and rows[0] is not None:
                tab = {}
                for r_ in rows[0]:
                    r_ = strip_refs(r_)
                    if r_[0] == "agg" and len(r_[2]) == 2:
                        a_, b_ = strip_refs(r_[2][0]), strip_refs(r_[2][1])
                        if a_[0] == "const" and b_[0] == "const":
                            tab[const_value(a_[1])] = const_value(b_[1])
                prefixes, pref_unread = tab, []
        want_tab = {"0x": 16, "0X": 16, "0o": 8, "0O": 8, "0b": 2, "0B": 2}
        if pref_unread or not prefixes:
            vs = PN.value_set(facts, f, f.trace(rad[0][1]["args"][1])) if len(rad[0][1]["args"]) == 2 else None
            if vs is not None:
                ctx.check(vs == {16, 8, 2}, clause + ".radix-values", "radix ∈ {16, 8, 2} (%s)" % cfg, "radix values: %s" % sorted(vs), where=f.where(bi), fn=f.key, nontrivial=True)
            ctx.unread(clause + ".radix-prefixes", "prefixes (%s)" % cfg, "the radix prefixes are not read as two character tests before the digit parser or a constant table (%s)" % "; ".join(pref_unread[:2]), where=f.where(bi), fn=f.key)
        else:
            ctx.check(set(prefixes.values()) == {16, 8, 2}, clause + ".radix-values", "radix ∈ {16, 8, 2} (%s)" % cfg, "radix values: %s" % sorted(set(prefixes.values())), where=f.where(bi), fn=f.key, nontrivial=True)
            ctx.check(prefixes == want_tab, clause + ".radix-prefixes", "0x/0X → 16, 0o/0O → 8, 0b/0B → 2 (%s)" % cfg, "prefixes read off the paths into the digit parser: %s" % prefixes, where=f.where(bi), fn=f.key, nontrivial=True, sample={"prefixes": prefixes})
    return f0


def radix_parser(ctx, facts, rp, clause, cfg):
    """The value of the digits of a prefixed integer literal (ES NonDecimalIntegerLiteral): NaN (None)
    for no digits or a character that is not a digit of the radix; otherwise Σ digit·radix^k —
    through the integer parser of the standard library and/or a fold acc·radix + digit from 0."""
    if rp is None:
        raise Inconclusive("radix parser body not available")
    # ---- exactness: the digits are valued by the exact integer parser (one rounding, `as f64`); a floating accumulation
    # acc·radix + digit rounds at every step once the value passes 2^53 and may end one ulp away from the double
    # ECMAScript prescribes.  Positive evidence of the defect: f64 arithmetic in the parser and no integer parse at all.
    runit = [facts.body(k) for k in sorted(facts.reach([rp.key])) if facts.body(k) is not None]
    has_int_parse = any(re.search(r"^core::num::<impl [ui](64|128|size)>::from_str_radix$", callee_path(t) or "") for b_ in runit for _, t in b_.calls())
    float_arith = [(b_, bi, si) for b_ in runit for bi, si, st in b_.stmts() if st["k"] == "Assign" and st["rv"]["k"] == "BinaryOp" and st["rv"]["op"] in ("Mul", "Add") and st["rv"].get("opty") in ("f64", "f32")]
    WIDE = ("u64", "u128", "i64", "i128", "usize", "isize")
    int_arith = any(re.search(r"^core::num::<impl (u64|u128|i64|i128|usize|isize)>::(checked_|wrapping_|overflowing_|saturating_)?(mul|add)$", callee_path(t) or "") for b_ in runit for _, t in b_.calls()) or \
        any(st["k"] == "Assign" and st["rv"]["k"] in ("BinaryOp", "CheckedBinaryOp") and st["rv"].get("op") in ("Mul", "Add", "MulWithOverflow", "AddWithOverflow") and st["rv"].get("opty") in WIDE for b_ in runit for bi, si, st in b_.stmts())
    if has_int_parse:
        ctx.ok(clause + ".radix-exact", "the digits are valued by the exact integer parser (%s)" % cfg, nontrivial=True)
    elif int_arith:
        ctx.unread(clause + ".radix-exact", "digit parser (%s)" % cfg, "the digits are accumulated in a wide integer by the parser's own arithmetic (no from_str_radix): whether the double is the exact integer converted once is not read", where=rp.where(), fn=rp.key)
    elif float_arith:
        b_, bi, si = float_arith[0]
        ctx.fail(clause + ".radix-exact", "floating accumulation only (%s)" % cfg, "the digits of a prefixed literal are only accumulated in floating point (acc·radix + digit, rounded at every step): literals with more than 53 significant bits can differ from the correctly rounded double; no exact integer parse (from_str_radix) is made", where=b_.where(bi, si), fn=b_.key)
    else:
        ctx.unread(clause + ".radix-exact", "digit parser (%s)" % cfg, "neither an integer parse nor a floating accumulation found in the digit parser", where=rp.where(), fn=rp.key)
    if PN.loops_of(rp) and not any(re.search(r"Iterator(>)?::(all|fold)$", callee_path(t) or "") for b_ in [rp] + [b for b in facts.fns() if b.key.startswith(rp.key + "::{closure#")] for _, t in b_.calls()):
        ctx.unread(clause + ".radix-results", "digit parser (%s)" % cfg, "the digit parser is written with explicit loops: its guards and its valuation are not read (the ban on other digit tests and the radix set still apply)", where=rp.where(), fn=rp.key)
        return
    ints = [(bi, t) for bi, t in rp.calls() if re.search(r"^core::num::<impl [ui](64|128|size)>::from_str_radix$", callee_path(t) or "")]
    units = [rp] + [b for b in facts.fns() if b.key.startswith(rp.key + "::{closure#")]
    folds = [(b, bi, t) for b in units for bi, t in b.calls() if re.search(r"Iterator(>)?::fold$", callee_path(t) or "")]
    if not ints and not folds:
        raise Inconclusive("radix parser: neither an integer parse nor a digit fold found in %s" % rp.key)
    # ---- what is valued: the digits parameter itself, in the radix parameter
    str_arg = [i + 1 for i, x in enumerate(facts.items[rp.key].get("inputs", [])) if x == "&str"]
    rad_arg = [i + 1 for i, x in enumerate(facts.items[rp.key].get("inputs", [])) if x == "u32"]
    if len(str_arg) != 1 or len(rad_arg) != 1:
        raise Inconclusive("radix parser signature (&str, u32) not recognised")
    sa, ra = str_arg[0], rad_arg[0]
    for bi, t in ints:
        a0, a1 = strip_refs(rp.trace(t["args"][0])), strip_refs(rp.trace(t["args"][1]))
        ctx.check(a0 == ("arg", sa) and a1 == ("arg", ra), clause + ".radix-parse-args", "the integer parser is given the digits and the radix themselves (%s)" % cfg, "from_str_radix(%s, %s)" % (show_expr(a0), show_expr(a1)), where=rp.where(bi), fn=rp.key, nontrivial=True)
    # ---- guards: non-empty and all digits of the radix, on every path to the valuation
    targets = [bi for bi, _ in ints] or [bi for b, bi, _ in folds if b is rp]
    created = []
    for bi, si, st in rp.stmts():
        if st["k"] == "Assign" and st["rv"]["k"] == "Aggregate" and st["rv"].get("agg") == "Closure":
            created.append(bi)
    targets = targets or created
    nonempty, alldig = [], []
    for sb in sorted(rp.reachable()):
        tt = rp.blocks[sb]["term"]
        if tt["k"] != "SwitchInt" or tt.get("dty") != "bool":
            continue
        e = strip_refs(rp.trace(tt["discr"]))
        neg = False
        while e[0] == "unop" and e[1] == "Not":
            neg = not neg
            e = strip_refs(e[2])
        if e[0] != "call" or not e[1]:
            continue
        pth = e[1]["path"]
        if re.search(r"PartialEq.*::(eq|ne)$", pth):
            x, y = strip_refs(e[2][0]), strip_refs(e[2][1])
            for p_, q_ in ((x, y), (y, x)):
                if q_[0] == "const" and const_value(q_[1]) == "" and p_ == ("arg", sa):
                    is_empty_truth = pth.endswith("::eq") != neg
                    nonempty.append((sb, bool_edge(rp, sb, not is_empty_truth)))
        elif pth.endswith("::is_empty") and strip_refs(e[2][0]) == ("arg", sa):
            nonempty.append((sb, bool_edge(rp, sb, neg)))
        elif re.search(r"Iterator(>)?::all$", pth):
            it = strip_refs(e[2][0])
            clos = strip_refs(e[2][1])
            over_digits = it[0] == "call" and it[1]["path"] == "core::str::<impl str>::chars" and strip_refs(it[2][0]) == ("arg", sa)
            good_pred = False
            if clos[0] == "agg" and clos[1].get("closure"):
                cb = facts.body(clos[1]["closure"])
                r = strip_refs(cb.trace(0))
                if r[0] == "call" and r[1] and r[1]["path"] == "std::char::methods::<impl char>::is_digit":
                    c_arg = strip_refs(r[2][0])
                    r_arg = strip_refs(cb.xtrace(cb.blocks[r[3]]["term"]["args"][1]))
                    good_pred = c_arg == ("arg", 2) and r_arg in (("carg", rp.key, ra), ("arg", ra))
                    if not good_pred:
                        good_pred = c_arg == ("arg", 2) and expr_mentions(r_arg, lambda y: y == ("arg", ra))
            ctx.check(over_digits and good_pred, clause + ".radix-digit-test", "every character of the digits must be a digit of the radix (char::is_digit(c, radix)) (%s)" % cfg,
                      "the all-digits test is %s over %s" % (show_expr(clos)[:60], show_expr(it)[:60]), where=rp.where(sb), fn=rp.key, nontrivial=True)
            alldig.append((sb, bool_edge(rp, sb, not neg)))
    ctx.check(bool(nonempty), clause + ".radix-empty-test", "an emptiness test on the digits exists (%s)" % cfg, "no test for an empty digit string: `0x` alone would be a number", where=rp.where(), fn=rp.key, nontrivial=True)
    ctx.check(bool(alldig), clause + ".radix-digit-test-site", "an all-digits test exists (%s)" % cfg, "no test that every character is a digit of the radix", where=rp.where(), fn=rp.key, nontrivial=True)
    for ti, tb in enumerate(targets):
        for (sb, edge) in nonempty:
            ctx.check(edge_dominates(rp, sb, edge, tb), clause + ".radix-guard-empty", "digits are valued only when there is at least one (valuation %d, %s)" % (ti, cfg), "the valuation at %s is reachable with an empty digit string (or only with one)" % rp.where(tb), where=rp.where(sb), fn=rp.key, nontrivial=True)
        for (sb, edge) in alldig:
            ctx.check(edge_dominates(rp, sb, edge, tb), clause + ".radix-guard-digits", "digits are valued only when all are digits of the radix (valuation %d, %s)" % (ti, cfg), "the valuation at %s is reachable although a character is not a digit of the radix (or only then)" % rp.where(tb), where=rp.where(sb), fn=rp.key, nontrivial=True)
    # the only other result is None
    r = strip_refs(rp.trace(0))
    cands = [strip_refs(x) for x in r[2]] if r[0] == "phi" else [r]
    nones = [c for c in cands if c[0] == "agg" and c[1].get("variant") == "None"]
    vals = [c for c in cands if c not in nones]
    is_int_parse = lambda y: y[0] == "call" and y[1] and "from_str_radix" in y[1]["path"]
    is_fold = lambda y: y[0] == "call" and y[1] and re.search(r"Iterator(>)?::fold$", y[1]["path"]) is not None
    unknown = [c for c in vals if not expr_mentions(c, is_int_parse) and not expr_mentions(c, is_fold)]
    ctx.check(len(nones) >= 1 and vals and not unknown, clause + ".radix-results", "the parser returns None, the parsed integer as a double, or the digit fold (%s)" % cfg, "results: %s" % [show_expr(c)[:60] for c in cands], where=rp.where(), fn=rp.key, nontrivial=True)
    # ---- the integer path: value as f64, failure falls through to the fold (or None)
    for c in vals:
        if not expr_mentions(c, is_int_parse):
            continue
        spine = []
        x = c
        while x[0] == "call" and x[1] and re.search(r"^std::(option::Option|result::Result)::<.*>::(or_else|ok|map|or|and_then)$", x[1]["path"]):
            spine.append((x[1]["path"].rsplit("::", 1)[1], x))
            x = strip_refs(x[2][0])
        names = [n for n, _ in spine]
        combinator_form = is_int_parse(x) and "map" in names and "ok" in names
        direct_form = False
        if c[0] == "agg" and c[1].get("variant") == "Some" and c[2]:
            v = strip_refs(c[2][0])
            direct_form = v[0] == "cast" and v[1] == "IntToFloat" and is_int_parse(strip_payload(v[2]))
        ctx.check(combinator_form or direct_form, clause + ".radix-int-path", "value = the integer parsed by from_str_radix, converted with `as f64` (%s)" % cfg,
                  "the valuation is %s" % show_expr(c)[:160], where=rp.where(), fn=rp.key, nontrivial=True)
        for n, e in spine:
            if n == "map":
                cl = strip_refs(e[2][1])
                if cl[0] == "agg" and cl[1].get("closure"):
                    rr = strip_refs(facts.body(cl[1]["closure"]).trace(0))
                    ctx.check(rr[0] == "cast" and rr[1] == "IntToFloat" and strip_refs(rr[2]) == ("arg", 2), clause + ".radix-int-cast", "the parsed integer is converted with `as f64` (%s)" % cfg, "the parsed integer becomes %s" % show_expr(rr), where=rp.where(), fn=rp.key, nontrivial=True)
    # ---- the fold: from 0, acc·radix + digit
    for (b, bi, t) in folds:
        it = strip_refs(b.xtrace(t["args"][0]))
        seed = strip_refs(b.trace(t["args"][1]))
        cl = strip_refs(b.trace(t["args"][2]))
        src_ok = it[0] == "call" and it[1]["path"] == "core::str::<impl str>::chars" and expr_mentions(it, lambda y: y in (("arg", sa), ("carg", rp.key, sa)))
        ctx.check(src_ok, clause + ".radix-fold-source", "the fold runs over the digits, front to back (%s)" % cfg, "the fold runs over %s" % show_expr(it)[:100], where=b.where(bi), fn=b.key, nontrivial=True)
        sv = None
        if seed[0] == "agg" and seed[1].get("variant") == "Some":
            s0 = strip_refs(seed[2][0])
            sv = const_value(s0[1]) if s0[0] == "const" else None
        elif seed[0] == "const":
            sv = const_value(seed[1])
        ctx.check(sv == 0.0 and sv is not None and not isinstance(sv, bool), clause + ".radix-fold-seed", "the fold starts from 0 (%s)" % cfg, "the fold starts from %s" % show_expr(seed), where=b.where(bi), fn=b.key, nontrivial=True)
        if cl[0] == "agg" and cl[1].get("closure"):
            cb = facts.body(cl[1]["closure"])
            rr = strip_refs(cb.trace(0))
            cs = [strip_refs(x) for x in rr[2]] if rr[0] == "phi" else [rr]
            steps = []
            for c in cs:
                v = strip_refs(c[2][0]) if c[0] == "agg" and c[1].get("variant") == "Some" and c[2] else (c if c[0] == "binop" else None)
                if v is not None:
                    steps.append(v)
            ok = False
            how = [show_expr(v)[:120] for v in steps]
            for v in steps:
                if v[0] == "binop" and v[1] == "Add":
                    for m_, d_ in ((strip_refs(v[2]), strip_refs(v[3])), (strip_refs(v[3]), strip_refs(v[2]))):
                        if m_[0] == "binop" and m_[1] == "Mul":
                            fs = [strip_payload(strip_cast(m_[2])), strip_payload(strip_cast(m_[3]))]
                            is_acc = lambda y: y == ("arg", 2)
                            is_rad = lambda y: expr_mentions(y, lambda z: z[0] == "field" and strip_refs(z[1]) == ("arg", 1)) or y == ("arg", ra)
                            mul_ok = (is_acc(fs[0]) and is_rad(fs[1])) or (is_acc(fs[1]) and is_rad(fs[0]))
                            dd = strip_payload(strip_cast(d_))
                            dig_ok = dd[0] == "call" and dd[1] and dd[1]["path"] == "std::char::methods::<impl char>::to_digit" and strip_refs(dd[2][0]) == ("arg", 3)
                            ok = ok or (mul_ok and dig_ok)
            ctx.check(ok and len(steps) == 1, clause + ".radix-fold-step", "each step is acc·radix + digit(c) (%s)" % cfg, "the fold step is %s" % how, where=cb.where(), fn=cb.key, nontrivial=True)


def strip_cast(e):
    e = strip_refs(e)
    while e[0] == "cast":
        e = strip_refs(e[2])
    return e


def closure_alphabet(cb):
    """Characters admitted by a closure of the form |c| c.is_ascii_digit() || "<set>".contains(c) (any order)."""
    if cb is None:
        return None
    out = set()
    ok = True
    for bi, t in cb.calls():
        p = callee_path(t) or ""
        if p == "std::char::methods::<impl char>::is_ascii_digit":
            out |= set("0123456789")
        elif p == "core::str::<impl str>::contains":
            a = strip_refs(cb.trace(t["args"][0]))
            if a[0] == "const" and isinstance(const_value(a[1]), str):
                out |= set(const_value(a[1]))
            else:
                ok = False
        elif p == "core::slice::<impl [T]>::contains":
            ok = False
        else:
            ok = False
    # plain comparisons with char constants
    for bi, si, s in cb.stmts():
        if s["k"] == "Assign" and s["rv"]["k"] == "BinaryOp" and s["rv"]["op"] == "Eq":
            for o in (s["rv"]["a"], s["rv"]["b"]):
                c = op_const(o)
                if c and "char" in c:
                    out.add(c["char"])
    for bi in cb.reachable():
        tt = cb.blocks[bi]["term"]
        if tt["k"] == "SwitchInt" and tt.get("dty") == "char":
            for v, tg in tt["arms"]:
                out.add(chr(int(v)))
    return out if ok else None


# ---------------------------------------------------------------------------------------------------------------------
# path summaries of the conversion (rules/pathsum.py), with the atoms of stateful calls keyed by call site:
# `(rest.next(), rest.next())` are two different characters although both are spelled `next(&mut rest)`
# ---------------------------------------------------------------------------------------------------------------------
from . import pathsum as _PS      # noqa: E402

STATEFUL = re.compile(r"::(next|next_back|nth|pop|pop_front|pop_back)$")


class SiteWalker(_PS.Walker):
    def classify(self, e, t):
        out = _PS.Walker.classify(self, e, t)
        sites = []

        def find(x):
            if x[0] == "call" and x[1] and STATEFUL.search(x[1].get("path") or "") and len(x) > 3:
                sites.append(x[3])
            return False
        expr_mentions(e, find)
        if not sites:
            return out
        tag = ("sites",) + tuple(sorted(set(sites)))
        res = []
        for (bb, key, val) in out:
            if key is not None:
                k2 = tuple(key) + (tag,)
                if key in self.exprs:
                    self.exprs[k2] = self.exprs[key]
                key = k2
            res.append((bb, key, val))
        return res


def conversion_paths(f, max_paths=4000):
    w = SiteWalker(f, max_paths=max_paths)
    if w.overflow or not w.paths:
        return None
    return w


def _table_rows(facts, it):
    """Rows of the constant array behind `TABLE.iter()` / `&TABLE` (expressions), or None."""
    it = strip_refs(it)
    hops = 0
    while it[0] == "call" and it[1] and re.search(r"(::iter|::into_iter|IntoIterator>::into_iter|Deref>::deref|::as_slice|::copied|::cloned)$", it[1]["path"]) and it[2] and hops < 6:
        it = strip_refs(it[2][0])
        hops += 1
    while it[0] == "cast" and str(it[1]).startswith("PointerCoercion"):
        it = strip_refs(it[2])
    arr = None
    if it[0] == "const" and it[1].get("item"):
        cb = facts.body(it[1]["item"])
        if cb is not None:
            arr = strip_refs(cb.trace(0))
    elif it[0] == "agg":
        arr = it
    while arr is not None and arr[0] == "cast" and str(arr[1]).startswith("PointerCoercion"):
        arr = strip_refs(arr[2])
    if arr is not None and arr[0] == "agg" and arr[1].get("agg") == "Array":
        return [strip_refs(r) for r in arr[2]]
    return None


def table_charset(facts, pred):
    """The set accepted by a predicate that scans a constant table: `TABLE.iter().any(|&(lo, hi)| lo <= c && c <= hi)`
    (any comparison chain over the row's fields is read, by interval evaluation of the closure's path summaries per
    row) or `TABLE.contains(&c)`.  None when the predicate is not of that kind."""
    r = strip_refs(pred.trace(0))
    if not (r[0] == "call" and r[1]):
        return None
    pth = r[1]["path"]
    if pth.endswith("::contains") and len(r[2]) == 2 and strip_refs(r[2][1]) == ("arg", 1):
        rows = _table_rows(facts, r[2][0])
        if rows is None:
            return None
        out = []
        for x in rows:
            if not (x[0] == "const" and isinstance(const_value(x[1]), str) and len(const_value(x[1])) == 1):
                return None
            out.append((ord(const_value(x[1])), ord(const_value(x[1]))))
        return iv_norm(out)
    if not (re.search(r"Iterator(>)?::any$", pth) and len(r[2]) == 2):
        return None
    rows = _table_rows(facts, r[2][0])
    clo = strip_refs(r[2][1])
    if rows is None or not (clo[0] == "agg" and clo[1].get("closure")):
        return None
    ups = [strip_refs(u) for u in clo[2]]
    cb = facts.body(clo[1]["closure"])
    if cb is None or any(True for _ in cb.calls()):
        return None
    w = _PS.summarize(cb, max_paths=500)
    if w.overflow or any(p.truncated for p in w.paths):
        return None

    def cp(x):
        v = const_value(x[1]) if x[0] == "const" else None
        if isinstance(v, str) and len(v) == 1:
            return ord(v)
        return v if isinstance(v, int) and not isinstance(v, bool) else None

    def term(x, row):
        """("c",) the character tested | ("k", code point)"""
        x = strip_refs(x)
        while x[0] == "cast":
            x = strip_refs(x[2])
        if x[0] == "const":
            return ("k", cp(x)) if cp(x) is not None else None
        if x[0] == "field" and isinstance(x[2], int):
            base = strip_refs(x[1])
            if base == ("arg", 1) and x[2] < len(ups) and ups[x[2]] == ("arg", 1):
                return ("c",)
            if base == ("arg", 2):
                if row[0] == "agg" and x[2] < len(row[2]):
                    y = strip_refs(row[2][x[2]])
                    return ("k", cp(y)) if y[0] == "const" and cp(y) is not None else None
        if x == ("arg", 2) and row[0] == "const":
            return ("k", cp(row)) if cp(row) is not None else None
        return None

    def constrain(ivs, x, truth, row):
        """ivs restricted to the characters for which the comparison x has the given truth; None = not read."""
        x = strip_refs(x)
        if x[0] == "const" and isinstance(const_value(x[1]), bool):
            return ivs if const_value(x[1]) == truth else []
        if x[0] == "unop" and x[1] == "Not":
            return constrain(ivs, x[2], not truth, row)
        if x[0] != "binop" or x[1] not in ("Le", "Lt", "Ge", "Gt", "Eq", "Ne"):
            return None
        a, b = term(x[2], row), term(x[3], row)
        op = x[1]
        if a is None or b is None:
            return None
        if a[0] == "k" and b[0] == "c":
            a, b = b, a
            op = {"Le": "Ge", "Lt": "Gt", "Ge": "Le", "Gt": "Lt", "Eq": "Eq", "Ne": "Ne"}[op]
        if not (a[0] == "c" and b[0] == "k"):
            return None
        k = b[1]
        yes = {"Le": [(0, k)], "Lt": [(0, k - 1)], "Ge": [(k, MAXC)], "Gt": [(k + 1, MAXC)], "Eq": [(k, k)], "Ne": [(0, k - 1), (k + 1, MAXC)]}[op]
        no = {"Le": [(k + 1, MAXC)], "Lt": [(k, MAXC)], "Ge": [(0, k - 1)], "Gt": [(0, k)], "Eq": [(0, k - 1), (k + 1, MAXC)], "Ne": [(k, k)]}[op]
        sel = yes if truth else no
        out = []
        for lo, hi in sel:
            out.extend(iv_and(ivs, lo, hi))
        return iv_norm(out)
    acc = []
    for row in rows:
        for p in w.paths:
            ivs = [(0, MAXC)]
            for k, v in p.order:
                ex = w.exprs.get(k)
                if ex is None or not isinstance(v, bool):
                    return None
                ivs = constrain(ivs, ex, v, row)
                if ivs is None:
                    return None
            res = strip_refs(p.result) if p.result is not None else None
            if res is None:
                return None
            ivs = constrain(ivs, res, True, row)
            if ivs is None:
                return None
            acc.extend(ivs)
    return iv_norm(acc)
