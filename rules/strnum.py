#!/usr/bin/env python3
"""R-API A3 and the ECMAScript StringToNumber structure of the shared
string→number conversion (used by C07, C09, C10).

The constants involved — the white-space set, the three Infinity spellings, the
radix prefixes, the decimal alphabet — are the behaviour the properties state,
so they are read out of the MIR as values (interval abstract interpretation of
the white-space predicate; constants of the comparison chains) and compared
with the ECMAScript tables transcribed below."""
import re
from .core import (callee_of, callee_path, strip_refs, strip_payload, show_expr, const_value, expr_mentions, op_const, edge_dominates, bool_edge, switch_edges_for_variant)
from .engine import Inconclusive
from . import panic as PN

FROM_STR = "core::num::float_parse::<impl std::str::FromStr for f64>::from_str"
PARSE = "core::str::<impl str>::parse"

# ECMA-262 WhiteSpace ∪ LineTerminator (StrWhiteSpaceChar)
ES_WS = [(0x9, 0xD), (0x20, 0x20), (0xA0, 0xA0), (0x1680, 0x1680), (0x2000, 0x200A), (0x2028, 0x2029), (0x202F, 0x202F), (0x205F, 0x205F), (0x3000, 0x3000), (0xFEFF, 0xFEFF)]
MAXC = 0x10FFFF


def iv_norm(ivs):
    ivs = sorted((a, b) for a, b in ivs if a <= b)
    out = []
    for a, b in ivs:
        if out and a <= out[-1][1] + 1:
            out[-1] = (out[-1][0], max(out[-1][1], b))
        else:
            out.append((a, b))
    return out


def iv_and(ivs, lo, hi):
    return [(max(a, lo), min(b, hi)) for a, b in ivs if max(a, lo) <= min(b, hi)]


def iv_minus_point(ivs, v):
    out = []
    for a, b in ivs:
        if a <= v <= b:
            if a <= v - 1:
                out.append((a, v - 1))
            if v + 1 <= b:
                out.append((v + 1, b))
        else:
            out.append((a, b))
    return out


def charset_of(body):
    """Accepted code points of a pure `fn(char) -> bool`, as normalised intervals;
    or ('calls', path) when the predicate delegates to another function."""
    for bi, t in body.calls():
        return ("calls", callee_path(t) or "<indirect>")
    accepted = []
    budget = [20000]

    def cp(c):
        v = const_value(c)
        if isinstance(v, str) and len(v) == 1:
            return ord(v)
        if isinstance(v, int) and not isinstance(v, bool):
            return v
        return None

    def walk(bi, ivs, ret):
        budget[0] -= 1
        if budget[0] < 0:
            raise Inconclusive("character predicate too large to read")
        if not ivs:
            return
        blk = body.blocks[bi]
        bools = {}
        for s in blk["stmts"]:
            if s["k"] != "Assign":
                continue
            rv = s["rv"]
            if s["place"]["local"] == 0 and rv["k"] == "Use" and op_const(rv["op"]) and isinstance(const_value(op_const(rv["op"])), bool):
                ret = const_value(op_const(rv["op"]))
            elif s["place"]["local"] == 0:
                ret = ("expr", s)
            if rv["k"] == "BinaryOp" and rv["op"] in ("Le", "Lt", "Ge", "Gt", "Eq", "Ne"):
                bools[s["place"]["local"]] = rv
        t = blk["term"]
        if t["k"] == "Return":
            if ret is True:
                accepted.extend(ivs)
            elif ret is not False:
                raise Inconclusive("character predicate returns a non-constant")
            return
        if t["k"] == "Goto":
            return walk(t["target"], ivs, ret)
        if t["k"] == "SwitchInt":
            d = t["discr"]
            if d["k"] in ("Copy", "Move") and not d["place"]["proj"]:
                l = d["place"]["local"]
                e = strip_refs(body.trace(d))
                if e == ("arg", 1) or (e[0] == "cast" and strip_refs(e[2]) == ("arg", 1)):
                    rest = ivs
                    for v, tg in t["arms"]:
                        v = int(v)
                        walk(tg, iv_and(ivs, v, v), ret)
                        rest = iv_minus_point(rest, v)
                    walk(t["otherwise"], rest, ret)
                    return
                rv = bools.get(l)
                if rv is None:
                    # comparison computed in an earlier block
                    for d2 in body.defs().get(l, []):
                        if d2[0] == "stmt" and d2[3]["k"] == "BinaryOp":
                            rv = d2[3]
                if rv is not None:
                    a, b = rv["a"], rv["b"]
                    ea, eb = strip_refs(body.trace(a)), strip_refs(body.trace(b))
                    isarg = lambda x: x == ("arg", 1) or (x[0] == "cast" and strip_refs(x[2]) == ("arg", 1))
                    op = rv["op"]
                    if isarg(eb) and ea[0] == "const":
                        ea, eb = eb, ea
                        op = {"Le": "Ge", "Lt": "Gt", "Ge": "Le", "Gt": "Lt", "Eq": "Eq", "Ne": "Ne"}[op]
                    if isarg(ea) and eb[0] == "const" and cp(eb[1]) is not None:
                        k = cp(eb[1])
                        yes = {"Le": (0, k), "Lt": (0, k - 1), "Ge": (k, MAXC), "Gt": (k + 1, MAXC), "Eq": (k, k)}.get(op)
                        if op == "Ne":
                            t_ivs, f_ivs = iv_minus_point(ivs, k), iv_and(ivs, k, k)
                        else:
                            t_ivs = iv_and(ivs, yes[0], yes[1])
                            f_ivs = [x for x in iv_norm(iv_and(ivs, 0, yes[0] - 1) + iv_and(ivs, yes[1] + 1, MAXC))]
                        walk(bool_edge(body, bi, True), t_ivs, ret)
                        walk(bool_edge(body, bi, False), f_ivs, ret)
                        return
            raise Inconclusive("character predicate branches on something that is not a comparison of its argument with a constant")
        raise Inconclusive("character predicate has an unexpected terminator %s" % t["k"])

    walk(0, [(0, MAXC)], None)
    return iv_norm(accepted)


def fmt_set(ivs):
    return ", ".join(("U+%04X" % a) if a == b else ("U+%04X–U+%04X" % (a, b)) for a, b in ivs)


def find_str_to_number(facts):
    """The shared conversion: the local generic fn → Option<f64> that (transitively) hosts the
    crate's f64::from_str over a whole string and is called from ≥ 3 places."""
    cands = []
    for b in facts.fns():
        it = facts.items.get(b.key, {})
        if b.kind == "fn" and it.get("output") == "std::option::Option<f64>" and len(it.get("inputs", [])) == 1 and not it["inputs"][0].endswith("serde_json::Value") and not it["inputs"][0].endswith("String"):
            if any((callee_path(t) or "") in (FROM_STR, PARSE) for bb in [b] + [x for x in facts.fns() if x.key.startswith(b.key + "::{closure#")] for _, t in bb.calls()):
                cands.append(b)
    if len(cands) != 1:
        raise Inconclusive("shared string→number conversion not identified (%d candidates)" % len(cands))
    return cands[0]


def check(ctx, facts, cfg, clause="A3"):
    """Clauses on the shared string→number conversion. Returns the function body."""
    f = find_str_to_number(facts)
    unit = [f] + [x for x in facts.fns() if x.key.startswith(f.key + "::{closure#")]
    loc = f.where()
    # ---- the parse call(s) of Rust's float grammar
    parses = [(b, bi, t) for b in unit for bi, t in b.calls() if (callee_path(t) or "") == FROM_STR or ((callee_path(t) or "") == PARSE and "f64" in (callee_of(t).get("full") or ""))]
    ctx.check(len(parses) == 1, clause + ".single-parse", "one use of Rust's float parser in the conversion (%s)" % cfg, "%d uses" % len(parses), where=loc, fn=f.key)
    gate_ok = False
    alphabet = None
    for b, bi, t in parses:
        # dominated by the true edge of Iterator::all over chars() of the same string
        for sb in b.reachable():
            tt = b.blocks[sb]["term"]
            if tt["k"] != "SwitchInt":
                continue
            e = strip_refs(b.trace(tt["discr"]))
            neg = False
            if e[0] == "unop" and e[1] == "Not":
                e = strip_refs(e[2])
                neg = True
            if e[0] == "call" and e[1] and re.search(r"Iterator(>)?::(all|any)$", e[1]["path"]):
                is_all = e[1]["path"].endswith("all")
                it = strip_refs(e[2][0])
                over_chars = expr_mentions(it, lambda x: x[0] == "call" and x[1] and x[1]["path"] in ("core::str::<impl str>::chars", "core::str::<impl str>::bytes"))
                edge = bool_edge(b, sb, (is_all and not neg) or (not is_all and neg))
                if over_chars and edge_dominates(b, sb, edge, bi) and is_all:
                    clos = strip_refs(e[2][1])
                    if clos[0] == "agg" and clos[1].get("agg") == "Closure":
                        alphabet = closure_alphabet(facts.body(clos[1]["closure"]))
                        gate_ok = True
        ctx.check(gate_ok, clause + ".alphabet-gate", "Rust's float parser only sees strings that passed a character-set test (%s)" % cfg,
                  "f64::from_str is applied to a string whose characters were not all tested against a fixed set: Rust's grammar also accepts inf / infinity / nan in any case", where=b.where(bi), fn=b.key, nontrivial=True)
    if alphabet is not None:
        want = set("0123456789+-.eE")
        ctx.check(alphabet == want, clause + ".alphabet", "the admitted alphabet is the decimal-literal characters (%s)" % cfg,
                  "characters admitted to the float parser: %s (expected digits and + - . e E)" % "".join(sorted(alphabet - want)) if alphabet else "?", where=loc, fn=f.key, nontrivial=True, sample={"alphabet": "".join(sorted(alphabet))})
    # ---- trimming with the ES white-space set
    trims = [(bi, t) for bi, t in f.calls() if (callee_path(t) or "").startswith("core::str::<impl str>::trim")]
    ctx.check(len(trims) == 1, clause + ".trim", "surrounding white space is trimmed once (%s)" % cfg, "%d trim calls" % len(trims), where=loc, fn=f.key)
    for bi, t in trims:
        p = callee_path(t)
        if p == "core::str::<impl str>::trim_matches" and len(t["args"]) == 2:
            c = op_const(t["args"][1])
            pred = None
            if c and "fn" in c:
                r = c["fn"].get("resolved") or c["fn"]
                pred = facts.body(r["key"]) if r["local"] else None
                if pred is None:
                    ctx.fail(clause + ".whitespace-set", "predicate %s" % r["path"], "white space is defined by %s, not by the ECMAScript StrWhiteSpaceChar set" % r["path"], where=f.where(bi), fn=f.key)
            else:
                e = strip_refs(f.trace(t["args"][1]))
                if e[0] == "agg" and e[1].get("agg") == "Closure":
                    pred = facts.body(e[1]["closure"])
            if pred is not None:
                cs = charset_of(pred)
                if isinstance(cs, tuple) and cs and cs[0] == "calls":
                    ctx.fail(clause + ".whitespace-set", "delegates to %s" % cs[1], "the white-space predicate delegates to %s — not the ECMAScript StrWhiteSpaceChar set (e.g. char::is_whitespace also accepts U+0085 and rejects U+FEFF)" % cs[1], where=pred.where(), fn=pred.key)
                else:
                    want = iv_norm(ES_WS)
                    ctx.check(cs == want, clause + ".whitespace-set", "trimmed characters = ECMAScript WhiteSpace ∪ LineTerminator (%s)" % cfg,
                              "the white-space predicate accepts {%s}; ECMAScript's set is {%s}" % (fmt_set(cs), fmt_set(want)), where=pred.where(), fn=pred.key, nontrivial=True,
                              sample={"accepted": fmt_set(cs)})
        else:
            ctx.fail(clause + ".whitespace-set", "uses %s" % p.rsplit("::", 1)[1], "white space is trimmed with %s (Unicode White_Space), not the ECMAScript StrWhiteSpaceChar set" % p, where=f.where(bi), fn=f.key)
    # ---- the empty string is 0
    zero = False
    for sb in f.reachable():
        tt = f.blocks[sb]["term"]
        if tt["k"] == "SwitchInt":
            e = strip_refs(f.trace(tt["discr"]))
            if e[0] == "call" and e[1] and re.search(r"PartialEq.*::eq$|::is_empty$", e[1]["path"]):
                args = [strip_refs(a) for a in e[2]]
                if e[1]["path"].endswith("is_empty") or any(a[0] == "const" and const_value(a[1]) == "" for a in args):
                    tg = bool_edge(f, sb, True)
                    region = f.reachable(tg) - f.reachable(bool_edge(f, sb, False))
                    with f.restricted(region | {tg}):
                        r = strip_refs(f.trace(0))
                    if r[0] == "agg" and r[1].get("variant") == "Some" and strip_refs(r[2][0])[0] == "const" and const_value(strip_refs(r[2][0])[1]) == 0.0:
                        zero = True
    ctx.check(zero, clause + ".empty-is-zero", "the empty (or all-white-space) string converts to 0 (%s)" % cfg, "no `== \"\"` edge returning Some(0.0)", where=loc, fn=f.key, nontrivial=True)
    # ---- Infinity spellings
    inf = {}
    for sb in f.reachable():
        tt = f.blocks[sb]["term"]
        if tt["k"] == "SwitchInt":
            e = strip_refs(f.trace(tt["discr"]))
            if e[0] == "call" and e[1] and re.search(r"PartialEq.*::eq$", e[1]["path"]):
                for a in e[2]:
                    a = strip_refs(a)
                    if a[0] == "const" and isinstance(const_value(a[1]), str) and const_value(a[1]) != "":
                        tg = bool_edge(f, sb, True)
                        # follow to the assignment of _0
                        region = f.reachable(tg)
                        val = None
                        cur = tg
                        for _ in range(6):
                            for s in f.blocks[cur]["stmts"]:
                                if s["k"] == "Assign" and s["place"]["local"] == 0 and s["rv"]["k"] == "Aggregate" and s["rv"].get("variant") == "Some":
                                    c = op_const(s["rv"]["ops"][0])
                                    val = const_value(c) if c else None
                            if val is not None:
                                break
                            nx = f.succs(cur)
                            if len(nx) != 1:
                                break
                            cur = nx[0]
                        inf[const_value(a[1])] = val
    want_inf = {"Infinity": float("inf"), "+Infinity": float("inf"), "-Infinity": float("-inf")}
    ctx.check(inf == want_inf, clause + ".infinity", "only the spellings Infinity / +Infinity / -Infinity denote infinities (%s)" % cfg,
              "string constants mapped to numbers: %s" % inf, where=loc, fn=f.key, nontrivial=True, sample={"spellings": {k: str(v) for k, v in inf.items()}})
    # ---- radix prefixes
    rad = [(bi, t) for bi, t in f.calls() if callee_of(t) and callee_of(t)["local"] and len(t["args"]) == 2 and f.local_ty(t["args"][1]["place"]["local"]) == "u32"] if True else []
    ctx.check(len(rad) == 1, clause + ".radix-call", "prefixed integer literals are handed to one radix parser (%s)" % cfg, "%d candidates" % len(rad), where=loc, fn=f.key)
    for bi, t in rad:
        vs = PN.value_set(facts, f, f.trace(t["args"][1]))
        if vs is None:
            ctx.unread(clause + ".radix-values", "radix (%s)" % cfg, "the radix handed to the digit parser is not a set of constants the rule can read", where=f.where(bi), fn=f.key)
        else:
            ctx.check(vs == {16, 8, 2}, clause + ".radix-values", "radix ∈ {16, 8, 2} (%s)" % cfg, "radix values: %s" % (sorted(vs) if vs else vs), where=f.where(bi), fn=f.key, nontrivial=True)
        # prefix characters: the char switches that precede it
        chars = {}
        for sb in f.reachable():
            tt = f.blocks[sb]["term"]
            if tt["k"] == "SwitchInt" and tt.get("dty") == "char":
                for v, tg in tt["arms"]:
                    rv = None
                    for s in f.blocks[tg]["stmts"]:
                        if s["k"] == "Assign" and s["rv"]["k"] == "Aggregate" and s["rv"].get("variant") == "Some":
                            c = op_const(s["rv"]["ops"][0])
                            rv = const_value(c) if c else None
                    chars[chr(int(v))] = rv
        want = {"0": None, "x": 16, "X": 16, "o": 8, "O": 8, "b": 2, "B": 2}
        radix_parser(ctx, facts, facts.body(callee_of(t)["key"]), clause, cfg)
        if not chars:
            # prefixes not spelled as character matches: a constant table of (prefix, radix) rows?
            rows = None
            for bi2, t2 in f.calls():
                if (callee_path(t2) or "").endswith("::strip_prefix") or (callee_path(t2) or "").endswith("::starts_with"):
                    pe = strip_refs(f.trace(t2["args"][1]))
                    if pe[0] == "field" and isinstance(pe[2], int):
                        rows = (PN._const_table_rows(facts, f, pe[1]), pe[2])
            if rows and rows[0] is not None:
                tab = {}
                for r_ in rows[0]:
                    r_ = strip_refs(r_)
                    if r_[0] == "agg" and len(r_[2]) == 2:
                        a_, b_ = strip_refs(r_[2][0]), strip_refs(r_[2][1])
                        if a_[0] == "const" and b_[0] == "const":
                            tab[const_value(a_[1])] = const_value(b_[1])
                want_tab = {"0x": 16, "0X": 16, "0o": 8, "0O": 8, "0b": 2, "0B": 2}
                ctx.check(tab == want_tab, clause + ".radix-prefixes", "0x/0X → 16, 0o/0O → 8, 0b/0B → 2 (%s)" % cfg, "prefix table: %s" % tab, where=f.where(bi), fn=f.key, nontrivial=True, sample={"prefixes": tab})
            else:
                ctx.unread(clause + ".radix-prefixes", "prefixes (%s)" % cfg, "the radix prefixes are not spelled as character matches or a constant table", where=f.where(bi), fn=f.key)
        else:
          ctx.check(chars == want, clause + ".radix-prefixes", "0x/0X → 16, 0o/0O → 8, 0b/0B → 2 (%s)" % cfg, "prefix characters: %s" % chars, where=f.where(bi), fn=f.key, nontrivial=True, sample={"prefixes": {k: v for k, v in chars.items()}})
    return f


def radix_parser(ctx, facts, rp, clause, cfg):
    """The value of the digits of a prefixed integer literal (ES NonDecimalIntegerLiteral): NaN (None)
    for no digits or a character that is not a digit of the radix; otherwise Σ digit·radix^k —
    through the integer parser of the standard library and/or a fold acc·radix + digit from 0."""
    if rp is None:
        raise Inconclusive("radix parser body not available")
    if PN.loops_of(rp) and not any(re.search(r"Iterator(>)?::(all|fold)$", callee_path(t) or "") for b_ in [rp] + [b for b in facts.fns() if b.key.startswith(rp.key + "::{closure#")] for _, t in b_.calls()):
        ctx.unread(clause + ".radix-results", "digit parser (%s)" % cfg, "the digit parser is written with explicit loops: its guards and its valuation are not read (the ban on other digit tests and the radix set still apply)", where=rp.where(), fn=rp.key)
        return
    ints = [(bi, t) for bi, t in rp.calls() if re.search(r"^core::num::<impl [ui](64|128|size)>::from_str_radix$", callee_path(t) or "")]
    units = [rp] + [b for b in facts.fns() if b.key.startswith(rp.key + "::{closure#")]
    folds = [(b, bi, t) for b in units for bi, t in b.calls() if re.search(r"Iterator(>)?::fold$", callee_path(t) or "")]
    if not ints and not folds:
        raise Inconclusive("radix parser: neither an integer parse nor a digit fold found in %s" % rp.key)
    # ---- what is valued: the digits parameter itself, in the radix parameter
    str_arg = [i + 1 for i, x in enumerate(facts.items[rp.key].get("inputs", [])) if x == "&str"]
    rad_arg = [i + 1 for i, x in enumerate(facts.items[rp.key].get("inputs", [])) if x == "u32"]
    if len(str_arg) != 1 or len(rad_arg) != 1:
        raise Inconclusive("radix parser signature (&str, u32) not recognised")
    sa, ra = str_arg[0], rad_arg[0]
    for bi, t in ints:
        a0, a1 = strip_refs(rp.trace(t["args"][0])), strip_refs(rp.trace(t["args"][1]))
        ctx.check(a0 == ("arg", sa) and a1 == ("arg", ra), clause + ".radix-parse-args", "the integer parser is given the digits and the radix themselves (%s)" % cfg, "from_str_radix(%s, %s)" % (show_expr(a0), show_expr(a1)), where=rp.where(bi), fn=rp.key, nontrivial=True)
    # ---- guards: non-empty and all digits of the radix, on every path to the valuation
    targets = [bi for bi, _ in ints] or [bi for b, bi, _ in folds if b is rp]
    created = []
    for bi, si, st in rp.stmts():
        if st["k"] == "Assign" and st["rv"]["k"] == "Aggregate" and st["rv"].get("agg") == "Closure":
            created.append(bi)
    targets = targets or created
    nonempty, alldig = [], []
    for sb in sorted(rp.reachable()):
        tt = rp.blocks[sb]["term"]
        if tt["k"] != "SwitchInt" or tt.get("dty") != "bool":
            continue
        e = strip_refs(rp.trace(tt["discr"]))
        neg = False
        while e[0] == "unop" and e[1] == "Not":
            neg = not neg
            e = strip_refs(e[2])
        if e[0] != "call" or not e[1]:
            continue
        pth = e[1]["path"]
        if re.search(r"PartialEq.*::(eq|ne)$", pth):
            x, y = strip_refs(e[2][0]), strip_refs(e[2][1])
            for p_, q_ in ((x, y), (y, x)):
                if q_[0] == "const" and const_value(q_[1]) == "" and p_ == ("arg", sa):
                    is_empty_truth = pth.endswith("::eq") != neg
                    nonempty.append((sb, bool_edge(rp, sb, not is_empty_truth)))
        elif pth.endswith("::is_empty") and strip_refs(e[2][0]) == ("arg", sa):
            nonempty.append((sb, bool_edge(rp, sb, neg)))
        elif re.search(r"Iterator(>)?::all$", pth):
            it = strip_refs(e[2][0])
            clos = strip_refs(e[2][1])
            over_digits = it[0] == "call" and it[1]["path"] == "core::str::<impl str>::chars" and strip_refs(it[2][0]) == ("arg", sa)
            good_pred = False
            if clos[0] == "agg" and clos[1].get("closure"):
                cb = facts.body(clos[1]["closure"])
                r = strip_refs(cb.trace(0))
                if r[0] == "call" and r[1] and r[1]["path"] == "std::char::methods::<impl char>::is_digit":
                    c_arg = strip_refs(r[2][0])
                    r_arg = strip_refs(cb.xtrace(cb.blocks[r[3]]["term"]["args"][1]))
                    good_pred = c_arg == ("arg", 2) and r_arg in (("carg", rp.key, ra), ("arg", ra))
                    if not good_pred:
                        good_pred = c_arg == ("arg", 2) and expr_mentions(r_arg, lambda y: y == ("arg", ra))
            ctx.check(over_digits and good_pred, clause + ".radix-digit-test", "every character of the digits must be a digit of the radix (char::is_digit(c, radix)) (%s)" % cfg,
                      "the all-digits test is %s over %s" % (show_expr(clos)[:60], show_expr(it)[:60]), where=rp.where(sb), fn=rp.key, nontrivial=True)
            alldig.append((sb, bool_edge(rp, sb, not neg)))
    ctx.check(bool(nonempty), clause + ".radix-empty-test", "an emptiness test on the digits exists (%s)" % cfg, "no test for an empty digit string: `0x` alone would be a number", where=rp.where(), fn=rp.key, nontrivial=True)
    ctx.check(bool(alldig), clause + ".radix-digit-test-site", "an all-digits test exists (%s)" % cfg, "no test that every character is a digit of the radix", where=rp.where(), fn=rp.key, nontrivial=True)
    for ti, tb in enumerate(targets):
        for (sb, edge) in nonempty:
            ctx.check(edge_dominates(rp, sb, edge, tb), clause + ".radix-guard-empty", "digits are valued only when there is at least one (valuation %d, %s)" % (ti, cfg), "the valuation at %s is reachable with an empty digit string (or only with one)" % rp.where(tb), where=rp.where(sb), fn=rp.key, nontrivial=True)
        for (sb, edge) in alldig:
            ctx.check(edge_dominates(rp, sb, edge, tb), clause + ".radix-guard-digits", "digits are valued only when all are digits of the radix (valuation %d, %s)" % (ti, cfg), "the valuation at %s is reachable although a character is not a digit of the radix (or only then)" % rp.where(tb), where=rp.where(sb), fn=rp.key, nontrivial=True)
    # the only other result is None
    r = strip_refs(rp.trace(0))
    cands = [strip_refs(x) for x in r[2]] if r[0] == "phi" else [r]
    nones = [c for c in cands if c[0] == "agg" and c[1].get("variant") == "None"]
    vals = [c for c in cands if c not in nones]
    is_int_parse = lambda y: y[0] == "call" and y[1] and "from_str_radix" in y[1]["path"]
    is_fold = lambda y: y[0] == "call" and y[1] and re.search(r"Iterator(>)?::fold$", y[1]["path"]) is not None
    unknown = [c for c in vals if not expr_mentions(c, is_int_parse) and not expr_mentions(c, is_fold)]
    ctx.check(len(nones) >= 1 and vals and not unknown, clause + ".radix-results", "the parser returns None, the parsed integer as a double, or the digit fold (%s)" % cfg, "results: %s" % [show_expr(c)[:60] for c in cands], where=rp.where(), fn=rp.key, nontrivial=True)
    # ---- the integer path: value as f64, failure falls through to the fold (or None)
    for c in vals:
        if not expr_mentions(c, is_int_parse):
            continue
        spine = []
        x = c
        while x[0] == "call" and x[1] and re.search(r"^std::(option::Option|result::Result)::<.*>::(or_else|ok|map|or|and_then)$", x[1]["path"]):
            spine.append((x[1]["path"].rsplit("::", 1)[1], x))
            x = strip_refs(x[2][0])
        names = [n for n, _ in spine]
        combinator_form = is_int_parse(x) and "map" in names and "ok" in names
        direct_form = False
        if c[0] == "agg" and c[1].get("variant") == "Some" and c[2]:
            v = strip_refs(c[2][0])
            direct_form = v[0] == "cast" and v[1] == "IntToFloat" and is_int_parse(strip_payload(v[2]))
        ctx.check(combinator_form or direct_form, clause + ".radix-int-path", "value = the integer parsed by from_str_radix, converted with `as f64` (%s)" % cfg,
                  "the valuation is %s" % show_expr(c)[:160], where=rp.where(), fn=rp.key, nontrivial=True)
        for n, e in spine:
            if n == "map":
                cl = strip_refs(e[2][1])
                if cl[0] == "agg" and cl[1].get("closure"):
                    rr = strip_refs(facts.body(cl[1]["closure"]).trace(0))
                    ctx.check(rr[0] == "cast" and rr[1] == "IntToFloat" and strip_refs(rr[2]) == ("arg", 2), clause + ".radix-int-cast", "the parsed integer is converted with `as f64` (%s)" % cfg, "the parsed integer becomes %s" % show_expr(rr), where=rp.where(), fn=rp.key, nontrivial=True)
    # ---- the fold: from 0, acc·radix + digit
    for (b, bi, t) in folds:
        it = strip_refs(b.xtrace(t["args"][0]))
        seed = strip_refs(b.trace(t["args"][1]))
        cl = strip_refs(b.trace(t["args"][2]))
        src_ok = it[0] == "call" and it[1]["path"] == "core::str::<impl str>::chars" and expr_mentions(it, lambda y: y in (("arg", sa), ("carg", rp.key, sa)))
        ctx.check(src_ok, clause + ".radix-fold-source", "the fold runs over the digits, front to back (%s)" % cfg, "the fold runs over %s" % show_expr(it)[:100], where=b.where(bi), fn=b.key, nontrivial=True)
        sv = None
        if seed[0] == "agg" and seed[1].get("variant") == "Some":
            s0 = strip_refs(seed[2][0])
            sv = const_value(s0[1]) if s0[0] == "const" else None
        elif seed[0] == "const":
            sv = const_value(seed[1])
        ctx.check(sv == 0.0 and sv is not None and not isinstance(sv, bool), clause + ".radix-fold-seed", "the fold starts from 0 (%s)" % cfg, "the fold starts from %s" % show_expr(seed), where=b.where(bi), fn=b.key, nontrivial=True)
        if cl[0] == "agg" and cl[1].get("closure"):
            cb = facts.body(cl[1]["closure"])
            rr = strip_refs(cb.trace(0))
            cs = [strip_refs(x) for x in rr[2]] if rr[0] == "phi" else [rr]
            steps = []
            for c in cs:
                v = strip_refs(c[2][0]) if c[0] == "agg" and c[1].get("variant") == "Some" and c[2] else (c if c[0] == "binop" else None)
                if v is not None:
                    steps.append(v)
            ok = False
            how = [show_expr(v)[:120] for v in steps]
            for v in steps:
                if v[0] == "binop" and v[1] == "Add":
                    for m_, d_ in ((strip_refs(v[2]), strip_refs(v[3])), (strip_refs(v[3]), strip_refs(v[2]))):
                        if m_[0] == "binop" and m_[1] == "Mul":
                            fs = [strip_payload(strip_cast(m_[2])), strip_payload(strip_cast(m_[3]))]
                            is_acc = lambda y: y == ("arg", 2)
                            is_rad = lambda y: expr_mentions(y, lambda z: z[0] == "field" and strip_refs(z[1]) == ("arg", 1)) or y == ("arg", ra)
                            mul_ok = (is_acc(fs[0]) and is_rad(fs[1])) or (is_acc(fs[1]) and is_rad(fs[0]))
                            dd = strip_payload(strip_cast(d_))
                            dig_ok = dd[0] == "call" and dd[1] and dd[1]["path"] == "std::char::methods::<impl char>::to_digit" and strip_refs(dd[2][0]) == ("arg", 3)
                            ok = ok or (mul_ok and dig_ok)
            ctx.check(ok and len(steps) == 1, clause + ".radix-fold-step", "each step is acc·radix + digit(c) (%s)" % cfg, "the fold step is %s" % how, where=cb.where(), fn=cb.key, nontrivial=True)


def strip_cast(e):
    e = strip_refs(e)
    while e[0] == "cast":
        e = strip_refs(e[2])
    return e


def closure_alphabet(cb):
    """Characters admitted by a closure of the form |c| c.is_ascii_digit() || "<set>".contains(c) (any order)."""
    if cb is None:
        return None
    out = set()
    ok = True
    for bi, t in cb.calls():
        p = callee_path(t) or ""
        if p == "std::char::methods::<impl char>::is_ascii_digit":
            out |= set("0123456789")
        elif p == "core::str::<impl str>::contains":
            a = strip_refs(cb.trace(t["args"][0]))
            if a[0] == "const" and isinstance(const_value(a[1]), str):
                out |= set(const_value(a[1]))
            else:
                ok = False
        elif p == "core::slice::<impl [T]>::contains":
            ok = False
        else:
            ok = False
    # plain comparisons with char constants
    for bi, si, s in cb.stmts():
        if s["k"] == "Assign" and s["rv"]["k"] == "BinaryOp" and s["rv"]["op"] == "Eq":
            for o in (s["rv"]["a"], s["rv"]["b"]):
                c = op_const(o)
                if c and "char" in c:
                    out.add(c["char"])
    for bi in cb.reachable():
        tt = cb.blocks[bi]["term"]
        if tt["k"] == "SwitchInt" and tt.get("dty") == "char":
            for v, tg in tt["arms"]:
                out.add(chr(int(v)))
    return out if ok else None
