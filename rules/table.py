#!/usr/bin/env python3
"""R-TABLE: read the three phf operator tables out of the promoted MIR of the
constants of type phf::Map<&str, T>; resolve table roles (eager / lazy / data)
from how the tables are used, not from their names."""
import re
from .core import op_const, const_value, callee_path, callee_of
from .engine import Inconclusive

INF = float("inf")


class Entry:
    def __init__(self):
        self.key = None
        self.symbol = None
        self.fn_key = None      # body key of the bound function or closure
        self.fn_path = None
        self.is_closure = False
        self.num = None         # ('Exactly', 2) ('Variadic', 2, 4) ('Any',) ...
        self.table = None
        self.extra = []         # (field name, [body keys of functions / closures bound in it]) for fields beyond the four known ones

    def accepted(self):
        """Set of accepted operand counts as (lo, hi) inclusive interval over N (hi may be INF), or None if empty."""
        return accepted(self.num)


def accepted(num):
    k = num[0]
    if k == "None":
        return (0, 0)
    if k == "Any":
        return (0, INF)
    if k == "Unary":
        return (1, 1)
    if k == "Exactly":
        return (num[1], num[1])
    if k == "AtLeast":
        return (num[1], INF)
    if k == "Variadic":
        lo, hi = num[1], num[2] - 1
        return (lo, hi) if lo <= hi else None
    raise Inconclusive("unknown arity descriptor %r" % (num,))


class Table:
    def __init__(self, const_key, value_ty):
        self.const_key = const_key
        self.value_ty = value_ty
        self.entries = []
        self.role = None  # 'eager' | 'lazy' | 'data'
        self.fn_ty = None
        self.operation_impl = None  # (from_value body key, evaluate body key)
        self.other_users = []


def _local_assigns(body):
    """local -> rvalue for the straight-line single-block promoted bodies."""
    d = {}
    for bi, si, s in body.stmts():
        if s["k"] == "Assign" and not s["place"]["proj"]:
            d[s["place"]["local"]] = s["rv"]
    return d


def _renumber(x, off):
    """Deep copy of a callee's rvalue with its locals moved to the fresh range starting at `off`."""
    if isinstance(x, dict):
        out = {}
        for k, v in x.items():
            if k == "place" and isinstance(v, dict) and "local" in v:
                out[k] = {"local": v["local"] + off, "proj": list(v.get("proj") or [])}
            else:
                out[k] = _renumber(v, off)
        return out
    if isinstance(x, list):
        return [_renumber(v, off) for v in x]
    return x


def _inline_const_calls(body, facts, d):
    """A table written with a builder (`Operator::new("-", f).taking(NumParams::Exactly(2))`): the promoted constant calls
    the crate's own `const fn`s.  A call of a local, straight-line function is read as its body with the parameters bound
    to the arguments (the callee's assignments are added under fresh local numbers), so the entry is again an aggregate."""
    nxt = len(body.locals) + 1000
    for bi in range(len(body.blocks)):
        t = body.blocks[bi]["term"]
        if t["k"] != "Call" or not t.get("dest"):
            continue
        c = callee_of(t)
        if not c or not c.get("local"):
            continue
        cb = facts.body(c["key"])
        if cb is None or any(b_["term"]["k"] not in ("Return", "Goto", "Drop", "StorageDead") for b_ in cb.blocks):
            continue
        off = nxt
        nxt += len(cb.locals) + 8
        for i, a in enumerate(t["args"]):
            d[off + 1 + i] = {"k": "Use", "op": a}
        for _, _, st in cb.stmts():
            if st["k"] == "Assign" and not st["place"]["proj"]:
                d[off + st["place"]["local"]] = _renumber(st["rv"], off)
        d[t["dest"]["local"]] = {"k": "Use", "op": {"k": "Move", "place": {"local": off, "proj": []}}}
    return d


def _resolve_operand(d, o):
    """Follow Use/Move chains to the defining rvalue or constant."""
    for _ in range(80):
        if o["k"] == "Const":
            return ("const", o["const"])
        l = o["place"]["local"]
        if o["place"]["proj"]:
            # &(*_x) of a str constant etc.
            rv = d.get(l)
            if rv is None:
                return ("?", o)
            pr = o["place"]["proj"]
            first = pr[0] if isinstance(pr[0], dict) else {}
            if first.get("k") == "Field" and rv["k"] == "Use" and rv["op"]["k"] != "Const":
                # a field of a value that is a copy of another place: the same field of that place
                o = {"k": "Copy", "place": {"local": rv["op"]["place"]["local"], "proj": list(rv["op"]["place"].get("proj") or []) + list(pr)}}
                continue
            if first.get("k") == "Field" and rv["k"] == "Aggregate" and isinstance(first.get("i"), int) and first["i"] < len(rv.get("ops", [])):
                fo = rv["ops"][first["i"]]
                if fo["k"] == "Const":
                    o = fo
                else:
                    o = {"k": fo["k"], "place": {"local": fo["place"]["local"], "proj": list(fo["place"].get("proj") or []) + list(pr[1:])}}
                continue
            if rv["k"] == "Use":
                o = rv["op"]
                continue
            return ("rv", rv)
        rv = d.get(l)
        if rv is None:
            return ("?", o)
        if rv["k"] == "Use":
            o = rv["op"]
            continue
        if rv["k"] == "Ref":
            # &(*_n) where _n = const "str"
            o = {"k": "Copy", "place": {"local": rv["place"]["local"], "proj": []}}
            continue
        return ("rv", rv)
    return ("?", o)


def _bound_fns(d, o, depth=0):
    """Body keys of the fn items / closures mentioned anywhere in the constant expression o (Some(f as fn(..)), tuples, …)."""
    if depth > 8:
        return []
    k, v = _resolve_operand(d, o)
    if k == "const":
        if isinstance(v, dict) and "fn" in v:
            fr = v["fn"].get("resolved") or v["fn"]
            return [fr["key"]]
        return []
    if k != "rv":
        return []
    out = []
    if v["k"] == "Cast":
        out += _bound_fns(d, v["op"], depth + 1)
    elif v["k"] == "Aggregate":
        if v.get("agg") == "Closure" and v.get("closure"):
            out.append(v["closure"])
        for oo in v.get("ops", []):
            out += _bound_fns(d, oo, depth + 1)
    return out


def _num_params(d, o):
    k, v = _resolve_operand(d, o)
    if k != "rv" or v["k"] != "Aggregate" or v.get("agg") != "Adt":
        raise Inconclusive("arity descriptor is not a plain enum aggregate: %r" % (v,))
    variant = v["variant"]
    if variant in ("None", "Any", "Unary"):
        return (variant,)
    if variant in ("Exactly", "AtLeast"):
        kk, c = _resolve_operand(d, v["ops"][0])
        n = const_value(c) if kk == "const" else None
        if not isinstance(n, int):
            raise Inconclusive("arity payload is not a constant integer")
        return (variant, n)
    if variant == "Variadic" and len(v["ops"]) == 2:
        # Variadic(lo, hi) with two plain bounds: the same half-open interval as Variadic(lo..hi)
        vals = []
        for oo in v["ops"]:
            k2, c = _resolve_operand(d, oo)
            n = const_value(c) if k2 == "const" else None
            if not isinstance(n, int):
                raise Inconclusive("Variadic bound is not a constant integer")
            vals.append(n)
        return ("Variadic", vals[0], vals[1])
    if variant == "Variadic":
        kk, r = _resolve_operand(d, v["ops"][0])
        if kk != "rv" or r["k"] != "Aggregate" or "Range" not in r.get("adt", ""):
            raise Inconclusive("Variadic payload is not a Range aggregate")
        vals = []
        for oo in r["ops"]:
            k2, c = _resolve_operand(d, oo)
            n = const_value(c) if k2 == "const" else None
            if not isinstance(n, int):
                raise Inconclusive("Range bound is not a constant integer")
            vals.append(n)
        if r["adt"].endswith("RangeInclusive"):
            return ("Variadic", vals[0], vals[1] + 1)
        return ("Variadic", vals[0], vals[1])
    raise Inconclusive("unknown arity variant %s" % variant)


def read_tables(facts):
    tables = []
    for key, it in facts.items.items():
        m = re.match(r"^phf::Map<&(?:'static )?str, (.*)>$", it.get("ty", "")) if it["kind"] == "const" else None
        if m:
            vt = m.group(1)
            t = Table(key, vt)
            body = facts.body(key)
            if body is None:
                raise Inconclusive("table constant %s has no MIR" % key)
            # find the promoted holding the entries array: [(&str, T); N]
            ent_body = None
            for b in facts.bodies.values():
                if b.parent == key and b.kind == "promoted" and b.locals[0]["ty"].startswith("&[(&str, %s);" % vt):
                    ent_body = b
            if ent_body is None:
                raise Inconclusive("entries array of table %s not found as a promoted constant" % key)
            d = _inline_const_calls(ent_body, facts, _local_assigns(ent_body))
            arr = None
            for l, rv in d.items():
                if rv["k"] == "Aggregate" and rv.get("agg") == "Array":
                    arr = rv
            if arr is None:
                raise Inconclusive("entries array aggregate of %s not found" % key)
            for eo in arr["ops"]:
                kk, tup = _resolve_operand(d, eo)
                if kk != "rv" or tup.get("agg") != "Tuple" or len(tup["ops"]) != 2:
                    raise Inconclusive("table entry is not a (key, value) tuple in %s" % key)
                e = Entry()
                e.table = t
                k1, c = _resolve_operand(d, tup["ops"][0])
                e.key = const_value(c) if k1 == "const" else None
                k2, st = _resolve_operand(d, tup["ops"][1])
                if k2 != "rv" or st.get("agg") != "Adt":
                    raise Inconclusive("table value is not a struct aggregate in %s" % key)
                fields = facts.adts.get(st["adt"], {}).get("variants", [{}])[0].get("fields", [])
                if len(fields) != len(st["ops"]):
                    raise Inconclusive("cannot map fields of %s" % st["adt"])
                for fname, fo in zip(fields, st["ops"]):
                    k3, v = _resolve_operand(d, fo)
                    if k3 == "const" and isinstance(const_value(v), str) and e.symbol is None:
                        e.symbol = const_value(v)
                    elif k3 == "rv" and v["k"] == "Cast" and e.fn_key is None:
                        t.fn_ty = v["to"]
                        src = v["op"]
                        k4, f = _resolve_operand(d, src)
                        if k4 == "const" and "fn" in f:
                            fr = f["fn"].get("resolved") or f["fn"]
                            e.fn_key, e.fn_path = fr["key"], fr["path"]
                        elif k4 == "rv" and f["k"] == "Aggregate" and f.get("agg") == "Closure":
                            e.fn_key, e.fn_path, e.is_closure = f["closure"], f["closure"], True
                        else:
                            raise Inconclusive("operator of %r is neither a fn item nor a closure" % e.key)
                    elif k3 == "rv" and v["k"] == "Aggregate" and v.get("adt", "").endswith("NumParams"):
                        e.num = _num_params(d, fo)
                    elif k3 == "const" and "fn" in v and e.fn_key is None:
                        fr = v["fn"].get("resolved") or v["fn"]
                        e.fn_key, e.fn_path = fr["key"], fr["path"]
                    else:
                        # a field beyond (symbol, operator, arity): recorded with the functions bound in it — a second
                        # function per entry is part of the program (call graph, C03 K6) but is not "the operator"
                        e.extra.append((fname if isinstance(fname, str) else str(fname), _bound_fns(d, fo)))
                if e.key is None or e.symbol is None or e.fn_key is None or e.num is None:
                    raise Inconclusive("incomplete table entry %r in %s" % (e.key, key))
                t.entries.append(e)
            tables.append(t)
    if len(tables) != 3:
        raise Inconclusive("expected three phf operator tables, found %d" % len(tables))
    _assign_roles(facts, tables)
    return tables


def _assign_roles(facts, tables):
    """eager: operator fn takes one argument; of the two-argument tables the
    lazy one is the table whose Operation::evaluate does not evaluate the
    stored arguments (no call to the parsed-value evaluator)."""
    # which from_value references which table (through a promoted `item(TABLE)`)
    for t in tables:
        users = []
        for b in facts.bodies.values():
            if b.kind != "promoted":
                continue
            for _, _, s in b.stmts():
                if s["k"] == "Assign" and s["rv"]["k"] == "Use":
                    c = op_const(s["rv"]["op"])
                    if c and c.get("item") == t.const_key:
                        users.append(b.parent)
        users = sorted(set(users))
        # the parser is the user that hands the table to the dispatcher; other users are recorded for C02
        parsers_ = []
        for u in users:
            ub = facts.body(u)
            if ub is not None and any((callee_path(tm) or "").endswith("op_from_map") or (callee_of(tm) and callee_of(tm)["local"] and any((callee_path(t2) or "") == "phf::Map::<K, V>::get" for _, t2 in facts.body(callee_of(tm)["key"]).calls())) for _, tm in ub.calls()):
                parsers_.append(u)
        if len(parsers_) != 1:
            raise Inconclusive("table %s is handed to the dispatcher from %d functions (expected exactly one parser)" % (t.const_key, len(parsers_)))
        t.other_users = [u for u in users if u != parsers_[0]]
        users = parsers_
        fv = users[0]
        impl = fv.rsplit("::", 1)[0]
        evs = [b.key for b in facts.bodies.values() if b.kind == "fn" and b.key.startswith(impl + "::") and b.key != fv and b.key.count("::") == fv.count("::")]
        if len(evs) != 1:
            raise Inconclusive("cannot find the evaluate sibling of %s" % fv)
        t.operation_impl = (fv, evs[0])
    two = []
    for t in tables:
        nargs = t.fn_ty.split(") ->")[0].count("&'") if t.fn_ty else 0
        # count parameters of the fn pointer type: fn(&'a Value, &'b Vec<&'c Value>)
        params = _fnptr_params(t.fn_ty)
        if params == 1:
            t.role = "eager"
        elif params == 2:
            two.append(t)
        else:
            raise Inconclusive("operator fn pointer type with %d parameters" % params)
    for t in two:
        ev = facts.body(t.operation_impl[1])
        reach = facts.reach([ev.key])
        calls_eval = False
        for k in reach:
            b = facts.body(k)
            if b is None:
                continue
            for _, term in b.calls():
                p = callee_path(term)
                if p and p.endswith("::evaluate") and "Parsed" in p:
                    calls_eval = True
        t.role = "data" if calls_eval else "lazy"
    roles = sorted(t.role for t in tables)
    if roles != ["data", "eager", "lazy"]:
        raise Inconclusive("table roles could not be resolved: %r" % roles)


def _fnptr_params(ty):
    if not ty or "fn(" not in ty:
        return -1
    s = ty[ty.index("fn(") + 3:]
    depth = 0
    n = 1 if s and s[0] != ")" else 0
    for ch in s:
        if ch in "(<[":
            depth += 1
        elif ch in ")>]":
            if depth == 0:
                break
            depth -= 1
        elif ch == "," and depth == 0:
            n += 1
    return n


def by_role(tables):
    return {t.role: t for t in tables}


def all_entries(tables):
    return [e for t in tables for e in t.entries]


def entry(tables, key):
    for e in all_entries(tables):
        if e.key == key:
            return e
    return None
