#!/usr/bin/env python3
"""R-UNITS — bytes vs characters.  A flow-insensitive unit-of-measure taint over a
set of bodies: lengths/offsets measured in BYTES (str::len, String::len,
as_bytes().len(), find/rfind/char_indices offsets) and counts measured in
CHARS (chars().count(), Vec<char>::len) are propagated through scalar
arithmetic and Option/min/max plumbing; reported are
  * a BYTES-tagged value used as the count of skip/take/nth/step_by on an
    iterator over characters (or as index into a Vec<char>),
  * a comparison between a BYTES-tagged and a CHARS-tagged value.
A *position on the character iterator* — the index that `chars().enumerate()` hands out — is a CHARS quantity too
(tag POS): comparing it with a bound is the same sink as handing that bound to skip/take, so `skip(a).take(n)` and a
loop `for (i, c) in s.chars().enumerate() { if i >= end {break}; if i >= a {push(c)} }` are read alike."""
import re
from collections import defaultdict
from .core import callee_of, callee_path, strip_refs, expr_mentions, op_const

BYTES_SRC = re.compile(r"^core::str::<impl str>::(len|find|rfind)$|^std::string::String::len$|^core::str::<impl str>::(as_bytes|bytes|char_indices)$|^std::string::String::(as_bytes|into_bytes)$")
CHARS_SRC = re.compile(r"^<std::str::Chars<'a> as std::iter::Iterator>::count$|^std::iter::Iterator::count$")
CHAR_SINK = re.compile(r"(^std::iter::Iterator::|Iterator>::)(skip|take|nth|step_by|advance_by)$")
CMP_CALL = re.compile(r"(PartialOrd|PartialEq|Ord).*::(lt|le|gt|ge|eq|ne|cmp|partial_cmp)$|^std::cmp::(min|max)$")


class UnitsResult:
    def __init__(self):
        self.sinks = []      # (body, bi, what)
        self.mixed = []      # (body, bi/si, what)
        self.sources = defaultdict(int)
        self.checked_sinks = 0


def analyse(facts, bodies):
    tags = defaultdict(set)
    bodies = [b for b in bodies if b is not None]

    def ptags(b, p):
        if b.kind == "closure" and p["local"] == 1:
            for pr in p["proj"]:
                if pr["k"] == "Field":
                    return tags[(b.key, ("up", pr["i"]))]
                if pr["k"] != "Deref":
                    break
        return tags[(b.key, p["local"])]

    def otags(b, o):
        return set(ptags(b, o["place"])) if o["k"] in ("Copy", "Move") else set()

    def is_char_position(b, t):
        """next() of Enumerate<Chars>: its payload's index is a position on the character iterator"""
        p = callee_path(t) or ""
        return p.endswith("::next") and "Enumerate<std::str::Chars" in (callee_of(t).get("full") or "")

    def units_of(tg):
        return set(tg) - {"POS"}

    def is_chars_count(b, t):
        p = callee_path(t) or ""
        if not CHARS_SRC.search(p):
            return False
        recv = b.trace(t["args"][0])
        return expr_mentions(recv, lambda x: x[0] == "call" and x[1] and x[1]["path"] == "core::str::<impl str>::chars")

    changed = True
    rounds = 0
    while changed and rounds < 40:
        changed = False
        rounds += 1
        for b in bodies:
            for bi in b.reachable():
                blk = b.blocks[bi]
                for s in blk["stmts"]:
                    if s["k"] != "Assign":
                        continue
                    rv = s["rv"]
                    new = set()
                    k = rv["k"]
                    if k in ("Use", "Cast", "Repeat"):
                        new |= otags(b, rv["op"])
                    elif k in ("BinaryOp",):
                        new |= otags(b, rv["a"]) | otags(b, rv["b"])
                    elif k == "UnaryOp":
                        new |= otags(b, rv["a"])
                    elif k in ("Ref", "CopyForDeref"):
                        new |= ptags(b, rv["place"])
                    elif k == "Aggregate":
                        for o in rv["ops"]:
                            new |= otags(b, o)
                        if rv.get("agg") == "Closure":
                            for i, o in enumerate(rv["ops"]):
                                t0 = tags[(rv["closure"], ("up", i))]
                                nt = otags(b, o)
                                if not nt <= t0:
                                    t0 |= nt
                                    changed = True
                    cur = tags[(b.key, s["place"]["local"])]
                    if not new <= cur:
                        cur |= new
                        changed = True
                t = blk["term"]
                if t["k"] == "Call" and callee_of(t):
                    p = callee_of(t)["path"]
                    new = set()
                    if BYTES_SRC.search(p):
                        new.add("BYTES")
                    elif is_chars_count(b, t):
                        new.add("CHARS")
                    elif is_char_position(b, t):
                        new |= {"CHARS", "POS"}
                    elif p == "std::vec::Vec::<T, A>::len" and "Vec<char>" in (callee_of(t).get("full") or ""):
                        new.add("CHARS")
                    else:
                        # scalar plumbing: min/max/checked_*/unwrap_or/try_into/… carry the unit along
                        for a in t["args"]:
                            new |= otags(b, a)
                        c = callee_of(t)
                        if c["local"] and facts.body(c["key"]) is not None:
                            cb = facts.body(c["key"])
                            for i, a in enumerate(t["args"]):
                                if i < cb.arg_count:
                                    t0 = tags[(cb.key, i + 1)]
                                    nt = otags(b, a)
                                    if not nt <= t0:
                                        t0 |= nt
                                        changed = True
                            new |= tags[(cb.key, 0)]
                    cur = tags[(b.key, t["dest"]["local"])]
                    if not new <= cur:
                        cur |= new
                        changed = True
    res = UnitsResult()
    for b in bodies:
        for bi in b.reachable():
            blk = b.blocks[bi]
            t = blk["term"]
            if t["k"] == "Call" and callee_of(t):
                p = callee_of(t)["path"]
                if BYTES_SRC.search(p):
                    res.sources["BYTES"] += 1
                if is_chars_count(b, t):
                    res.sources["CHARS"] += 1
                if CHAR_SINK.search(p) and len(t["args"]) == 2:
                    recv = b.trace(t["args"][0])
                    over_chars = expr_mentions(recv, lambda x: x[0] == "call" and x[1] and x[1]["path"] == "core::str::<impl str>::chars") or "Chars<" in (callee_of(t).get("full") or "")
                    if over_chars:
                        res.checked_sinks += 1
                        if "BYTES" in otags(b, t["args"][1]):
                            res.sinks.append((b, bi, "%s on a character iterator is given a count measured in bytes" % p.rsplit("::", 1)[1]))
                if CMP_CALL.search(p) and len(t["args"]) == 2:
                    a, c = otags(b, t["args"][0]), otags(b, t["args"][1])
                    if ("POS" in a) != ("POS" in c):
                        res.checked_sinks += 1
                        if "BYTES" in (c if "POS" in a else a):
                            res.sinks.append((b, bi, "%s compares a position on the character iterator with a count measured in bytes" % p.rsplit("::", 1)[1]))
                    a, c = units_of(a), units_of(c)
                    if (a == {"BYTES"} and c == {"CHARS"}) or (a == {"CHARS"} and c == {"BYTES"}):
                        res.mixed.append((b, bi, None, "%s compares a byte length with a character count" % p.rsplit("::", 1)[1]))
            for si, s in enumerate(blk["stmts"]):
                if s["k"] == "Assign" and s["rv"]["k"] == "BinaryOp" and s["rv"]["op"] in ("Lt", "Le", "Gt", "Ge", "Eq", "Ne", "Sub", "Add", "SubWithOverflow", "AddWithOverflow"):
                    a, c = otags(b, s["rv"]["a"]), otags(b, s["rv"]["b"])
                    if ("POS" in a) != ("POS" in c) and s["rv"]["op"] in ("Lt", "Le", "Gt", "Ge", "Eq", "Ne"):
                        res.checked_sinks += 1
                        if "BYTES" in (c if "POS" in a else a):
                            res.sinks.append((b, bi, "%s compares a position on the character iterator with a count measured in bytes" % s["rv"]["op"]))
                            continue
                    a, c = units_of(a), units_of(c)
                    if (a == {"BYTES"} and c == {"CHARS"}) or (a == {"CHARS"} and c == {"BYTES"}):
                        res.mixed.append((b, bi, si, "%s mixes a byte length with a character count" % s["rv"]["op"]))
    return res
