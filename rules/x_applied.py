#!/usr/bin/env python3
"""What a table function applies to its operands — read independently of where the maintainer drew function boundaries.

A table entry may compute its result in the bound closure (`|items| Ok(Value::Bool(js_op::strict_eq(items[0], items[1])))`)
or hand the operand list, together with a function item or a flag, to a private adapter
(`|items| binary_predicate(js_op::strict_eq, items)`, `|items| truthiness(items, true)`).  Role finders that ask "which
function does `!!` apply to its operand", "which predicate does `===` apply to which two operands, negated or not" must
not depend on that choice.  Here the table function is read on interprocedural path summaries (rules/x_ipaths.py):

  * a call of a local, loop-free function that *receives the operand list itself* (a parameter of the operand list's
    type) is expanded with its parameters bound to the caller's arguments — constants included, so a `negate` flag is
    followed, not branched on;
  * a call through a `fn(..)` value that on the path is a constant function item (bound at the forwarding call, possibly
    through the ReifyFnPointer coercion) is the call of that function: it is rewritten into the direct call expression.

Functions that receive *operands* (elements of the list) are not expanded: they are what is applied.
"""
import re
from .core import strip_refs
from . import x_ipaths


def _norm_ty(t):
    return re.sub(r"\s+", "", re.sub(r"'\w+\s*", "", t or ""))


def const_fn(e):
    """The function item dict a (coerced) constant expression names, else None."""
    e = strip_refs(e) if isinstance(e, tuple) else e
    n = 0
    while isinstance(e, tuple) and e and e[0] == "cast" and len(e) > 2 and n < 4:
        e = strip_refs(e[2])
        n += 1
    if isinstance(e, tuple) and e and e[0] == "const" and isinstance(e[1], dict) and isinstance(e[1].get("fn"), dict):
        f = e[1]["fn"]
        r = f.get("resolved")
        return r if isinstance(r, dict) and r.get("key") else f
    return None


class Applied:
    def __init__(self, walker, paths):
        self.w = walker
        self.paths = paths          # [(Path, result expression with constant-pointer calls resolved)]
        self.readable = bool(paths) and not walker.overflow and not any(p.truncated for p, _ in paths)

    def calls(self):
        """[(callee dict, [argument expressions], Path)] of every call on some path — direct ones and calls through a
        constant function pointer (as calls of the function pointed to)."""
        out = []
        for p, _ in self.paths:
            for ev in p.events:
                if ev[0] != "call":
                    continue
                if ev[1]:
                    out.append((ev[1], ev[2], p))
                elif len(ev) > 4:
                    f = const_fn(ev[4])
                    if f is not None:
                        out.append((f, ev[2], p))
        return out


def _resolver(p):
    ind = {}
    for ev in p.events:
        if ev[0] == "call" and not ev[1] and len(ev) > 4:
            f = const_fn(ev[4])
            if f is not None:
                ind.setdefault(ev[3], []).append((ev[2], f))

    def rs(x):
        if isinstance(x, list):
            return [rs(y) for y in x]
        if not isinstance(x, tuple):
            return x
        if len(x) >= 4 and x[0] == "call" and x[1] is None and x[3] in ind:
            for args, f in ind[x[3]]:
                if args == x[2]:
                    return ("call", f, rs(x[2])) + tuple(x[3:])
        return tuple(rs(y) if isinstance(y, (tuple, list)) else y for y in x)
    return rs


def read(facts, body, vecp=None, max_paths=400):
    """Path summaries of the table function `body` with the adapters that receive its operand list expanded."""
    if vecp is None:
        vecp = 2 if body.kind == "closure" else 1
    vty = _norm_ty(body.local_ty(vecp))
    base = x_ipaths.loop_free_local(facts)

    def expand(c):
        hb = base(c)
        if hb is None:
            return None
        ins = [_norm_ty(t) for t in (facts.items.get(hb.key, {}).get("inputs") or [])]
        return hb if vty in ins else None
    w = x_ipaths.summarize(body, expand, max_paths=max_paths)
    out = []
    for p in w.paths:
        r = p.result
        out.append((p, _resolver(p)(r) if r is not None else None))
    return Applied(w, out)
