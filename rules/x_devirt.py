#!/usr/bin/env python3
"""Devirtualisation of calls through a constant function pointer — part of the helper-inlined *view* (rules/inline.py).

A table closure `|items| binary_predicate(js_op::strict_eq, items)` hands a function item to a private adapter that
calls it through its `fn(..)` parameter.  Once the adapter's body stands at its call site (inlining), the pointer that
is called is a local with exactly one definition, and that definition is a constant function item (possibly through
the `ReifyFnPointer` coercion and plain copies).  Calling through such a local is calling that function: the indirect
call is rewritten into the direct call MIR would have had if the maintainer had written `js_op::strict_eq(a, b)`.

Conditions (all checked on the body's own statements, nothing is assumed):
  * the called operand is a bare local (no projection) that is not a parameter of the body;
  * every local on the copy chain has exactly one definition in the whole body (one assignment statement, no call
    writes to it) and its address is never taken (`&`/`&mut`/raw) — so nothing else can change it;
  * the chain ends in a `Const` operand that names a function item, reached only through `Use` and pointer-coercion
    casts.
Anything else is left as the indirect call it is.
"""
import copy


def _defs(b):
    """local -> list of definitions: ("stmt", rvalue) | ("call", None); and the set of locals whose address is taken."""
    defs, borrowed = {}, set()
    for blk in b["blocks"]:
        for s in blk["stmts"]:
            if s["k"] != "Assign":
                if isinstance(s.get("place"), dict) and s["k"] not in ("StorageLive", "StorageDead", "FakeRead", "AscribeUserType", "PlaceMention", "Retag"):
                    defs.setdefault(s["place"]["local"], []).append(("other", None))
                continue
            pl = s["place"]
            rv = s["rv"]
            if rv["k"] in ("Ref", "AddressOf", "RawPtr") and isinstance(rv.get("place"), dict) and not rv["place"]["proj"]:
                borrowed.add(rv["place"]["local"])
            defs.setdefault(pl["local"], []).append(("stmt", rv) if not pl["proj"] else ("other", None))
        t = blk["term"]
        d = t.get("dest") if t["k"] in ("Call", "TailCall") else None
        if isinstance(d, dict):
            defs.setdefault(d["local"], []).append(("call", None))
        if t["k"] in ("Drop",) and isinstance(t.get("place"), dict):
            pass
    return defs, borrowed


def _resolve(b, defs, borrowed, local, depth=0):
    """The constant function item a bare local denotes everywhere in the body, or None."""
    if depth > 8 or local in borrowed or local <= b.get("arg_count", 0):
        return None
    ds = defs.get(local, [])
    if len(ds) != 1 or ds[0][0] != "stmt":
        return None
    rv = ds[0][1]
    if rv["k"] == "Use":
        o = rv["op"]
    elif rv["k"] == "Cast" and "PointerCoercion" in str(rv.get("cast", "")) and "ReifyFnPointer" in str(rv.get("cast", "")):
        o = rv["op"]
    else:
        return None
    if not isinstance(o, dict):
        return None
    if o.get("k") == "Const":
        c = o.get("const") or {}
        return o if isinstance(c.get("fn"), dict) else None
    if o.get("k") in ("Copy", "Move") and not o["place"]["proj"]:
        return _resolve(b, defs, borrowed, o["place"]["local"], depth + 1)
    return None


def devirtualize(b):
    """Rewrite, in the JSON body b, every call through a local that denotes one constant function item into the
    direct call.  Returns the number of rewritten call sites."""
    defs = borrowed = None
    n = 0
    for blk in b["blocks"]:
        t = blk["term"]
        if t["k"] not in ("Call", "TailCall") or t.get("callee"):
            continue
        f = t.get("func")
        if not (isinstance(f, dict) and f.get("k") in ("Copy", "Move") and not f["place"]["proj"]):
            continue
        if defs is None:
            defs, borrowed = _defs(b)
        c = _resolve(b, defs, borrowed, f["place"]["local"])
        if c is None:
            continue
        t["func"] = copy.deepcopy(c)
        t["callee"] = copy.deepcopy(c["const"]["fn"])
        t["devirtualized_from"] = f["place"]["local"]
        n += 1
    return n
