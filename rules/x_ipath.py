#!/usr/bin/env python3
"""Interprocedural path summaries: the decision cases of a function *through* the crate's helper functions it calls.

`pathsum.Walker` stops at a call: the result of a local helper is an opaque `("call", …)` and the questions asked of
it become atoms about the call site.  A maintainer who extracts a helper (`as_exact_i64(x) -> Option<i64>` holding the
guards of a cast, `to_number_operands(a, b) -> Result<(f64, f64), _>` holding two conversions) thereby hides from an
intra-procedural reader exactly the facts a rule is about.  `IWalker` walks the callee instead, with the callee's
parameters bound to the caller's argument expressions (the `env` of pathsum): one continuation of the caller's path
per path of the callee, carrying the callee's atoms (stated on the caller's expressions) and with the destination of
the call holding what the callee returns on that path — so a `match`/`?`/combinator on the helper's result is
*followed* (the constructor is known) instead of branched.  Nothing is executed; the object is finite because only
loop-free callees are expanded (a callee with a loop, too many paths or on the current expansion stack stays an opaque
call), and the depth is bounded.

`decision_cases(facts, body, expand, …)` is `optnorm.decision_cases` on these paths, with two additions: a combinator
chain returned by an expanded callee is expanded into its cases at the call, and payload placeholders whose source is
a combinator chain (`to_number(x).map(f).ok_or_else(e)?`) are resolved into the value the chain yields.
"""
from .core import callee_of, strip_refs
from . import pathsum, optnorm


class IWalker(pathsum.Walker):
    def __init__(self, body, expand, start=0, known=None, max_paths=6000, env=None, depth=0, stack=(), max_depth=4):
        self.expand = expand            # callee dict -> bool: may this local function be read through?
        self.depth = depth
        self.stack = tuple(stack) + (body.key,)
        self.max_depth = max_depth
        self.expanded = set()           # keys of the callees that were read through
        self.opaque = set()             # keys of expandable callees that could not be (loops, too many paths, recursion)
        super().__init__(body, start=start, known=known, max_paths=max_paths, env=env)

    def _callee_body(self, c):
        if not c or not c.get("local") or not c.get("key"):
            return None
        cb = self.f.body(c["key"])
        if cb is None or cb.kind != "fn":
            return None
        if not self.expand(c):
            return None
        if cb.key in self.stack or self.depth >= self.max_depth:
            self.opaque.add(cb.key)
            return None
        return cb

    def classify(self, e, t):
        out = pathsum.Walker.classify(self, e, t)
        # comparison atoms are keyed by the canonical text of their operands: keep the operand expressions too
        # (exprs[key] = {canonical text: expression}) so that a rule can read what is compared, not parse text
        for (_, key, _) in out:
            if key and key[0] == "cmp" and isinstance(self.exprs.get(key), tuple) and self.exprs[key][0] == "binop":
                # the shared walker records the canonical comparison ("binop", op, a, b, …) with a, b in the order of the key
                _b = self.exprs[key]
                self.exprs[key] = {key[2]: strip_refs(_b[2]), key[3]: strip_refs(_b[3])}
            elif key and key[0] == "cmp" and key not in self.exprs:
                x = strip_refs(e)
                while x[0] == "unop" and x[1] == "Not":
                    x = strip_refs(x[2])
                if x[0] == "cast" and strip_refs(x[2])[0] in ("binop", "call", "const"):
                    x = strip_refs(x[2])
                if x[0] == "binop":
                    a, b_ = strip_refs(x[2]), strip_refs(x[3])
                    self.exprs[key] = {pathsum.canon(a): a, pathsum.canon(b_): b_}
        return out

    @staticmethod
    def _ns(key, cb, site):
        # atoms about call sites of the callee are numbered by the callee's blocks: keep them apart from the caller's
        if key and key[0] == "site":
            return ("site", (cb.key, site, key[1]))
        return key

    def _through(self, cb, args, site):
        """[(atoms in order, events, result)] of calling cb with the argument expressions args, or None."""
        env = {i + 1: a for i, a in enumerate(args)}
        sub = IWalker(cb, self.expand, known=self.known, max_paths=600, env=env, depth=self.depth + 1, stack=self.stack, max_depth=self.max_depth)
        self.opaque |= sub.opaque
        if sub.overflow or not sub.paths or any(p.truncated or p.result is None for p in sub.paths):
            self.opaque.add(cb.key)
            return None
        out = []
        for sp in sub.paths:
            alts = optnorm.cases_expr(self.f, sp.result)
            if alts is None:
                alts = [((), sp.result)]
            for c2, v2 in alts:
                order = [(self._ns(k, cb, site), sp.atoms[k]) for k, _ in sp.order] + [(k, v) for k, v in c2]
                out.append((order, sp.events, v2))
        for k, e in sub.exprs.items():
            self.exprs[self._ns(k, cb, site)] = e
        for k, e in optnorm.SRC_EXPRS.items():
            self.exprs.setdefault(k, e)
        self.expanded.add(cb.key)
        self.expanded |= sub.expanded
        return out

    def _walk(self, bi, env, atoms, order, events, blocks, onpath):
        b = self.b
        while True:
            if len(self.paths) >= self.max_paths:
                self.overflow = True
                return
            if bi in onpath:
                p = pathsum.Path()
                p.blocks, p.atoms, p.order, p.events, p.truncated, p.env = blocks + [bi], atoms, order, events, True, env
                self.paths.append(p)
                return
            onpath = onpath | {bi}
            blocks = blocks + [bi]
            blk = b.blocks[bi]
            for s in blk["stmts"]:
                if s["k"] != "Assign":
                    continue
                pl = s["place"]
                val = self.rvalue(s["rv"], env)
                if not pl["proj"]:
                    env = dict(env)
                    env[pl["local"]] = val
                elif all(pr["k"] == "Field" for pr in pl["proj"]) and len(pl["proj"]) == 1:
                    cur = env.get(pl["local"])
                    i = pl["proj"][0]["i"]
                    if cur is not None and cur[0] == "agg" and cur[1].get("agg") == "fields":
                        ops = list(cur[2])
                    else:
                        ops = []
                    while len(ops) <= i:
                        ops.append(("undef", pl["local"]))
                    ops[i] = val
                    env = dict(env)
                    env[pl["local"]] = ("agg", {"agg": "fields"}, ops)
            t = blk["term"]
            k = t["k"]
            if k == "Return":
                p = pathsum.Path()
                p.blocks, p.atoms, p.order, p.events, p.env = blocks, atoms, order, events, env
                p.result = env.get(0)
                if p.result is None:
                    with b.restricted(set(blocks)):
                        p.result = b.trace(0)
                self.paths.append(p)
                return
            if k in ("Goto", "Drop", "Assert"):
                bi = t["target"]
                continue
            if k in ("Call", "TailCall"):
                args = [self.operand(a, env) for a in t["args"]]
                c = callee_of(t)
                fexpr = None if c else self.operand(t["func"], env)
                ev = ("call", c, args, bi) if c else ("call", None, args, bi, fexpr)
                d = t.get("dest")
                cb = self._callee_body(c)
                if cb is not None and t.get("target") is not None and d is not None and not d["proj"] and len(args) == cb.arg_count:
                    alts = self._through(cb, args, bi)
                    if alts is not None:
                        for (sorder, sevents, sresult) in alts:
                            na, no, feasible = dict(atoms), list(order), True
                            for key, val in sorder:
                                if key in na:
                                    if not self.consistent(na[key], val):
                                        feasible = False
                                        break
                                    if isinstance(na[key], tuple):
                                        na[key] = self.merge(na[key], val)
                                else:
                                    na[key] = val
                                    no.append((key, val))
                            if not feasible:
                                continue
                            env2 = dict(env)
                            env2[d["local"]] = sresult
                            self._walk(t["target"], env2, na, no, events + [ev] + list(sevents), blocks, onpath)
                        return
                events = events + [ev]
                if d is not None and not d["proj"]:
                    env = dict(env)
                    env[d["local"]] = ("call", c, args, bi)
                if t.get("target") is None:
                    return
                bi = t["target"]
                continue
            if k == "SwitchInt":
                e = self.operand(t["discr"], env)
                edges = self.classify(e, t)
                todo = []
                for (tg, key, val) in edges:
                    if key is None:
                        todo = [(tg, atoms, order)]
                        break
                    if key in atoms:
                        if not self.consistent(atoms[key], val):
                            continue
                        na = dict(atoms)
                        na[key] = self.merge(atoms[key], val) if isinstance(atoms[key], tuple) else atoms[key]
                        todo.append((tg, na, order))
                    else:
                        na = dict(atoms)
                        na[key] = val
                        todo.append((tg, na, order + [(key, val)]))
                if len(todo) == 1:
                    bi, atoms, order = todo[0]
                    continue
                for (tg, na, no) in todo:
                    self._walk(tg, env, na, no, events, blocks, onpath)
                return
            return


def _payload_sources(e, out, depth=0):
    if not isinstance(e, tuple) or depth > 40:
        return
    if e and e[0] in ("payload", "payload-err") and len(e) == 3:
        src = strip_refs(e[2])
        if src[0] == "call" and src[1] and optnorm.M.match(src[1].get("path") or ""):
            out.append(e)
        return
    for x in e:
        if isinstance(x, tuple):
            _payload_sources(x, out, depth + 1)
        elif isinstance(x, list):
            for y in x:
                _payload_sources(y, out, depth + 1)


def _subst(e, old, new, depth=0):
    if not isinstance(e, tuple) or depth > 40:
        return e
    if e == old:
        return new
    out = []
    for x in e:
        if isinstance(x, tuple):
            out.append(_subst(x, old, new, depth + 1))
        elif isinstance(x, list):
            out.append([_subst(y, old, new, depth + 1) if isinstance(y, tuple) else y for y in x])
        else:
            out.append(x)
    return tuple(out)


def resolve_payloads(facts, conds, value, rounds=6):
    """Cases [(conds, value)] with every payload placeholder whose source is an Option/Result combinator chain
    replaced by the value the chain yields (one case per way the chain can yield it)."""
    work = [(dict(conds), value, rounds)]
    done = []
    while work:
        cd, v, n = work.pop()
        todo = []
        _payload_sources(v, todo)
        if not todo or n <= 0:
            done.append((cd, v))
            continue
        ph = todo[0]
        want_good = ph[0] == "payload"
        sub = optnorm.cases_expr(facts, ph[2])
        if sub is None:
            done.append((cd, v))
            continue
        hit = False
        for c2, v2 in sub:
            v2 = strip_refs(v2)
            if not (v2[0] == "agg" and v2[1].get("variant") in ("Some", "Ok", "Err", "None")):
                continue
            good = v2[1]["variant"] in ("Some", "Ok")
            if good != want_good or not v2[2]:
                continue
            nc, feasible = dict(cd), True
            for k, val in c2:
                if k in nc and nc[k] != val:
                    feasible = False
                nc[k] = val
            if not feasible:
                continue
            nc.pop(("variant", ph[1]), None)
            hit = True
            work.append((nc, optnorm.normalise(_subst(v, ph, v2[2][0])), n - 1))
        if not hit:
            done.append((cd, v))
    return done


class Cases(list):
    exprs = None
    walker = None


def decision_cases(facts, body, expand, known=None, env=None, max_paths=3000, max_depth=4):
    """[(conds dict, value expr, path)] of `body` read through the local helpers `expand` admits; None when the body
    has loops or too many paths.  `.walker.expanded` / `.walker.opaque` tell which helpers were read through."""
    w = IWalker(body, expand, known=known, env=env, max_paths=max_paths, max_depth=max_depth)
    if w.overflow or not w.paths or any(p.truncated for p in w.paths):
        return None
    out = Cases()
    out.exprs = dict(w.exprs)
    out.walker = w
    for p in w.paths:
        sub = optnorm.cases_expr(facts, p.result)
        if sub is None:
            return None
        for c2, v in sub:
            conds = dict(p.atoms)
            feasible = True
            for k, val in c2:
                if k in conds and conds[k] != val:
                    feasible = False
                conds[k] = val
            if not feasible:
                continue
            for cd, vv in resolve_payloads(facts, conds, optnorm.normalise(strip_refs(v))):
                out.append((cd, vv, p))
    for k, e in optnorm.SRC_EXPRS.items():
        out.exprs.setdefault(k, e)
    return out
