#!/usr/bin/env python3
"""Interprocedural, state-aware path summaries (an extension of rules/pathsum.py).

`pathsum.Walker` reads one loop-free body path by path.  Two things it cannot see matter for guard clauses
("which facts hold on every path to this exit"):

  * a guard moved into a private helper (`sole_entry(value)`, `spread_args(..)`): the helper's decision is one opaque
    atom of the caller.  Here a call of a local, loop-free, non-recursive function is *expanded*: the callee's paths are
    walked with its parameters bound to the caller's argument expressions, its atoms join the caller's path (a
    contradiction with what the caller already knows drops the combination) and the caller continues with the
    callee's result expression.  Nothing depends on where the maintainer drew the function boundary.
  * an external call through `&mut x` changes x (`entries.next()` twice is the first and the *second* entry).  After
    such a call the borrowed local denotes ("after", old value, callee path), so two reads of an iterator are two
    different quantities and the position of a `next()` can be counted.

For every atom the raw question is kept as well: `w.raw[(atom key, atom value)] = (expression, truth | int)`, the
ref-stripped, negation-stripped expression the switch asked about and what this edge says about it — so that a rule
can interpret comparisons (`len(m) != 1` false) without parsing canonical strings.
"""
from .core import callee_of, strip_refs
from .pathsum import Walker, Path, canon


def _bare_local(o):
    if isinstance(o, dict) and o.get("k") in ("Copy", "Move") and not o["place"]["proj"]:
        return o["place"]["local"]
    return None


class IWalker(Walker):
    """expand(callee dict) -> Body | None decides which local calls are expanded."""

    def __init__(self, body, expand=None, start=0, known=None, max_paths=4000, env=None, depth=0, stack=(), sub_cap=96):
        self.expand = expand
        self.depth = depth
        self.stack = stack
        self.sub_cap = sub_cap
        self.raw = {}
        self.expanded = set()
        self.opaque_local = set()       # local callees met but not expanded
        Walker.__init__(self, body, start=start, known=known, max_paths=max_paths, env=env)

    # ---- atoms with their raw question ------------------------------------------------------------------
    def classify(self, e, t):
        out = Walker.classify(self, e, t)
        x = strip_refs(e)
        neg = False
        while x[0] == "unop" and x[1] == "Not":
            neg, x = not neg, strip_refs(x[2])
        if x[0] == "cast" and strip_refs(x[2])[0] in ("binop", "call", "const"):
            x = strip_refs(x[2])
        if x[0] == "discr":
            return out
        if t.get("dty") == "bool":
            truth_of = {}
            listed = set()
            for val, bb in t["arms"]:
                listed.add(str(val))
                truth_of.setdefault(bb, set()).add(str(val) != "0")
            if listed == {"0"}:
                truth_of.setdefault(t["otherwise"], set()).add(True)
            elif listed == {"1"}:
                truth_of.setdefault(t["otherwise"], set()).add(False)
            for (tg, key, val) in out:
                if key is None:
                    continue
                ts = truth_of.get(tg, set())
                if len(ts) == 1:
                    self.raw[(key, val)] = (x, (list(ts)[0] != neg))
        else:
            for (tg, key, val) in out:
                if key is not None:
                    self.raw[(key, val if not isinstance(val, tuple) else val)] = (x, val)
        return out

    # ---- the walk -------------------------------------------------------------------------------------
    def _walk(self, bi, env, atoms, order, events, blocks, onpath):
        b = self.b
        while True:
            if len(self.paths) >= self.max_paths:
                self.overflow = True
                return
            if bi in onpath:
                p = Path()
                p.blocks, p.atoms, p.order, p.events, p.truncated, p.env = blocks + [bi], atoms, order, events, True, env
                self.paths.append(p)
                return
            onpath = onpath | {bi}
            blocks = blocks + [bi]
            blk = b.blocks[bi]
            for s in blk["stmts"]:
                if s["k"] != "Assign":
                    continue
                pl = s["place"]
                rv = s["rv"]
                val = self.rvalue(rv, env)
                if not pl["proj"]:
                    env = dict(env)
                    env[pl["local"]] = val
                    env.pop(("mut", pl["local"]), None)
                    if rv["k"] == "Ref" and rv.get("mut") and not rv["place"]["proj"]:
                        env[("mut", pl["local"])] = rv["place"]["local"]
                    elif rv["k"] == "Ref" and rv.get("mut") and len(rv["place"]["proj"]) == 1 and rv["place"]["proj"][0]["k"] == "Deref" and ("mut", rv["place"]["local"]) in env:
                        env[("mut", pl["local"])] = env[("mut", rv["place"]["local"])]       # reborrow &mut *r
                    elif rv["k"] == "Use":
                        src = _bare_local(rv["op"])
                        if src is not None and ("mut", src) in env:
                            env[("mut", pl["local"])] = env[("mut", src)]
                elif all(pr["k"] == "Field" for pr in pl["proj"]) and len(pl["proj"]) == 1:
                    cur = env.get(pl["local"])
                    i = pl["proj"][0]["i"]
                    if cur is not None and cur[0] == "agg" and cur[1].get("agg") == "fields":
                        ops = list(cur[2])
                    else:
                        ops = []
                    while len(ops) <= i:
                        ops.append(("undef", pl["local"]))
                    ops[i] = val
                    env = dict(env)
                    env[pl["local"]] = ("agg", {"agg": "fields"}, ops)
            t = blk["term"]
            k = t["k"]
            if k == "Return":
                p = Path()
                p.blocks, p.atoms, p.order, p.events, p.env = blocks, atoms, order, events, env
                p.result = env.get(0)
                if p.result is None:
                    with b.restricted(set(blocks)):
                        p.result = b.trace(0)
                self.paths.append(p)
                return
            if k in ("Goto", "Drop", "Assert"):
                bi = t["target"]
                continue
            if k in ("Call", "TailCall"):
                args = [self.operand(a, env) for a in t["args"]]
                c = callee_of(t)
                fexpr = None if c else self.operand(t["func"], env)
                ev = ("call", c, args, bi) if c else ("call", None, args, bi, fexpr)
                events = events + [ev]
                d = t.get("dest")
                muts = []
                for a in t["args"]:
                    l = _bare_local(a)
                    if l is not None and ("mut", l) in env:
                        muts.append(env[("mut", l)])
                hb = None
                if c and c.get("local") and self.expand is not None and self.depth < 5:
                    hb = self.expand(c)
                    if hb is not None and (hb.key in self.stack or hb.key == b.key or len(t["args"]) != hb.arg_count):
                        hb = None
                    if hb is None:
                        self.opaque_local.add(c.get("key"))
                if hb is not None and t.get("target") is not None and d is not None and not d["proj"]:
                    sub = IWalker(hb, expand=self.expand, known=self.known, max_paths=self.sub_cap + 1,
                                  env={1 + i: a for i, a in enumerate(args)}, depth=self.depth + 1, stack=self.stack + (b.key,), sub_cap=self.sub_cap)
                    if not sub.overflow and sub.paths and not any(sp.truncated for sp in sub.paths) and len(sub.paths) <= self.sub_cap:
                        self.expanded.add(hb.key)
                        self.expanded |= sub.expanded
                        self.opaque_local |= sub.opaque_local
                        tag = (hb.key, bi)

                        def ren(key):
                            return ("site", (tag, key[1])) if key[0] == "site" else key
                        for key, ex in sub.exprs.items():
                            self.exprs.setdefault(ren(key), ex)
                        for (key, val), rw in sub.raw.items():
                            self.raw.setdefault((ren(key), val), rw)
                        for sp in sub.paths:
                            na, no, ok = dict(atoms), list(order), True
                            for okey, oval in sp.order:
                                val = sp.atoms.get(okey, oval)
                                key = ren(okey)
                                if key in na:
                                    if not self.consistent(na[key], val):
                                        ok = False
                                        break
                                    if isinstance(na[key], tuple):
                                        na[key] = self.merge(na[key], val)
                                else:
                                    na[key] = val
                                    no.append((key, val))
                            if not ok:
                                continue
                            e2 = dict(env)
                            e2[d["local"]] = sp.result
                            for L in muts:
                                e2[L] = ("after", env.get(L) or b._trace_local(L, 0, frozenset()), "<local>" + hb.key)
                            self._walk(t["target"], e2, na, no, events + list(sp.events) + [("ret", c, [sp.result], bi)], blocks, onpath)
                        return
                    self.opaque_local.add(hb.key)
                if d is not None and not d["proj"]:
                    env = dict(env)
                    env[d["local"]] = ("call", c, args, bi, b.key) if c else ("call", c, args, bi)
                    env.pop(("mut", d["local"]), None)
                if muts:
                    env = dict(env)
                    name = (c.get("path") if c else None) or "<indirect>"
                    for L in muts:
                        env[L] = ("after", env.get(L) or b._trace_local(L, 0, frozenset()), name, list(args))
                if t.get("target") is None:
                    return
                bi = t["target"]
                continue
            if k == "SwitchInt":
                e = self.operand(t["discr"], env)
                edges = self.classify(e, t)
                todo = []
                for (tg, key, val) in edges:
                    if key is None:
                        todo = [(tg, atoms, order)]
                        break
                    if key in atoms:
                        if not self.consistent(atoms[key], val):
                            continue
                        na = dict(atoms)
                        na[key] = self.merge(atoms[key], val) if isinstance(atoms[key], tuple) else atoms[key]
                        todo.append((tg, na, order))
                    else:
                        na = dict(atoms)
                        na[key] = val
                        todo.append((tg, na, order + [(key, val)]))
                if len(todo) == 1:
                    bi, atoms, order = todo[0]
                    continue
                for (tg, na, no) in todo:
                    self._walk(tg, env, na, no, events, blocks, onpath)
                return
            return


def loop_free_local(facts, skip=()):
    """expand() policy: any local `fn` body without back edges that is not in `skip`."""
    def expand(c):
        k = c.get("key")
        if not k or k in skip:
            return None
        hb = facts.body(k)
        if hb is None or hb.kind != "fn":
            return None
        try:
            if hb.back_edges():
                return None
        except Exception:
            return None
        return hb
    return expand


def summarize(body, expand, known=None, max_paths=4000, env=None):
    return IWalker(body, expand=expand, known=known, max_paths=max_paths, env=env)
