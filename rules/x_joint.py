"""Joint valuations of several expressions: the set of tuples of constants that the expressions can take *together*.

`joint_values(facts, body, [e1, …, en])` → set of n-tuples of Python constants, or None when a form is not read.
It does not care how the constants get to the place of use:
  * written in place;
  * parameters of a private function: the union over all its call sites (each call site keeps its own combination);
  * components of one element of a constant table, whether the element is the item of a `next()` of an iterator over the
    table or the parameter of a closure handed to an iterator method (`fold`, `for_each`, `map`, …) of such an iterator:
    one tuple per row.
"""
import re
from .core import strip_refs, const_value, callee_of

ITER_STEP = re.compile(r"(::iter|::into_iter|IntoIterator>::into_iter|Deref>::deref|::as_slice|::skip|::take|::rev|::by_ref|::fuse|::peekable|::inspect|::copied|::cloned)$")


def _hands_on(t, key):
    """the call terminator t receives the function / closure `key` as a callable"""
    return any(fa.get("key") == key for fa in ((t.get("callee") or {}).get("fnargs") or []))


def _array_rows(facts, it):
    """Rows of the constant array an iterator expression walks, or None."""
    it = strip_refs(it)
    hops = 0
    while hops < 8:
        if it[0] == "call" and it[1] and ITER_STEP.search(it[1]["path"]) and it[2]:
            it = strip_refs(it[2][0])
        elif it[0] == "cast" and str(it[1]).startswith("PointerCoercion"):
            it = strip_refs(it[2])
        else:
            break
        hops += 1
    if it[0] == "const" and it[1].get("item"):
        cb = facts.body(it[1]["item"])
        if cb is None:
            return None
        it = strip_refs(cb.trace(0))
    if it[0] == "agg" and it[1].get("agg") == "Array":
        return [(None, strip_refs(r)) for r in it[2]]
    return None


def _element_rows(facts, body, base):
    """`base` denotes one element of a constant table: its rows as aggregate expressions, or None."""
    base = strip_refs(base)
    while base[0] == "deref":
        base = strip_refs(base[1])
    # item of next()
    if base[0] == "field" and base[2] == 0 and base[1][0] == "downcast" and base[1][2] == "Some":
        src = strip_refs(base[1][1])
        if src[0] == "call" and src[1] and re.search(r"::(next|next_back)$", src[1]["path"]) and src[2]:
            return _array_rows(facts, src[2][0])
        return None
    # parameter of a closure handed to an iterator method whose receiver walks the table
    if base[0] == "arg" and body.kind == "closure" and base[1] >= 2:
        cr = body.creator()
        if cr is None:
            return None
        for bi, t in cr[0].calls():
            c = callee_of(t)
            if c is None or c["local"] or not _hands_on(t, body.key):
                continue
            if not re.search(r"(^std::iter::Iterator::|as std::iter::(Iterator|DoubleEndedIterator)>::)\w+$", c["path"]) or not t["args"]:
                return None
            rows = _array_rows(facts, cr[0].trace(t["args"][0]))
            if rows is None:
                return None
            # the parameter must be the element itself (its type is a reference to the row type), not an accumulator
            pty = body.local_ty(base[1])
            if not pty.startswith("&") or "(" not in pty:
                return None
            others = [l for l in range(2, body.arg_count + 1) if l != base[1] and body.local_ty(l).lstrip("&").strip() == pty.lstrip("&").strip()]
            if others:
                return None
            return rows
    return None


def joint_values(facts, body, exprs, depth=0):
    if depth > 6:
        return None
    exprs = [strip_refs(e) for e in exprs]

    def peel(e):
        while e[0] in ("deref", "ref"):
            e = strip_refs(e[1])
        return e
    exprs = [peel(e) for e in exprs]
    if all(e[0] == "const" for e in exprs):
        return {tuple(const_value(e[1]) for e in exprs)}
    open_ = [e for e in exprs if e[0] != "const"]
    # parameters of a private function: every call site, jointly
    if all(e[0] == "arg" for e in open_) and body.kind == "fn":
        it = facts.items.get(body.key, {})
        if it.get("reachable") or it.get("exported"):
            return None
        out, n = set(), 0
        for cb in facts.fns():
            for bi, t in cb.calls():
                c = callee_of(t)
                if c and c.get("key") == body.key:
                    n += 1
                    sub = [e if e[0] == "const" else cb.trace(t["args"][e[1] - 1]) for e in exprs]
                    r = joint_values(facts, cb, sub, depth + 1)
                    if r is None:
                        return None
                    out |= r
            for bi, t in cb.calls():      # the function handed on as a value: call sites unknown
                c = callee_of(t)
                if c and _hands_on(t, body.key):
                    return None
        return out if n else None
    # components of one element of a constant table
    if all(e[0] == "field" and isinstance(e[2], int) for e in open_):
        bases = {repr(peel(strip_refs(e[1]))) for e in open_}
        if len(bases) != 1:
            return None
        rows = _element_rows(facts, body, open_[0][1])
        if rows is None:
            return None
        out = set()
        for _, r in rows:
            if r[0] != "agg":
                return None
            vals = []
            for e in exprs:
                if e[0] == "const":
                    vals.append(const_value(e[1]))
                    continue
                if e[2] >= len(r[2]):
                    return None
                x = peel(strip_refs(r[2][e[2]]))
                if x[0] != "const":
                    return None
                vals.append(const_value(x[1]))
            out.add(tuple(vals))
        return out
    return None
