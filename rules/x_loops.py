#!/usr/bin/env python3
"""Loop summary: a loop that moves every item of an iterator into a vector *is* `vector.extend(iterator)`.

Path summaries stop at a back edge, so a function that fills a list with

    for item in items { collected.push(item); }

has no readable path through the loop, although what the loop does to `collected` is a closed form.  `collect_view`
returns a copy of the body in which each such loop is replaced by one call `Extend::extend(&mut vector, iterator)` that
continues at the loop's exit — the same vector contents in the same order, so a clause about *what the list holds* read
on the view holds for the program.  A loop is summarised only when everything in it is accounted for:

  * exactly two calls: `Iterator::next(&mut it)` and `Vec::push(&mut v, x)`;
  * exactly one branch: on the discriminant of that `next()`; `None` leaves the loop (its only exit), `Some` stays;
  * `x` is the `Some` payload of that `next()` (through plain copies);
  * every other statement assigns a loop-local temporary (a borrow of `it` / `v` / a temporary, a copy of a temporary,
    the discriminant, a unit constant), and no temporary is used outside the loop.

Anything else — a second push, a condition, a `break`, a transformation of the item — is left as the loop it is.
"""
import copy, re
from .core import Body, callee_path

NEXT = re.compile(r"(^std::iter::Iterator::|as std::iter::Iterator>::)next$")
PUSH = re.compile(r"Vec::<T, A>::push$")


def _locals_in(o, out):
    if isinstance(o, dict):
        for k, v in o.items():
            if k == "local" and isinstance(v, int):
                out.add(v)
            else:
                _locals_in(v, out)
    elif isinstance(o, list):
        for v in o:
            _locals_in(v, out)


def _bare(o):
    return o["place"]["local"] if isinstance(o, dict) and o.get("k") in ("Copy", "Move") and not o["place"]["proj"] else None


def _match(body, h, blocks):
    B = body.blocks
    if any(B[bi].get("cleanup") for bi in blocks):
        return None
    ldef, temps = {}, set()
    calls, switches = [], []
    for bi in blocks:
        for s in B[bi]["stmts"]:
            if s["k"] in ("StorageLive", "StorageDead", "Nop"):
                continue
            if s["k"] != "Assign" or s["place"]["proj"] or s["place"]["local"] in ldef:
                return None
            ldef[s["place"]["local"]] = s["rv"]
        t = B[bi]["term"]
        if t["k"] == "Call":
            if t.get("target") is None or not isinstance(t.get("dest"), dict) or t["dest"]["proj"]:
                return None
            calls.append((bi, t))
        elif t["k"] == "SwitchInt":
            switches.append((bi, t))
        elif t["k"] != "Goto":
            return None
    if len(calls) != 2 or len(switches) != 1:
        return None
    nx = [c for c in calls if NEXT.search(callee_path(c[1]) or "")]
    pu = [c for c in calls if PUSH.search(callee_path(c[1]) or "")]
    if len(nx) != 1 or len(pu) != 1 or len(nx[0][1]["args"]) != 1 or len(pu[0][1]["args"]) != 2:
        return None
    n_local, unit_local = nx[0][1]["dest"]["local"], pu[0][1]["dest"]["local"]
    temps = set(ldef) | {n_local, unit_local}
    if len(temps) != len(ldef) + 2:
        return None

    def mut_target(o, depth=0):
        l = _bare(o) if isinstance(o, dict) and "k" in o and o["k"] in ("Copy", "Move") else None
        if l is None or l not in ldef or depth > 4:
            return None
        rv = ldef[l]
        if rv["k"] == "Ref" and rv.get("mut"):
            pl = rv["place"]
            if not pl["proj"]:
                return pl["local"] if pl["local"] not in temps else None
            if len(pl["proj"]) == 1 and pl["proj"][0]["k"] == "Deref":
                return mut_target({"k": "Move", "place": {"local": pl["local"], "proj": []}}, depth + 1)
        if rv["k"] == "Use":
            return mut_target(rv["op"], depth + 1)
        return None
    it, v = mut_target(nx[0][1]["args"][0]), mut_target(pu[0][1]["args"][0])
    if it is None or v is None or it == v:
        return None
    # the pushed value: the Some payload of this next()
    o, d = pu[0][1]["args"][1], 0
    while _bare(o) is not None and _bare(o) in ldef and ldef[_bare(o)]["k"] == "Use" and d < 6:
        o, d = ldef[_bare(o)]["op"], d + 1
    pr = o["place"]["proj"] if isinstance(o, dict) and o.get("k") in ("Copy", "Move") else None
    if not (pr is not None and o["place"]["local"] == n_local and len(pr) == 2 and pr[0]["k"] == "Downcast" and pr[0].get("variant") == "Some" and pr[1]["k"] == "Field" and pr[1]["i"] == 0):
        return None
    # the one branch: discriminant of that next(); None leaves, Some stays
    sbi, st = switches[0]
    dl = _bare(st["discr"])
    if dl is None or dl not in ldef or ldef[dl]["k"] != "Discriminant" or ldef[dl]["place"]["proj"] or ldef[dl]["place"]["local"] != n_local:
        return None
    arms = {str(val): tg for val, tg in st["arms"]}
    if set(arms) != {"0", "1"} or arms["0"] in blocks or arms["1"] not in blocks:
        return None
    if st["otherwise"] in blocks or B[st["otherwise"]]["term"]["k"] != "Unreachable":
        return None
    exit_bi = arms["0"]
    # every statement is plumbing on temporaries / the two subjects
    for l, rv in ldef.items():
        used = set()
        _locals_in(rv, used)
        if rv["k"] == "Ref":
            ok = used <= (temps | {it, v})
        elif rv["k"] == "Discriminant":
            ok = used == {n_local}
        elif rv["k"] == "Use":
            ok = used <= temps
        else:
            ok = False
        if not ok:
            return None
    # no other way out of the loop, none into its middle, and no temporary is looked at outside
    for bi in blocks:
        for _lab, tg in body.edges(bi):
            if tg not in blocks and not (bi == sbi and tg in (exit_bi, st["otherwise"])):
                return None
    outside = set()
    for bi, blk in enumerate(B):
        if bi in blocks:
            continue
        if bi != h and any(tg in blocks and tg != h for _lab, tg in body.edges(bi)):
            return None
        for s in blk["stmts"]:
            if s["k"] not in ("StorageLive", "StorageDead"):
                _locals_in(s, outside)
        _locals_in(blk["term"], outside)
    if outside & temps:
        return None
    return it, v, exit_bi, pu[0][1]["args"][0], unit_local


def collect_view(body):
    """A Body in which every item-collecting loop is the one call `extend(&mut vector, iterator)`; None if there is none."""
    from . import panic as PN
    j = None
    for h, blocks, _srcs in PN.loops_of(body):
        m = _match(body, h, blocks)
        if m is None:
            continue
        it, v, exit_bi, push_recv, unit_local = m
        if j is None:
            j = copy.deepcopy(body.j)
        rl = _bare(push_recv)
        j["locals"].append(copy.deepcopy(j["locals"][rl]))
        r_new = len(j["locals"]) - 1
        j["locals"].append(copy.deepcopy(j["locals"][unit_local]))
        u_new = len(j["locals"]) - 1
        span = body.blocks[h].get("tspan") or body.span
        res = {"path": "<std::vec::Vec<T, A> as std::iter::Extend<T>>::extend", "full": "<std::vec::Vec<T, A> as std::iter::Extend<T>>::extend (summary of an item-collecting loop)",
               "key": "alloc::vec::Vec::extend#loop-summary", "crate": "alloc", "local": False, "kind": "Item"}
        callee = {"path": "std::iter::Extend::extend", "full": res["full"], "key": res["key"], "crate": "core", "local": False, "targs": [], "fnargs": [], "resolved": res, "fwd": []}
        blk = j["blocks"][h]
        blk["stmts"] = [{"k": "Assign", "place": {"local": r_new, "proj": []}, "pty": j["locals"][rl]["ty"], "rv": {"k": "Ref", "mut": True, "place": {"local": v, "proj": []}}, "span": span}]
        blk["term"] = {"k": "Call", "func": {"k": "Const", "const": {"ty": "fn", "fn": copy.deepcopy(callee)}}, "fty": "fn", "callee": callee,
                       "args": [{"k": "Move", "place": {"local": r_new, "proj": []}}, {"k": "Move", "place": {"local": it, "proj": []}}],
                       "dest": {"local": u_new, "proj": []}, "target": exit_bi}
        blk["loop_summary"] = sorted(blocks)
    return Body(j, body.facts) if j is not None else None
