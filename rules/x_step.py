#!/usr/bin/env python3
"""One step of a per-element computation, and the storage cells it updates — independent of spelling.

A per-element computation is written as the closure handed to `fold`/`try_fold`/`for_each`, as the body of a `for` /
`while let` loop, or (after `inline.py` put private helpers and methods back at their call sites) as a mixture.  What a
rule about it needs is the same in every form: *the acyclic paths through one step*, each with the decisions it takes
(path-summary atoms), the calls it makes, and what it does to the state carried from one element to the next.

  * `StepWalker(body, start, region)` — `pathsum.Walker` confined to `region` (the blocks of one loop, or a whole closure
    body): a path ends at `Return`, when it comes back to the loop header (`p.truncated`, `p.blocks[-1] == start`: the
    next element) or when it leaves the region (`p.truncated`, `p.blocks[-1]` outside: the loop is left).  Atom
    expressions are recorded for every atom (`w.exprs`), not only for variant atoms.
  * cells — carried state that is updated in place lives in a local or in a field of a local struct, and is read and
    written through references held in temporaries (`&mut self` of an inlined method).  `cell_of(body, place)` resolves
    a place to `(root local, field path)` through those temporaries; `reads_cell` does the same for an operand that
    holds a copy of a cell; `cell_writes` lists the statements that store into a cell.  `Body.trace` cannot be used
    for this: it reads a field of a struct local off the aggregate that initialised it and does not see stores made
    through a reference.
"""
from . import pathsum
from .core import strip_refs


class StepWalker(pathsum.Walker):
    def __init__(self, body, start, region, known=None, max_paths=4000, env=None):
        self.b = body
        self.f = body.facts
        self.known = known
        self.max_paths = max_paths
        self.paths = []
        self.overflow = False
        self.exprs = {}
        self.start = start
        self.region = set(region)
        outside = set(range(len(body.blocks))) - self.region
        self._walk(start, dict(env or {}), {}, [], [], [], outside)

    def classify(self, e, t):
        out = pathsum.Walker.classify(self, e, t)
        x = strip_refs(e)
        while x[0] == "unop" and x[1] == "Not":
            x = strip_refs(x[2])
        if x[0] == "cast" and strip_refs(x[2])[0] in ("binop", "call", "const"):
            x = strip_refs(x[2])
        for (_tg, key, _val) in out:
            if key is not None and key not in self.exprs:
                self.exprs[key] = x
        return out

    def next_element(self, p):
        """The path ends by going on to the next element (back edge of the loop / normal return of the closure)."""
        return p.truncated and p.blocks[-1] == self.start

    def leaves(self, p):
        return p.truncated and p.blocks[-1] != self.start


# ---- cells ------------------------------------------------------------------------------------------------------

def _single_def(body, l):
    if body.is_arg(l):
        return None
    ds = []
    for d in body.defs().get(l, []):
        # a store through the reference a local holds (`(*l).f = …`, `*l = …`) does not define the local
        pl = body.blocks[d[1]]["stmts"][d[2]]["place"] if d[0] == "stmt" else d[2]["dest"]
        if pl["proj"] and pl["proj"][0]["k"] == "Deref":
            continue
        ds.append(d)
    full = [d for d in ds if not d[-1]]
    if len(ds) == 1 and len(full) == 1:
        return full[0]
    return None


def cell_of(body, place, follow_copies=False, depth=0):
    """(root local, (field indices…)) denoted by `place`; None when it is not a field path of a local (downcasts,
    indexing, a reference that is not held in a single-definition temporary).  With follow_copies a local that is a
    single-definition copy/move of another place stands for that place (used for *reads*)."""
    l = place["local"]
    proj = list(place["proj"])
    for _ in range(40):
        if proj and proj[0]["k"] == "Deref":
            d = _single_def(body, l)
            if d is None or d[0] != "stmt":
                return None
            rv = d[3]
            if rv["k"] in ("Ref", "RawPtr"):
                l, proj = rv["place"]["local"], list(rv["place"]["proj"]) + proj[1:]
                continue
            if rv["k"] == "CopyForDeref":
                l, proj = rv["place"]["local"], list(rv["place"]["proj"]) + proj
                continue
            if rv["k"] == "Use" and rv["op"]["k"] in ("Copy", "Move"):
                l, proj = rv["op"]["place"]["local"], list(rv["op"]["place"]["proj"]) + proj
                continue
            return None
        if follow_copies:
            d = _single_def(body, l)
            if d is not None and d[0] == "stmt" and d[3]["k"] == "Use" and d[3]["op"]["k"] in ("Copy", "Move"):
                l, proj = d[3]["op"]["place"]["local"], list(d[3]["op"]["place"]["proj"]) + proj
                continue
        break
    else:
        return None
    fields = []
    for pr in proj:
        if pr["k"] != "Field":
            return None
        fields.append(pr["i"])
    # a value that is moved as a whole from one single-definition local to the next is one cell: name it by the first
    for _ in range(20):
        d = _single_def(body, l)
        if d is not None and d[0] == "stmt" and d[3]["k"] == "Use" and d[3]["op"]["k"] in ("Copy", "Move") and not d[3]["op"]["place"]["proj"] \
                and not body.is_arg(d[3]["op"]["place"]["local"]) and _single_def(body, d[3]["op"]["place"]["local"]) is not None:
            l = d[3]["op"]["place"]["local"]
        else:
            break
    return (l, tuple(fields))


def reads_cell(body, operand):
    """The cell whose current content the operand holds (an operand that is a copy of a cell), or None."""
    if operand["k"] not in ("Copy", "Move"):
        return None
    return cell_of(body, operand["place"], follow_copies=True)


def overlaps(a, b):
    return a[0] == b[0] and (a[1][:len(b[1])] == b[1] or b[1][:len(a[1])] == a[1])


def cell_writes(body, cell, blocks=None):
    """[(bi, si, statement, written cell)] for the Assign statements storing into `cell`, a part of it or a struct
    containing it (si = None, statement = terminator for a call whose destination is the cell)."""
    out = []
    for bi in (sorted(blocks) if blocks is not None else body.reachable()):
        blk = body.blocks[bi]
        for si, st in enumerate(blk["stmts"]):
            if st["k"] != "Assign":
                continue
            c = cell_of(body, st["place"])
            if c is not None and overlaps(c, cell):
                out.append((bi, si, st, c))
        t = blk["term"]
        if t["k"] == "Call" and t.get("dest") is not None:
            c = cell_of(body, t["dest"])
            if c is not None and overlaps(c, cell):
                out.append((bi, None, t, c))
    return out


def initial_operand(body, cell):
    """The operand stored into `cell` where the enclosing local is first built (a plain assignment or the matching
    operand of the aggregate that initialises the struct), following whole-value moves; None if not readable."""
    l, fields = cell
    for _ in range(20):
        ds = [d for d in body.defs().get(l, []) if not d[-1]]
        if len(ds) != 1 or ds[0][0] != "stmt":
            return None
        rv = ds[0][3]
        if rv["k"] == "Use" and rv["op"]["k"] in ("Copy", "Move") and not rv["op"]["place"]["proj"] and fields:
            l = rv["op"]["place"]["local"]
            continue
        if rv["k"] == "Aggregate" and fields and len(fields) == 1 and fields[0] < len(rv["ops"]):
            return rv["ops"][fields[0]]
        if rv["k"] == "Use" and not fields:
            return rv["op"]
        return None
    return None
