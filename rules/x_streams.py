#!/usr/bin/env python3
"""Streams and append effects: what a vector is made of, independent of how the passes are spelled.

`for x in xs { out.push(f(x)) }`, `xs.iter().fold(Vec::new(), |mut a, x| { a.push(f(x)); a })`,
`xs.iter().for_each(|x| out.push(f(x)))`, `out.extend(xs.iter().map(f))` and `xs.iter().map(f).collect()` build the
same vector.  This module reads all of them into one *stream term*:

    ("operands",)               the operand list of the operator, in order
    ("members", v)              the elements of the Array payload of value v, in order
    ("one", v)                  the single value v
    ("empty",)
    ("seq", [term, …])          concatenation
    ("for", S, var, [alt, …])   for every element `var` of stream S, in order: one of the alternative terms (one per
                                path of the per-element code that is feasible under the assumed kinds)
    ("adapted", name, S)        S behind an iterator adaptor that drops / reorders elements (rev, skip, filter, …)
    ("exit", F)                 the pass F = ("for", …) is a loop that can be left before its stream is exhausted
    ("alt", [term, …])          one of several terms, depending on a condition that is not a kind of the operand
    ("other", expr)             a value that was read and is none of the above (a different vector, a phi, …)
    ("unknown", why)            not readable

Values are identified *up to clone and reference plumbing* (`ident`): an owned `Value` that comes from a `&Value` can
only have been made by `clone`/`to_owned` (the type checker guarantees it), so `x.clone()`, `(**x).clone()`,
`.cloned()` and `.to_vec()` are all "the value x".

The imperative forms are read from path summaries (rules/pathsum.py): the calls on each acyclic path that touch the
accumulator, with loops folded back into ("for", …) terms — a loop is a pass over the stream its `next()` is applied
to; the paths from `next() = Some` to the back edge are the alternatives of one iteration; a path that leaves the
loop with `next() = Some` is an early exit.  Private helper functions and closures are read context-sensitively
(parameters bound to the caller's expressions, kinds assumed by the caller carried into them).
"""
import re
from .core import strip_refs, expr_mentions, show_expr, callee_path
from . import pathsum

VALUE = "serde_json::Value"
# element-identity plumbing: the same elements in the same order (possibly cloned / re-collected)
PLUMB = {"iter", "into_iter", "iter_mut", "cloned", "copied", "by_ref", "as_slice", "as_mut_slice", "to_vec", "to_owned", "into_vec",
         "into_boxed_slice", "as_ref", "borrow", "deref", "deref_mut", "collect", "from_iter", "clone", "peekable", "fuse", "from", "into"}
ADAPT = {"rev", "skip", "take", "filter", "step_by", "skip_while", "take_while", "filter_map", "dedup", "chunks", "windows", "cycle", "last", "nth"}
EMPTY_CTORS = re.compile(r"^std::vec::Vec::<T>::new$|^std::vec::Vec::<T>::with_capacity$|^std::vec::Vec::<T, A>::with_capacity_in$|^std::iter::empty$|^<std::vec::Vec<T> as std::default::Default>::default$")
ELEM_CLONES = re.compile(r"^<serde_json::Value as std::clone::Clone>::clone$|to_owned$|^<T as std::clone::Clone>::clone$|^<&T as std::clone::Clone>::clone$|^<std::boxed::Box<T>>::new$")
HARMLESS = {"len", "capacity", "reserve", "reserve_exact", "is_empty", "shrink_to_fit", "as_slice", "iter", "deref", "as_ptr", "deref_mut", "as_mut_slice"}


def place(e):
    """The place an expression denotes: references, reborrows and transparent views peeled at every level of a field
    path (`&mut (*self).members` and `self.members` are the same place)."""
    e = strip_refs(e)
    if e[0] == "field" and e[1][0] != "downcast":
        return ("field", place(e[1]), e[2])
    return e


def place_root(pl):
    """The owner of a place: what is left when the field path is peeled off."""
    while pl[0] == "field" and pl[1][0] != "downcast":
        pl = pl[1]
    return pl


def place_rebase(pl, prefix, new):
    """`pl` with its prefix `prefix` replaced by `new`, or None when `prefix` is not a prefix of `pl`."""
    if pl == prefix:
        return new
    if pl[0] == "field" and pl[1][0] != "downcast":
        b = place_rebase(pl[1], prefix, new)
        return None if b is None else ("field", b, pl[2])
    return None


class Reader:
    def __init__(self, facts, body, operand_param, kind=None, value_adt=VALUE):
        self.facts = facts
        self.body = body
        self.operand_param = operand_param
        self.kind = kind
        self.value_adt = value_adt
        self.operand_syms = set()
        self.nsym = 0
        self.notes = []
        self.depth = 0
        self.reading = []

    # ---- values ---------------------------------------------------------------------------------------------------
    def ident(self, e):
        """The value an expression denotes, up to references and clones."""
        while True:
            e = strip_refs(e)
            if e[0] == "call" and e[1] and not e[1].get("local") and e[2] and ELEM_CLONES.search(e[1]["path"]):
                e = e[2][0]
                continue
            if e[0] == "field" and e[2] == 0 and e[1][0] == "downcast" and e[1][2] == "Some":
                src = strip_refs(e[1][1])
                if src[0] == "call" and src[1] and src[1]["path"].endswith("::next"):
                    return ("elem", src[3])
            if e[0] == "agg" and e[1].get("variant") == "Some" and len(e[2]) == 1:
                # `Some(v)` that was immediately taken apart again
                return e
            return e

    def is_operand(self, v):
        return isinstance(v, tuple) and len(v) == 2 and v[0] in ("sym", "elem") and v in self.operand_syms

    def fresh(self, what):
        self.nsym += 1
        return ("sym", "%s%d" % (what, self.nsym))

    def known(self, pe, adt):
        if adt == self.value_adt and self.kind is not None and self.is_operand(self.ident(pe)):
            return self.kind
        # an Option/Result produced by a private helper: under the assumed kinds the helper may have one answer only
        x = strip_refs(pe)
        if x[0] == "call" and x[1] and x[1].get("path", "").endswith("as std::ops::Try>::branch") and x[2]:
            # `helper(..)?`: Continue / Break as the helper answers Ok / Err under the assumed kinds
            inner = strip_refs(x[2][0])
            if inner[0] == "call" and inner[1] and inner[1].get("local"):
                v = self.known(inner, "std::result::Result")
                return {"Ok": "Continue", "Some": "Continue", "Err": "Break", "None": "Break"}.get(v)
            return None
        if x[0] == "call" and x[1] and x[1].get("local") and adt in ("std::option::Option", "std::result::Result"):
            res = self.call_results(x, x[2])
            if res:
                vs = set()
                for r in res:
                    r = strip_refs(r)
                    if r[0] == "agg" and r[1].get("variant"):
                        vs.add(r[1]["variant"])
                    else:
                        return None
                if len(vs) == 1:
                    return vs.pop()
        return None

    def show(self, t):
        k = t[0]
        if k == "operands":
            return "the operand list"
        if k == "members":
            return "the elements of %s" % self.showv(t[1])
        if k == "one":
            return self.showv(t[1])
        if k == "empty":
            return "nothing"
        if k == "seq":
            return " ++ ".join(self.show(x) for x in t[1]) or "nothing"
        if k == "for":
            return "for each %s of %s: %s" % (self.showv(t[2]), self.show(t[1]), " | ".join(sorted({self.show(a) for a in t[3]})))
        if k == "adapted":
            return "%s(%s)" % (t[1], self.show(t[2]))
        if k == "exit":
            return "a pass that can stop early (%s)" % self.show(t[1])
        if k == "alt":
            return " | ".join(self.show(a) for a in t[1])
        if k == "other":
            return show_expr(t[1])[:80]
        return "?(%s)" % (t[1],)

    def showv(self, v):
        if self.is_operand(v):
            return "the operand"
        if v[0] in ("sym", "elem"):
            return "%s" % (v[1],) if v[0] == "sym" else "element@bb%s" % v[1]
        return show_expr(v)[:60]

    # ---- helpers and closures -------------------------------------------------------------------------------------
    def callee_body(self, fexpr):
        """(body, env builder) for a closure value / fn item / local call target."""
        f = strip_refs(fexpr)
        if f[0] == "agg" and f[1].get("closure"):
            cb = self.facts.body(f[1]["closure"])
            if cb is None:
                return None
            self_ = ("ref", f) if str(cb.local_ty(1) or "").startswith("&") else f
            return cb, (lambda args, _f=self_: dict([(1, _f)] + [(2 + i, a) for i, a in enumerate(args)]))
        if f[0] == "const" and "fn" in f[1]:
            fn = f[1]["fn"].get("resolved") or f[1]["fn"]
            fb = self.facts.body(fn.get("key")) if fn.get("local", True) and fn.get("key") else None
            if fb is None:
                return None
            return fb, (lambda args: dict((1 + i, a) for i, a in enumerate(args)))
        return None

    def paths_of(self, body, env):
        if self.depth > 6 or body.key in self.reading:
            return None         # a helper that is read while it is being read: recursion is not read (the caller reports it)
        self.depth += 1
        self.reading.append(body.key)
        try:
            w = pathsum.summarize(body, known=self.known, env=env, max_paths=800)
        finally:
            self.depth -= 1
            self.reading.pop()
        if w.overflow or not w.paths:
            return None
        return w

    def call_results(self, call, args):
        """Result expressions of a private helper called with `args` (every complete path), or None."""
        c = call[1]
        fb = self.facts.body(c.get("key")) if c and c.get("local") else None
        if fb is None:
            return None
        w = self.paths_of(fb, dict((1 + i, a) for i, a in enumerate(args)))
        if w is None or any(p.truncated for p in w.paths):
            return None
        return [p.result for p in w.paths]

    def apply(self, fexpr, args):
        """Result expressions of applying a closure / fn item, or None."""
        cb = self.callee_body(fexpr)
        if cb is None:
            return None
        w = self.paths_of(cb[0], cb[1](args))
        if w is None or any(p.truncated for p in w.paths):
            return None
        return [p.result for p in w.paths]

    # ---- streams --------------------------------------------------------------------------------------------------
    def bind_element(self, S, what="x"):
        var = self.fresh(what)
        if S == ("operands",):
            self.operand_syms.add(var)
        return var

    def stream(self, e, acc=None):
        x = e
        for _ in range(60):
            x = strip_refs(x)
            if x[0] == "agg" and x[1].get("agg") == "Adt" and x[1].get("variant") in ("Some", "Ok") and len(x[2]) == 1:
                x = x[2][0]
                continue
            if x[0] == "field" and x[2] == 0 and x[1][0] == "downcast" and x[1][2] in ("Some", "Ok"):
                # the payload of an Option/Result handed back by a private helper
                src = strip_refs(x[1][1])
                if src[0] == "call" and src[1] and src[1].get("local"):
                    res = self.call_results(src, src[2])
                    if res:
                        outs = []
                        for r in res:
                            r = strip_refs(r)
                            if r[0] == "agg" and r[1].get("variant") == x[1][2] and len(r[2]) == 1:
                                outs.append(self.norm(self.stream(r[2][0])))
                        if outs and all(o == outs[0] for o in outs):
                            return outs[0]
                        if outs:
                            return ("alt", [o for i, o in enumerate(outs) if o not in outs[:i]])
                return ("unknown", "payload of %s" % show_expr(src)[:60])
            if x[0] != "call" or not x[1]:
                break
            c = x[1]
            if c.get("local"):
                res = self.call_results(x, x[2])
                if not res:
                    return ("unknown", "helper %s" % c.get("key"))
                outs = []
                for r in res:
                    o = self.norm(self.stream(r))
                    if o not in outs:
                        outs.append(o)
                return outs[0] if len(outs) == 1 else ("alt", outs)
            path = c["path"]
            last = path.rsplit("::", 1)[-1]
            if EMPTY_CTORS.search(path):
                return ("empty",)
            if last in ("from_ref", "once") and x[2]:
                return ("one", self.ident(x[2][0]))
            if last in ("flat_map", "map") and len(x[2]) == 2:
                S = self.norm(self.stream(x[2][0]))
                var = self.bind_element(S)
                res = self.apply(x[2][1], [var])
                if res is None:
                    return ("unknown", "function handed to %s" % last)
                alts = [self.norm(self.stream(r)) if last == "flat_map" else ("one", self.ident(r)) for r in res]
                return ("for", S, var, alts)
            if last == "fold" and len(x[2]) == 3:
                S = self.norm(self.stream(x[2][0]))
                seed = self.norm(self.stream(x[2][1]))
                var = self.bind_element(S)
                a = self.fresh("acc")
                cb = self.callee_body(x[2][2])
                if cb is None:
                    return ("unknown", "function handed to fold")
                alts = self.effects(cb[0], cb[1]([a, var]), a, returns_acc=True)
                return ("seq", [seed, ("for", S, var, alts)])
            if last == "chain" and len(x[2]) == 2:
                return ("seq", [self.stream(x[2][0]), self.stream(x[2][1])])
            if last in ADAPT:
                return ("adapted", last, self.norm(self.stream(x[2][0])) if x[2] else ("unknown", last))
            if last in PLUMB and x[2]:
                x = x[2][0]
                continue
            return ("unknown", "call of %s" % path)
        if x == ("arg", self.operand_param):
            return ("operands",)
        if x[0] == "field" and x[2] == 0 and x[1][0] == "downcast" and x[1][2] == "Array":
            return ("members", self.ident(x[1][1]))
        if x[0] == "agg" and x[1].get("agg") == "Array":
            return ("seq", [("one", self.ident(o)) for o in x[2]])
        if x[0] == "const" and re.match(r"^&?\[.*; 0\]$|^&\[.*\]$", str(x[1].get("ty", ""))) and not x[1].get("promoted"):
            return ("empty",) if "; 0]" in str(x[1].get("ty")) else ("unknown", "constant slice")
        if acc is not None and x == acc:
            return ("unknown", "the accumulator itself")
        return ("other", x)

    def norm(self, t):
        k = t[0]
        if k == "seq":
            out = []
            for y in t[1]:
                y = self.norm(y)
                if y[0] == "seq":
                    out.extend(y[1])
                elif y[0] != "empty":
                    out.append(y)
            if not out:
                return ("empty",)
            return out[0] if len(out) == 1 else ("seq", out)
        if k == "for":
            S = self.norm(t[1])
            alts = []
            for a0 in t[3]:
                a0 = self.norm(a0)
                for a in (a0[1] if a0[0] == "alt" else [a0]):
                    if a not in alts:
                        alts.append(a)
            if alts and all(a == ("one", t[2]) for a in alts):
                return S
            if alts and all(a == ("empty",) for a in alts):
                return ("empty",)
            if S == ("empty",):
                return ("empty",)
            return ("for", S, t[2], alts)
        if k == "adapted":
            return ("adapted", t[1], self.norm(t[2]))
        if k == "alt":
            outs = []
            for a in t[1]:
                a = self.norm(a)
                for b in (a[1] if a[0] == "alt" else [a]):
                    if b not in outs:
                        outs.append(b)
            return outs[0] if len(outs) == 1 else ("alt", outs)
        return t

    # ---- append effects -------------------------------------------------------------------------------------------
    def effects(self, body, env, acc, returns_acc=False):
        """Alternatives (one stream term per feasible path) of what the code of `body` appends to `acc`."""
        w = self.paths_of(body, env)
        if w is None:
            return [("unknown", "too many paths in %s" % body.key)]
        return self.fold_loops(body, w, acc, returns_acc)

    def _mentions(self, e, acc):
        """Does the expression mention the accumulator or the object that owns it (the accumulator may be a field of a
        private struct: `acc` is a place, its owner is what helpers are handed)."""
        root = place_root(acc)
        return expr_mentions(e, lambda y: y == acc or y == root)

    def event_items(self, body, ev, acc):
        c, args, bi = ev[1], ev[2], ev[3]
        if c is None:
            return [("unknown", "indirect call with the result")] if any(self._mentions(a, acc) for a in args) else []
        path = c["path"]
        last = path.rsplit("::", 1)[-1]
        recv = place(args[0]) if args else None
        if recv is not None and recv == acc and not c.get("local"):
            if last == "push" and len(args) == 2:
                return [("one", self.ident(args[1]))]
            if last in ("extend", "extend_from_slice", "append") and len(args) == 2:
                return [self.stream(args[1], acc)]
            if last in HARMLESS:
                return []
            return [("unknown", "%s applied to the result" % last)]
        if last in ("for_each", "fold") and not c.get("local") and len(args) >= 2 and self._mentions(args[-1], acc):
            S = self.norm(self.stream(args[0]))
            var = self.bind_element(S)
            cb = self.callee_body(args[-1])
            if cb is None or last != "for_each":
                return [("unknown", "function handed to %s" % last)]
            return [("for", S, var, self.effects(cb[0], cb[1]([var]), acc))]
        if any(self._mentions(a, acc) for a in args):
            if c.get("local"):
                fb = self.facts.body(c.get("key"))
                if fb is not None:
                    # the helper is handed the accumulator, or the object that owns it (any prefix of its place)
                    a_ = self.fresh("acc")
                    hit = [(i, place_rebase(acc, place(a), a_)) for i, a in enumerate(args)]
                    hit = [(i, pl) for (i, pl) in hit if pl is not None]
                    if len(hit) == 1:
                        env = dict((1 + i, (a_ if i == hit[0][0] else a)) for i, a in enumerate(args))
                        alts = self.effects(fb, env, hit[0][1])
                        return [alts[0]] if len(alts) == 1 else [("unknown", "helper %s appends different things" % c.get("key"))]
            if last in HARMLESS or last in ("drop",):
                return []
            return [("unknown", "%s is handed the result" % last)]
        return []

    def fold_loops(self, body, w, acc, returns_acc=False):
        from . import panic as PN
        loops = PN.loops_of(body)
        header_of = {}
        for (h, bl, srcs) in loops:
            for bi in bl:
                t = body.blocks[bi]["term"]
                if t["k"] == "Call" and (callee_path(t) or "").endswith("::next"):
                    # innermost loop containing the site
                    if bi not in header_of or len(bl) < header_of[bi][1]:
                        header_of[bi] = (h, len(bl))
        infos = []
        for p in w.paths:
            marks = []
            for i, ev in enumerate(p.events):
                if ev[3] in header_of and ev[1] is not None:
                    key = ("variant", pathsum.canon(strip_refs(("call", ev[1], ev[2], ev[3]))))
                    marks.append((i, ev[3], p.atoms.get(key)))
            infos.append((p, marks))
        iter_alts = {}      # next site -> [(items, early_exit)]

        def items_from(p, marks, start):
            out = []
            for i in range(start, len(p.events)):
                ev = p.events[i]
                m = [mk for mk in marks if mk[0] == i]
                if m:
                    _, site, val = m[0]
                    if val == "None":
                        out.append(("loop", site, ev[2][0]))
                    elif val != "Some":
                        out.append(("unknown", "iterator result at bb%d not decided" % site))
                    continue
                out.extend(self.event_items(body, ev, acc))
            return out
        tops = []
        for p, marks in infos:
            somes = [mk for mk in marks if mk[2] == "Some"]
            if somes:
                i, site, _ = somes[-1]
                h = header_of[site][0]
                early = not (p.truncated and p.blocks and p.blocks[-1] == h)
                iter_alts.setdefault(site, []).append((items_from(p, marks, i + 1), early))
            else:
                if p.truncated:
                    tops.append([("unknown", "a loop without an iterator")])
                    continue
                items = items_from(p, marks, 0)
                if returns_acc and strip_refs(p.result) != acc:
                    items.append(("unknown", "the closure returns %s, not its accumulator" % show_expr(p.result)[:40]))
                tops.append(items)

        def resolve(items, seen=()):
            out = []
            for it in items:
                if it[0] != "loop":
                    out.append(it)
                    continue
                site = it[1]
                S = self.norm(self.stream(it[2]))
                var = ("elem", site)
                if S == ("operands",):
                    self.operand_syms.add(var)
                if site in seen:
                    out.append(("unknown", "loop nesting"))
                    continue
                alts = []
                early = False
                for (its, e) in iter_alts.get(site, []):
                    alts.append(("seq", resolve(its, seen + (site,))))
                    early = early or e
                t = ("for", S, var, alts)
                out.append(("exit", t) if early else t)
            return out
        res = []
        for items in tops:
            t = self.norm(("seq", resolve(items)))
            if t not in res:
                res.append(t)
        return res


def find(t, kind):
    """All sub-terms of a given kind."""
    out = []
    if not isinstance(t, tuple):
        return out
    if t[0] == kind:
        out.append(t)
    if t[0] == "seq":
        for y in t[1]:
            out.extend(find(y, kind))
    elif t[0] == "for":
        out.extend(find(t[1], kind))
        for a in t[3]:
            out.extend(find(a, kind))
    elif t[0] in ("adapted",):
        out.extend(find(t[2], kind))
    elif t[0] == "exit":
        out.extend(find(t[1], kind))
    elif t[0] == "alt":
        for a in t[1]:
            out.extend(find(a, kind))
    return out


def read_vector(facts, body, operand_param, kind=None):
    """The stream terms (one per feasible path) of the vector that `body` returns inside `Ok(Value::Array(..))`,
    for operands of the given kind.  → (Reader, [term])"""
    R = Reader(facts, body, operand_param, kind)
    # kinds can only be assumed once the operand pass is known: loops announce their element symbols first
    from . import panic as PN
    for (h, bl, srcs) in PN.loops_of(body):
        for bi in sorted(bl):
            t = body.blocks[bi]["term"]
            if t["k"] == "Call" and (callee_path(t) or "").endswith("::next"):
                S = R.norm(R.stream(body.trace(t["args"][0])))
                if S == ("operands",):
                    R.operand_syms.add(("elem", bi))
    w = R.paths_of(body, {})
    if w is None:
        return R, [("unknown", "too many paths")]
    out = []
    complete = [p for p in w.paths if not p.truncated]
    accs = []

    def unwrap(r, depth=0):
        """The vector inside `Ok(Value::Array(..))`, through private helpers that wrap it up (`acc.into_value()`)."""
        r = strip_refs(r)
        if depth < 6 and r[0] == "agg" and r[1].get("variant") in ("Ok", "Array") and len(r[2]) == 1:
            return unwrap(r[2][0], depth + 1)
        if depth < 6 and r[0] == "call" and r[1] and r[1].get("local") and R.facts.body(r[1].get("key")) is not None:
            res = R.call_results(r, r[2])
            if res:
                inner = [strip_refs(x) for x in res]
                if all(x[0] == "agg" and x[1].get("variant") in ("Ok", "Array") and len(x[2]) == 1 for x in inner):
                    return [v for x in inner for v in unwrap(x, depth + 1)]
        return [r]

    def fresh_empty(pl):
        """Is the place an accumulator that starts out empty: an empty-vector constructor, or a field path into an
        object made by a private constructor all of whose results hold an empty vector there."""
        root = place_root(pl)
        if not (root[0] == "call" and root[1]):
            return False
        if EMPTY_CTORS.search(root[1].get("path", "")):
            return pl == root
        if not root[1].get("local") or pl == root:
            return False
        res = R.call_results(root, root[2])
        if not res:
            return False
        for x in res:
            v = place_rebase(pl, root, strip_refs(x))
            # project the field path out of the aggregate the constructor returns
            def proj(e):
                if e[0] == "field" and e[1][0] != "downcast":
                    b = proj(e[1])
                    b = strip_refs(b) if b is not None else None
                    if b is not None and b[0] == "agg" and b[1].get("agg") == "Adt" and e[2] < len(b[2]):
                        return b[2][e[2]]
                    return None
                return e
            v = proj(v)
            if v is None or R.norm(R.stream(v)) != ("empty",):
                return False
        return True

    for p in complete:
        for r in unwrap(p.result):
            pl = place(r)
            if fresh_empty(pl):
                if pl not in accs:
                    accs.append(pl)
            else:
                t = R.norm(R.stream(r))
                if t not in out:
                    out.append(t)
    for acc in accs:
        for t in R.fold_loops(body, w, acc):
            if t not in out:
                out.append(t)
    return R, out
