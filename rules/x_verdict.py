#!/usr/bin/env python3
"""A truthiness verdict belongs to the element it was taken for.

`all` / `some` / `none` (and `filter`) decide element by element.  Positive evidence that a verdict taken for one element
can stand in for another: in the operator's code (its function, closures and private helpers, not through the
interpreter) the result of the shared truthiness function is *written through a reference* — into a field of a struct
the step receives as `&mut self`, into a captured `&mut` cache — i.e. into storage that survives the element's step
and from which it can be handed out again.  A local result variable, a fold accumulator or a loop-carried flag is a
plain local assignment (no write through a reference) and is not this.  (Seeded C14-O, C14-Q: a `Predicate` that
keeps the first verdict when the predicate "does not read the element" — judged by a syntactic scan that overlooks
`missing`.)  Decided on def-use facts of the MIR: which statements assign a value derived from a truthiness call to a
place whose projection starts with a dereference.
"""
import re
from .core import callee_of, strip_refs, expr_mentions
from .roles import Roles
from .opfacts import Unit


def _places(o):
    if isinstance(o, dict):
        if "place" in o and isinstance(o["place"], dict) and "local" in o["place"]:
            yield o["place"]
        for v in o.values():
            for p_ in _places(v):
                yield p_
    elif isinstance(o, list):
        for v in o:
            for p_ in _places(v):
                yield p_


def _reads_back(bb, base, pre, at):
    for bi, si, st in bb.stmts():
        if (bi, si) == at or st["k"] != "Assign":
            continue
        for pl in _places(st["rv"]):
            if pl["local"] == base and [str(x) for x in (pl.get("proj") or [])[:2]] == pre:
                return True
    for bi in bb.reachable():
        t = bb.blocks[bi]["term"]
        for pl in _places({k: v for k, v in t.items() if k in ("discr", "args", "func", "cond")}):
            if pl["local"] == base and [str(x) for x in (pl.get("proj") or [])[:2]] == pre:
                return True
    return False


def per_element(ctx, facts, cfg, ops=("all", "some", "none"), clause="K6.verdict-per-element"):
    from .c06 import truthy_role, forwarders
    roles = Roles(facts)
    truthy = truthy_role(roles)
    tkeys = {truthy.key} | forwarders(roles, truthy)
    for name in ops:
        b, e = roles.fn_of(name)
        u = Unit(roles, b.key, extended=True, stop=sorted(tkeys))
        hits = []
        for bb in u.bodies:
            for bi, si, st in bb.stmts():
                if st["k"] != "Assign":
                    continue
                proj = st["place"].get("proj") or []
                if not proj or not (proj[0] == "Deref" or (isinstance(proj[0], dict) and proj[0].get("k") == "Deref") or str(proj[0]).startswith("Deref")):
                    continue
                rv = st["rv"]
                ops_ = []
                for kk in ("op", "a", "b"):
                    if isinstance(rv.get(kk), dict):
                        ops_.append(rv[kk])
                ops_ += [o for o in rv.get("ops", []) if isinstance(o, dict)]
                for o in ops_:
                    ex = bb.trace(o)
                    if expr_mentions(ex, lambda y: y[0] == "call" and y[1] is not None and y[1].get("key") in tkeys):
                        # … and the same code reads that storage back (the stored verdict is handed out again): a flag that
                        # is only written here and read once after the walk (a captured `found`) is a loop-carried result
                        base, pre = st["place"]["local"], [str(x) for x in proj[:2]]
                        if _reads_back(bb, base, pre, (bi, si)):
                            hits.append((bb, bi, si))
                        break
        for bb, bi, si in hits:
            ctx.fail(clause, "%s|%s" % (name, bb.key.split("::", 1)[1]), "%s stores a truthiness verdict in state that survives the element's step (a write through a reference in %s): the verdict taken for one element can be handed out for another" % (name, bb.key.split("::", 1)[1]), where=bb.where(bi, si), fn=bb.key)
        if not hits:
            ctx.ok(clause, "%s: no truthiness verdict is written through a reference (%s, %d bodies)" % (name, cfg, len(u.bodies)), nontrivial=True)
