#!/usr/bin/env python3
"""Compose behaviour-preserving edits: apply as many of mutants/preserving/*.diff as fit together
(greedy, in a seeded random order) to a scratch copy of /repo, make sure the composite still compiles
(default + cmdline + python) and passes the unedited suite, and store it as
mutants/preserving/Q<seed>.diff so that every kill-matrix run replays it (expected: all 19 checks quiet).

  compose_preserving.py SEED [SEED…]
"""
import os, random, shutil, subprocess, sys, tempfile

VERIF = os.path.dirname(os.path.dirname(os.path.abspath(__file__)))
PD = os.path.join(VERIF, "mutants", "preserving")


def sh(cmd, cwd):
    r = subprocess.run(cmd, cwd=cwd, shell=True, executable="/bin/bash", capture_output=True, text=True)
    return r.returncode, r.stdout + r.stderr


def main():
    for seed in sys.argv[1:]:
        rnd = random.Random(int(seed))
        ps = sorted(f for f in os.listdir(PD) if f.endswith(".diff") and f.startswith("P"))
        rnd.shuffle(ps)
        tmp = tempfile.mkdtemp(prefix="jlcomp-")
        repo = os.path.join(tmp, "repo")
        try:
            subprocess.check_call(["rsync", "-a", "--exclude", ".git", "/repo/", repo + "/"])
            sh("git init -q && git add -A src py Cargo.toml Cargo.lock setup.py && git -c user.email=a@b -c user.name=x commit -qm base", repo)
            used = []
            for p in ps:
                rc, out = sh("patch -p1 -s --dry-run -F0 -i %s" % os.path.join(PD, p), repo)
                if rc != 0:
                    continue
                sh("patch -p1 -s -F0 --no-backup-if-mismatch -i %s" % os.path.join(PD, p), repo)
                rc, out = sh("cargo check --offline --features cmdline 2>&1 | grep -E '^error' | head -3", repo)
                if out.strip():
                    sh("patch -p1 -s -R -F0 --no-backup-if-mismatch -i %s" % os.path.join(PD, p), repo)
                    continue
                used.append(p[:-5])
            rc, out = sh("cargo check --offline --features python 2>&1 | grep -E '^error' | head; cargo test --workspace --no-fail-fast --offline 2>&1 | grep -E '^test result|FAILED|^error'", repo)
            ok = out.count("test result: ok") >= 4 and "FAILED" not in out and "error" not in out
            print("seed %s: %d edits composed (%s); suite ok: %s" % (seed, len(used), " ".join(used), ok))
            if not ok:
                print(out)
                continue
            rc, diff = sh("git diff", repo)
            open(os.path.join(PD, "Q%s.diff" % seed), "w").write(diff)
            open(os.path.join(PD, "Q%s.txt" % seed), "w").write("composite of: " + " ".join(used) + "\n")
        finally:
            shutil.rmtree(tmp, ignore_errors=True)


if __name__ == "__main__":
    main()
