#!/usr/bin/env python3
"""Confirm a seeded change independently and file it under /verif/seeded/<name>/.

  confirm_seed.py <PROP> <LETTER> <dir-with-agent-output>

In a scratch worktree of /repo's HEAD (outside /repo and /verif, removed at the
end): apply the diff, build all feature sets, run the existing suite (must
pass), run the demonstration (must fail); revert; run the demonstration (must
pass).  Only then is seeded/<PROP>-<LETTER>/ {patch.diff, demo.*, meta.json,
notes.md} written."""
import json, os, shutil, subprocess, sys, time

VERIF = os.path.dirname(os.path.dirname(os.path.abspath(__file__)))
WT = os.environ.get("JL_CONFIRM_WT", "/tmp/jl-confirm-wt")


def sh(cmd, cwd, timeout=1800):
    r = subprocess.run(cmd, cwd=cwd, shell=True, executable="/bin/bash", capture_output=True, text=True, timeout=timeout)
    return r.returncode, (r.stdout + r.stderr)


def run_demo(demo, wt):
    name = os.path.basename(demo)
    if name.endswith(".rs"):
        tname = "seed_demo"
        shutil.copy(demo, os.path.join(wt, "tests", tname + ".rs"))
        rc, out = sh("set -o pipefail; cargo test --offline --test %s 2>&1 | tail -40" % tname, wt)
        ok = rc == 0 and "test result: ok" in out and "FAILED" not in out
        os.remove(os.path.join(wt, "tests", tname + ".rs"))
        return ok, out
    if name.endswith(".sh"):
        shutil.copy(demo, os.path.join(wt, name))
        rc, out = sh("set -o pipefail; bash %s 2>&1 | tail -40" % name, wt)
        os.remove(os.path.join(wt, name))
        return rc == 0, out
    if name.endswith(".py"):
        shutil.copy(demo, os.path.join(wt, name))
        rc, out = sh("set -o pipefail; python3 %s 2>&1 | tail -40" % name, wt)
        os.remove(os.path.join(wt, name))
        return rc == 0, out
    raise SystemExit("unknown demo kind " + name)


def main():
    prop, letter, src = sys.argv[1], sys.argv[2], sys.argv[3]
    diff = os.path.join(src, letter + ".diff")
    demos = [f for f in os.listdir(src) if f.startswith(letter + "_demo")]
    assert demos, "no demo"
    demo = os.path.join(src, demos[0])
    if not os.path.exists(WT):
        subprocess.check_call(["git", "-C", "/repo", "worktree", "add", "--detach", WT, "HEAD", "-q"])
        subprocess.check_call(["cp", "-r", "/repo/target", WT + "/target"])
    else:
        sh("git checkout -q --detach $(git -C /repo rev-parse HEAD) && git checkout -- . && git clean -fdq -e target", WT)
    log = {}
    rc, out = sh("git apply --check %s && git apply %s" % (diff, diff), WT)
    if rc != 0:
        # try 3-way / fuzz for patches made before the fix: commits
        rc, out = sh("patch -p1 --no-backup-if-mismatch -i %s" % diff, WT)
        if rc != 0:
            print("PATCH DOES NOT APPLY to current HEAD:\n" + out[-1500:])
            sh("git checkout -- . && git clean -fdq -e target", WT)
            return 3
        sh("find . -name '*.orig' -not -path './target/*' -delete", WT)
    rc, newdiff = sh("git diff", WT)
    rc1, o1 = sh("cargo check --offline 2>&1 | tail -3 && cargo check --offline --features cmdline 2>&1 | tail -3", WT)
    log["check"] = o1[-400:]
    rc2, o2 = sh("cargo test --workspace --no-fail-fast --offline 2>&1 | grep -E '^test result|FAILED|panicked|^error' ", WT)
    suite_ok = "FAILED" not in o2 and "error" not in o2 and o2.count("test result: ok") >= 4
    log["suite_with_change"] = o2[-600:]
    d_ok_with, o3 = run_demo(demo, WT)
    log["demo_with_change"] = o3[-1200:]
    sh("git checkout -- . && git clean -fdq -e target", WT)
    d_ok_without, o4 = run_demo(demo, WT)
    log["demo_without_change"] = o4[-600:]
    print("suite passes with change: %s | demo with change passes: %s (want False) | demo on clean tree passes: %s (want True)" % (suite_ok, d_ok_with, d_ok_without))
    if not (suite_ok and not d_ok_with and d_ok_without):
        print(json.dumps(log, indent=1)[-3000:])
        return 1
    dst = os.path.join(VERIF, "seeded", "%s-%s" % (prop, letter))
    os.makedirs(dst, exist_ok=True)
    open(os.path.join(dst, "patch.diff"), "w").write(newdiff)
    shutil.copy(demo, os.path.join(dst, "demo" + os.path.splitext(demo)[1]))
    md = os.path.join(src, letter + ".md")
    notes = open(md).read() if os.path.exists(md) else ""
    open(os.path.join(dst, "notes.md"), "w").write(notes)
    head = subprocess.check_output(["git", "-C", "/repo", "rev-parse", "--short", "HEAD"], text=True).strip()
    meta = {
        "breaks_property": prop,
        "needs_to_manifest": notes.strip().split("\n\n")[-1][:600] if notes else "see notes.md",
        "author": "independent sub-agent given only the property text and a scratch worktree",
        "confirmed_against_repo_commit": head,
        "what_was_run": [
            "git apply patch.diff in a scratch worktree of /repo HEAD (outside /repo and /verif)",
            "cargo check --offline; cargo check --offline --features cmdline  → compile",
            "cargo test --workspace --no-fail-fast --offline  → existing suite passes with the change",
            "demonstration (tests/seed_demo.rs via cargo test --offline --test seed_demo, or the shell script) → FAILS with the change",
            "git checkout -- . ; demonstration → PASSES on the clean tree",
        ],
        "logs": log,
        "confirmed_at": time.strftime("%Y-%m-%dT%H:%M:%SZ", time.gmtime()),
    }
    json.dump(meta, open(os.path.join(dst, "meta.json"), "w"), indent=1)
    print("filed", dst)
    return 0


if __name__ == "__main__":
    sys.exit(main())
