"""Interactive helper: from tools.dbg import load; f, r = load('default')  (JL_REPO selects the tree)."""
import sys, os
sys.path.insert(0, os.path.dirname(os.path.dirname(os.path.abspath(__file__))))
from rules import extract as ex
from rules.core import Facts
from rules.roles import Roles


def load(cfg="default", profile="debug", crate="jsonlogic_rs", roles=True):
    files, digest = ex.extract(cfg, profile)
    f = Facts(files[crate])
    return (f, Roles(f)) if roles else (f, None)
