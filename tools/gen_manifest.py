#!/usr/bin/env python3
"""Generate MANIFEST.json from tools/manifest_src.py (single source of truth)."""
import json, os, sys
sys.path.insert(0, os.path.dirname(os.path.abspath(__file__)))
import manifest_src as M

checks = []
for pid, c in sorted(M.CHECKS.items()):
    checks.append({
        "property_id": pid,
        "quick_cmd": "./check %s --tier quick" % pid,
        "thorough_cmd": "./check %s --tier thorough" % pid,
        "evidence_file": "/verif/evidence/%s.json" % pid,
        "replay_cmd_template": "./check %s --replay {path}" % pid,
        "engine": "jlfacts+rules",
        "level_claimed": {"category": c["level"], "text": c["text"], "design_ref": c.get("design_ref", "DESIGN.md §4 " + pid)},
        "level_note": c["note"],
        "technique": c["technique"],
    })
na = [{"property_id": p, "reason": r} for p, r in sorted(M.NOT_APPLICABLE.items())]
doc = {
    "version": 1,
    "setup_cmd": M.SETUP,
    "hooks": {
        "guard": "bestowinc_json_logic_rs_verif",
        "enable": "none needed: the checks read the source (MIR facts); no instrumentation is compiled into /repo",
        "baseline_off_cmd": "cd /repo && cargo test --workspace --no-fail-fast --offline",
        "source_commits": [],
        "add_only": True,
    },
    "engines": M.ENGINES,
    "checks": checks,
    "notes": M.NOTES,
    "not_applicable": na,
}
json.dump(doc, open(os.path.join(os.path.dirname(os.path.dirname(os.path.abspath(__file__))), "MANIFEST.json"), "w"), indent=1)
print("claimed:", [c["property_id"] for c in checks])
print("not applicable:", [n["property_id"] for n in na])
