#!/usr/bin/env python3
"""E5 — run every check against every stored change (seeded/, mutants/regress/,
mutants/preserving/) on scratch copies of /repo outside /repo and /verif, and
record which checks fire.  Expectations:
  seeded/<P>-<X>, regress/F<n>   → at least the target property's check exits 1 with a VIOLATION line
  preserving/*                    → every check exits 0
Writes mutants/killmatrix.json and prints a table.  Exit 1 if an expectation fails.

  killmatrix.py [-j N] [--only NAME[,NAME…]] [--props C01,C02…]
"""
import json, os, shutil, subprocess, sys, tempfile, time
from concurrent.futures import ThreadPoolExecutor

VERIF = os.path.dirname(os.path.dirname(os.path.abspath(__file__)))
ALL = ["C%02d" % i for i in range(1, 20)]
REGRESS_TARGET = {"F1": ["C01"], "F2": ["C01"], "F3": ["C04", "C01", "C11"], "F4": ["C04", "C14"], "F5": ["C09"], "F6": ["C15"], "F7": ["C10"], "F8": ["C12"], "F9": ["C16"], "F10": ["C19"], "F11": ["C07", "C09", "C10"]}


# seeded changes whose site belongs to another property than the one the agent was given: the check of the
# property that owns the site is the one expected to fire (reason recorded in DESIGN.md §8)
ALT_TARGET = {"C06-D": ["C19"],   # given for C06; the Python wrapper replaces `data is None` by Python truthiness: a wrapper defect (C19 K1)
              "C02-I": ["C19", "C02"], "C08-I": ["C19", "C08"], "C11-I": ["C19", "C11"],   # changes in py/jsonlogic_rs/__init__.py (and the binding): the wrapper no longer only (de)serialises (C19 K1/K2)
              "C05-G": ["C18", "C05"],
              # round 5: changes whose site is the Python wrapper / binding (C19) or the command (C18)
              "C11-L": ["C19", "C11"], "C07-L": ["C19", "C07"], "C08-L": ["C19", "C08"], "C06-J": ["C19", "C06"], "C17-L": ["C19", "C17"],
              "C02-M": ["C19", "C02"],   # round 6: the Python wrapper caches the serialised rule by object identity (C19 K1: the wrapper only (de)serialises)
              "C16-L": ["C18", "C16"]}   # the command validates dead branches before evaluating: the command is no faithful wrapper any more (C18 K5)   # given for C06; the Python wrapper replaces `data is None` by Python truthiness: a wrapper defect (C19 K1)


def jobs():
    out = []
    sd = os.path.join(VERIF, "seeded")
    for d in sorted(os.listdir(sd)):
        p = os.path.join(sd, d, "patch.diff")
        if os.path.exists(p):
            out.append(("seeded/" + d, p, "break", ALT_TARGET.get(d, [d.split("-")[0]])))
    rd = os.path.join(VERIF, "mutants", "regress")
    for f in sorted(os.listdir(rd), key=lambda x: int(x[1:].split(".")[0])):
        n = f.split(".")[0]
        out.append(("regress/" + n, os.path.join(rd, f), "break", REGRESS_TARGET[n]))
    pd = os.path.join(VERIF, "mutants", "preserving")
    if os.path.isdir(pd):
        for f in sorted(os.listdir(pd)):
            if f.endswith(".diff"):
                out.append(("preserving/" + f[:-5], os.path.join(pd, f), "preserve", []))
    return out


def run_one(job, props, slot):
    name, patch, kind, targets = job
    tmp = tempfile.mkdtemp(prefix="jlkm-")
    repo = os.path.join(tmp, "repo")
    res = {"name": name, "kind": kind, "targets": targets, "results": {}}
    try:
        subprocess.check_call(["rsync", "-a", "--exclude", "target", "--exclude", ".git", "/repo/", repo + "/"])
        r = subprocess.run(["patch", "-p1", "-s", "--no-backup-if-mismatch", "-d", repo, "-i", patch], capture_output=True, text=True)
        if r.returncode != 0:
            res["error"] = "patch does not apply: " + (r.stdout + r.stderr)[-300:]
            return res
        env = dict(os.environ, JL_REPO=repo, JL_EVIDENCE_DIR=os.path.join(tmp, "evidence"), JL_CACHE=os.path.join(VERIF, ".cache", "km-w%d" % (slot + int(os.environ.get("KM_SLOT_BASE", "0")))))
        for p in props:
            t0 = time.time()
            r = subprocess.run([os.path.join(VERIF, "check"), p], env=env, capture_output=True, text=True, cwd=VERIF)
            lines = r.stdout.splitlines()
            viol = [l.strip() for l in lines if l.startswith("  ") and "|" in l and not l.startswith("    count")]
            res["results"][p] = {"exit": r.returncode, "violation_line": any(l.startswith("VIOLATION property=%s" % p) for l in lines),
                                 "clauses": sorted({v.split("  ")[2].split("|")[0] if len(v.split("  ")) > 2 else "?" for v in viol})[:8],
                                 "inconclusive": [l for l in lines if l.startswith("INCONCLUSIVE")][:1], "wall": round(time.time() - t0, 1)}
    finally:
        shutil.rmtree(tmp, ignore_errors=True)
    fired = [p for p, v in res["results"].items() if v["exit"] == 1]
    incon = [p for p, v in res["results"].items() if v["exit"] == 2]
    sys.stderr.write("done %-22s fired=%s inconclusive=%s %ds\n" % (name, ",".join(fired), ",".join(incon), sum(v["wall"] for v in res["results"].values())))
    sys.stderr.flush()
    return res


def main():
    a = sys.argv[1:]
    nj = 4
    only = None
    props = ALL
    extra = None
    kind = "preserve"
    i = 0
    while i < len(a):
        if a[i] == "-j":
            nj = int(a[i + 1]); i += 2
        elif a[i] == "--only":
            only = a[i + 1].split(","); i += 2
        elif a[i] == "--props":
            props = a[i + 1].split(","); i += 2
        elif a[i] == "--patch":      # ad-hoc: --patch FILE[,FILE…] --kind preserve | --kind C07  (nothing is recorded)
            extra = a[i + 1].split(","); i += 2
        elif a[i] == "--kind":
            kind = a[i + 1]; i += 2
        else:
            raise SystemExit("bad arg " + a[i])
    js = [j for j in jobs() if only is None or any(o in j[0] for o in only)]
    if extra:
        only = ["ad-hoc"]
        js = [("adhoc/" + os.path.basename(os.path.dirname(f)) + "-" + os.path.basename(f), f, "preserve" if kind == "preserve" else "break", [] if kind == "preserve" else kind.split("+")) for f in extra]
    slots = list(range(nj))
    results = []

    def work(args):
        idx, job = args
        return run_one(job, props, idx % nj)

    # one slot must never be used by two jobs at once: partition jobs by slot
    parts = [[(i, j) for i, j in enumerate(js) if i % nj == s] for s in range(nj)]

    def run_part(part):
        return [work(x) for x in part]

    with ThreadPoolExecutor(max_workers=nj) as ex:
        for out in ex.map(run_part, parts):
            results.extend(out)
    results.sort(key=lambda r: r["name"])
    bad = 0
    print("%-22s %-9s %-14s %s" % ("change", "expect", "target verdict", "checks that fire (exit 1)"))
    for r in results:
        if "error" in r:
            print("%-22s ERROR %s" % (r["name"], r["error"]))
            bad += 1
            continue
        fired = [p for p, v in r["results"].items() if v["exit"] == 1 and v["violation_line"]]
        incon = [p for p, v in r["results"].items() if v["exit"] == 2]
        if r["kind"] == "break":
            ok = any(t in fired for t in r["targets"] if t in r["results"]) or not any(t in r["results"] for t in r["targets"])
            verdict = "caught" if ok else "MISSED"
        else:
            ok = not fired and not incon
            verdict = "quiet" if ok else "FALSE ALARM"
        if not ok:
            bad += 1
        r["fired"] = fired
        r["inconclusive_checks"] = incon
        r["ok"] = ok
        print("%-22s %-9s %-14s %s%s" % (r["name"], r["kind"], verdict, ",".join(fired), ("   inconclusive: " + ",".join(incon)) if incon else ""))
    if os.environ.get("KM_JSON"):
        json.dump({"generated": time.strftime("%Y-%m-%dT%H:%M:%SZ", time.gmtime()), "props": props, "results": results}, open(os.environ["KM_JSON"], "w"), indent=1)
    if only is None and props == ALL:
        json.dump({"generated": time.strftime("%Y-%m-%dT%H:%M:%SZ", time.gmtime()), "repo_head": subprocess.check_output(["git", "-C", "/repo", "rev-parse", "--short", "HEAD"], text=True).strip(), "results": results},
                  open(os.path.join(VERIF, "mutants", "killmatrix.json"), "w"), indent=1)
    return 1 if bad else 0


if __name__ == "__main__":
    sys.exit(main())
