SETUP = "cd /verif/driver && cargo build --offline && cd /verif && python3 rules/extract.py default cmdline python"
NOTES = ("Static analysis only: a rustc_private driver (driver/, nightly) dumps type-checked MIR facts of /repo's current "
         "working tree for every feature set; a Python rule engine (rules/) decides each property's structural clauses. "
         "Exit 0 = held, 1 = VIOLATION, 2 = INCONCLUSIVE (an anchor role or idiom could not be read: never printed on the unchanged tree).")
ENGINES = [
    {"name": "jlfacts", "path": "driver/", "serves_properties": [], "kind_free_text": "rustc_private MIR fact extractor injected as RUSTC_WORKSPACE_WRAPPER under cargo +nightly check"},
    {"name": "rules", "path": "rules/", "serves_properties": [], "kind_free_text": "Python rule engine: CFG/dominators, def-use tracing, variant specialisation, call graph, operator-table reader"},
]
CHECKS = {
    "C03": {
        "level": "proof",
        "text": "Proof of the stated obligations from the source: the accepted operand-count set of each of the 35 table entries, derived by interval arithmetic from the per-variant comparison read out of the length predicate's MIR, equals the documented set for all n in N; the unary predicate agrees with `1 in set`; every Ok(Some) exit of the dispatcher is edge-dominated by the success edge of the length check on the returned vector's length; the unbracketed operand becomes exactly [x] under the unary-acceptance edge.",
        "note": "Trusted: rustc MIR construction, phf's generated hash lookup, the transcription of the statement into spec/operators.json, the recognised nightly expansion of vec![x]. Does not decide behaviour of operators beyond arity.",
        "technique": "MIR variant specialisation + interval arithmetic over the operator tables; edge-dominance in the dispatcher CFG",
    },
}
CHECKS["C02"] = {
    "level": "other",
    "text": "Decides, for all values and all paths of the dispatcher: the key set of the three operator tables equals the 35 documented names (disjoint, key==symbol, documented table kind, aliasing only for if/?:); every Ok(Some(operation)) exit is edge-dominated by the Object edge, a Map::len==1 edge and the lookup-hit edge, and the looked-up key is the object's first key verbatim (no transforming call on the chain); the literal parser is the last alternative, accepts unconditionally, evaluates to the stored reference and converts by clone/move only; the value parser is invoked only from enumerated roles and never on a computed value (interprocedural provenance).",
    "note": "Structural necessary conditions plus the identity path; trusted: rustc MIR, phf's key comparison, Value::clone being structural, spec/operators.json. Does not decide serde_json's own parsing of the rule text.",
    "technique": "operator-table reading from promoted MIR; edge-dominance in the dispatcher CFG; def-use chain whitelist; interprocedural may-provenance analysis",
}
CHECKS["C04"] = {
    "level": "other",
    "text": "May-provenance analysis over all paths and call sites: every parameter position that is interpreted as rule text (entry point, value parser, list parser, four parser impls, dispatcher; 29 call sites) receives only values whose provenance is rule text — never data or evaluation results; path-insensitively dirty sites are re-examined by case analysis on the operand kind. Eager and data table functions cannot reach the interpreter in the call graph; the operation evaluators evaluate each stored argument exactly once and return the operator's result unchanged.",
    "note": "Sound over-approximation w.r.t. the std adaptor transfer models listed in rules/prov.py; unknown calls default to the union of all argument tags. 'At most once per use' for lazy operators is covered by C05's clauses, not here.",
    "technique": "interprocedural flow-insensitive taint (provenance) analysis on MIR with variant case-splitting; call-graph reachability",
}
CHECKS["C01"] = {
    "level": "other",
    "text": "Exhaustive over the call graph from every externally visible entry point (Rust apply and the public js_op helpers, CLI main, Python binding; default/cmdline/python feature sets, debug profile = overflow and bounds checks on): each of the 64 panic sources per configuration (Assert terminators, panicky std calls per spec/api/panicky.tsv) is discharged by a dataflow justification — discriminant guard, always-Some constructor flow, arity interval for constant indices into the operand vector (refined along dominating length comparisons, through closures and forwarding functions), constant/value-set operands — or by one of four table lines with a reason; every external callee is classified; loops are bounded by finite std iterators; every call-graph cycle has a descent witness (evaluator cycle: parser only descends into rule text; helpers: structural descent or acyclic variant-transition graph); process-boundary facts for the CLI and the Python binding; serde_json's 128 recursion limit is kept.",
    "note": "Does not decide stack consumption of 128 nested evaluator frames (a code-generation quantity), panics inside dependency functions classified total by reading (spec/api/total.tsv, deps.tsv are the trusted base), or a closed stdout. An unclassified external callee is reported INCONCLUSIVE (exit 2), never passed.",
    "technique": "call-graph reachability + per-source justification dataflow on MIR (typestate, value sets, arity intervals, dominators); SCC descent witnesses",
}
CHECKS["C17"] = {
    "level": "other",
    "text": "Effect-freedom for every history and schedule, decided on the call graph of an evaluation (entry point + all table functions, through closures and the tables' indirect calls): no static mut / non-Freeze static / thread-local, no user-written unsafe, no raw-pointer cast or transmute, no call with I/O, time, environment, process, thread, synchronisation or randomness effects except exactly one stdout write in the function bound to `log` (outside loops, of operand 0, returning a clone of operand 0), no iteration over hash-ordered collections; plus type witnesses compiled against the current tree: apply coerces to for<'a,'b> fn(&Value,&Value)->Result<Value,E> with E: Send+Sync+'static, is Send+Sync+Copy, and the &mut twins are rejected with E0308.",
    "note": "Trusted: purity of dependency/std functions classified total; the path-prefix effect classification in rules/c17.py. The manifest claims `other` rather than `proof` because of that trusted base.",
    "technique": "effect analysis on the resolved call graph; item/type walks (Freeze, static mut, thread_local); compile-pass and compile-fail type witnesses",
}
CHECKS["C18"] = {
    "level": "other",
    "text": "All paths of the binary's main (cmdline feature): exactly one stdout write, outside loops, edge-dominated by the success edge of every fallible step that can precede it, followed by no fallible step, never on a failure edge; the format template decodes to `{}` + newline and its single Display argument is — through reference plumbing only — Value::to_string of the success payload of jsonlogic_rs::apply(rule, data), rule and data being the success payloads of serde_json::from_str::<Value> on the whole first-argument text and on the data text, in that order; the data text is the second argument unless absent (defaulted to \"-\") or equal to \"-\", exactly then stdin is read to the end; every failure edge returns the residual, nothing discards a Result, no process::exit; Cargo.toml requires feature cmdline for the binary.",
    "note": "Trusted: serde_json's serialiser/parser (valid JSON out, trailing text rejected), clap, the decoded format_args! template encoding of this toolchain. Broken pipes and non-UTF-8 argv are outside the property's quantifier.",
    "technique": "path rules on main's MIR CFG (edge dominance, reachability after removal of an edge), def-use provenance of the printed value and of apply's arguments, manifest facts",
}
CHECKS["C19"] = {
    "level": "other",
    "text": "All paths of the two wrapper functions (Python ast, definite-assignment dataflow): each optional callable is rebound to json.dumps / json.loads on every path before it is called; the native apply (imported as `apply` of `.jsonlogic`) is called exactly once with (serializer(value), serializer(data)) resp. (value, data if data is not None else \"null\") — order, `is None` test and the literal; the result of deserializer(native result) is returned; no try/except, loops, other calls; the ImportError shim re-raises off Windows. Native side (MIR, feature python): from_str::<Value> on each argument, apply(&rule,&data) in that order, Value::to_string of the Ok payload, the three errors converted and propagated with none discarded, Err mapped to PyErr::new::<ValueError,_> only, no panic source in the binding functions, exported as `apply` of module `jsonlogic`; setup.py builds jsonlogic_rs.jsonlogic with feature python.",
    "note": "Trusted: CPython semantics of the straight-line wrapper, rust-cpython glue, json.dumps/loads round-trips (library behaviour outside the repository). Panic-freedom of the library under the python configuration is C01.",
    "technique": "Python AST dataflow (definite assignment of defaults, argument-shape rules) + MIR def-use rules on the binding + setup.py AST facts",
}
CHECKS["C05"] = {
    "level": "other",
    "text": "Structural necessary conditions over all paths of the functions bound to if/?:/and/or: alias and lazy-table facts; no pre-pass (every parse and evaluation of an operand drawn from the operand list sits in per-element code — loop body or closure handed to the iterator consumer; no list parser, no mapped parser); the per-element code has a path without parse/evaluate (or the loop an early exit after an evaluation) and no path with more than one evaluation; and/or construct no JSON value and return an evaluation result, if constructs only null; truthiness through the shared table (C06).",
    "note": "Does not decide that conditions sit at even and branches at odd positions nor the polarity of the accumulator tests (value-level). Trusted: rustc MIR, the iterator-consumer list in rules/opfacts.py.",
    "technique": "CFG path rules (path existence avoiding call sites, longest-path call counting), per-element context classification, provenance tags, table facts",
}
CHECKS["C06"] = {
    "level": "other",
    "text": "Every deciding position (the ! and !! closures, if/?:, and, or, filter, all, some; none through some) calls the one truthiness function or a pure forwarder, uses the result, and calls no other JSON-value→bool function or serde_json type/number accessor; `!` is Not of the same call on operand 0 that `!!` returns; the table itself is decided per kind by variant specialisation: Null→const false, Object→const true, Bool→payload, Number→as_f64(payload) compared with 0.0 with zero⇒false (no integer accessor), String/Array→payload emptiness with empty⇒false, no iteration over elements, no recursion.",
    "note": "The polarity facts are read from the constants assigned under each edge of the comparison; IEEE -0.0 == 0.0 and Number::as_f64 are trusted.",
    "technique": "must-call / who-may-call rules on operator units; variant specialisation of the truthiness function with constant-under-edge polarity reading",
}
CHECKS["C13"] = {
    "level": "other",
    "text": "For map, filter and reduce: by variant specialisation over Evaluated::{New,Raw} × the six JSON kinds of the evaluated collection (36 cases) Array iterates the elements, Null iterates an empty vector, every other kind returns Err without reaching the iteration — identical in the three; the collection (and reduce's initial value) is parsed and evaluated exactly once against the outer data, outside the per-element code, the expression parsed once; the data of the per-element evaluation never carries outer-data provenance (interprocedural tags) — the element itself in map/filter, a map built in place with exactly the keys current ← element and accumulator ← running value in reduce; map is collect(map(..)), filter pushes the element itself only under the truthy edge of the shared truthiness of the predicate's value, reduce is a left fold seeded with the evaluated initial value; no reordering/filtering adaptor; nothing below the three operators parses a computed value.",
    "note": "Results on nested expressions are value-level and not decided. Trusted: std adaptor transfer models (rules/prov.py), C06 for the truthiness table.",
    "technique": "variant specialisation of operator units, interprocedural provenance tags at evaluation sites, def-use/dominance shape rules",
}
CHECKS["C14"] = {
    "level": "other",
    "text": "none calls some once with its own operands and maps Bool(b) to Bool(not b); collection normalisation decided by variant specialisation over (kind of the literal operand) × (kind an operation operand evaluates to): Array→elements, String→str::chars (no bytes/UTF-16/offset splitting anywhere in the helper reach), Null→nothing, other kinds→Err, only operation operands evaluated first, identical in all and some; a dominating length-zero test returns the constant false; every per-element predicate evaluation is under a short-circuiting consumer or in a closure with a success path that evaluates nothing, fold seeds true/false and the decided path returns false/true; only elements of the literal array are ever parsed (provenance, case split); verdicts through the shared truthiness.",
    "note": "Duality laws as value statements are not decided beyond these shapes. Trusted: std adaptor models, str::chars semantics, C06.",
    "technique": "exact-negation rule, two-level variant specialisation, path-existence rules on per-element closures, constant-under-edge reading, provenance",
}
CHECKS["C12"] = {
    "level": "other",
    "text": "The functions bound to var, missing and missing_some (with their helper functions) hand the data only to the one shared lookup (plus var's whole-data clone) and never branch on the data's kind; keys pass the same KeyType gate; absence is the lookup's Option discriminant. Per key, by specialisation on the key kind, a null key is neither looked up, pushed nor counted; every push onto the missing list is edge-dominated by the not-found edge and appends a clone of the key element (missing_some additionally guarded by !contains); the present count is a fold/counter whose +1 is edge-dominated by the found edge of the current key's lookup; missing_some's test is `present >= threshold` with the empty array on the true edge and the missing list on the false edge; missing takes the key list from operand 0's elements exactly on its Array edge.",
    "note": "Agreement of results on every data tree beyond the shared mechanism is value-level and not decided.",
    "technique": "provenance-based who-touches-the-data rule, variant specialisation of per-key code, edge-dominance typestate for counter and pushes, comparison-operator reading",
}
CHECKS["C11"] = {
    "level": "other",
    "text": "Structural necessary conditions of var's path resolution: both KeyType conversions have the same 6-kind matrix (Null→null key, String→string key, Number→as_i64 or Err, others Err); all positional access inside the lookup's reach goes through the one negative-index helper (which measures and reads the same slice, checked_sub on the negative branch), strings only as Vec<char> from chars() — no byte-based string operation, no direct indexing, no scan over map entries anywhere in the lookup; var returns lookup.unwrap_or[_else](default) with default ∈ {null, clone of operand 1} and never inspects the found value; the three whole-data forms clone the entire data; nothing in var or the lookup parses a value; the dotted-path walker's result is the entire data, None, or exactly the fold over the splitter's segments seeded with Some(data), whose step performs Map::get on objects, helper(parse::<i64>) on arrays, helper over chars on strings and nothing on other kinds.",
    "note": "The arithmetic of split_with_escape and of the index helper on every path string and tree (escape handling, empty segments, boundaries) is value-level and not decided.",
    "technique": "variant specialisation matrices, forbidden-call scans over the lookup's call-graph reach (unit-of-measure rule for bytes vs chars), def-use shape rules",
}
CHECKS["C07"] = {
    "level": "other",
    "text": "Necessary structural conditions of abstract equality, for all pairs of values: != is the exact negation of == and both take (operand 0, operand 1); the outcome kind of the equality function for each of the 36 pairs of JSON kinds (variant specialisation) equals ECMA-262 IsLooselyEqual transcribed in spec/arms/abstract_eq.json (direct float/string/bool comparison, Number×String through the shared conversion, Bool by recursion with true→1/false→0, primitive×container by recursion through the string form, the rest constant false), symmetric in kind; numbers never compared by spelling; the shared string→number conversion trims exactly the ECMAScript white-space set (interval reading of the predicate), maps \"\" to 0, recognises exactly Infinity/+Infinity/-Infinity, 0x/0o/0b → 16/8/2, and gates Rust's float parser by the decimal alphabet.",
    "note": "NOT decided: that the conversions compute ECMAScript StringToNumber / ToString on every string (digits, exponent forms, number formatting) — values, not shape. Symmetry of the relation follows from the matrix only together with symmetric conversions.",
    "technique": "36-pair variant specialisation matrix vs. a transcribed ECMA-262 table; exact-negation rule; interval abstract interpretation of the character predicate; constant reading; dominance gate (A3)",
}
CHECKS["C08"] = {
    "level": "other",
    "text": "!== is the exact negation of ===, both on (operand 0, operand 1); the 36-pair matrix of the strict predicate (identity shortcut excluded) equals ECMA-262 IsStrictlyEqual on JSON kinds: only Null (constant true), Bool/String (payload equality) and Number (float Eq of as_f64 of both payloads, no integer accessor, no spelling equality) can be true, everything involving a container or mixed kinds is constant false; the identity shortcut cannot fire through the rule interface because the eager evaluator hands operators references into a freshly collected Vec<Value> of owned evaluation results and the closures pass two different operand indices; wherever === can be true, == uses the same direct comparison kind.",
    "note": "IEEE equality of doubles (1 == 1.0, 0 == -0) is the language's; trusted.",
    "technique": "36-pair variant specialisation matrix vs. transcribed ECMA-262 table; def-use freshness rule on the operand vector; sibling arm agreement",
}
CHECKS["C09"] = {
    "level": "other",
    "text": "Necessary structural conditions of the relational operators: each takes 2 or 3 evaluated operands; with two the result is cmp(op0,op1), with three cmp(op0,op1) AND cmp(op1,op2) (second comparison under the true edge of the first, false edge constant false), operands reaching the comparator untouched; each of the four comparators converts both operands with the shared to-primitive (number hint) and — per pair of primitive kinds, by variant specialisation — performs exactly one comparison of (first, second) with the operator the table name says (string ordering for String×String, float comparison otherwise, the string side through the shared string→number conversion with None ⇒ constant false); no comparator is built from a sibling or from abstract equality; number-hint to-primitive maps Null→0, Bool→1/0 (polarity read), Number→as_f64, others→none; the shared conversion satisfies the ES structure/A3 clauses.",
    "note": "NOT decided: code-point ordering of Rust's String comparison (trusted), the numeric value of conversions on every string.",
    "technique": "CFG path rules on the between helper; variant specialisation over the pair of primitive kinds with comparison-operator and operand-order reading; sibling agreement; A3 dominance gate",
}
CHECKS["C10"] = {
    "level": "other",
    "text": "Necessary structural conditions of arithmetic: in the one f64→JSON conversion the saturating float→int cast is edge-dominated by the exact test fract(x)==0.0 and by x >= -2^63 and x < 2^63 (constants read), the cast operand is the result itself, no rounding call, otherwise Number::from_f64 whose None becomes Err; each of + - * / % min max returns only through that conversion and builds no JSON number elsewhere; only double arithmetic in their reach (no integer accessor, integer op or int/float cast), with the documented float operation, operand order (first op second), fold identities (0.0, 1.0, +inf, -inf read from the fold seeds); + and * reach only the parseFloat-style conversion, the others only the Number-style one; every conversion result is turned into Err at its site and never defaulted/skipped.",
    "note": "NOT decided: digit-level exactness of parse_float_string / the string→number conversion, integer/fraction spelling at boundary values beyond the guards read. Trusted: IEEE semantics of MIR float ops, Number::from_f64, Rust's float parser.",
    "technique": "dominance + constant reading on the conversion function; return-path and reach scans over operator units; operation/operand-order reading from MIR BinaryOps; call-graph routing",
}
CHECKS["C15"] = {
    "level": "other",
    "text": "merge: one forward pass over the operand list itself (the consumer's iterator derives from the operand-vector parameter, nothing substituted), one switch on each operand's outer kind, Array operands contribute a clone of each element through one non-nested pass, every other kind a clone of the operand itself, no recursion, result only appended to. in: operand 0 needle / operand 1 haystack; by variant specialisation a Null haystack is constant false, an Array haystack is any(elements, membership equality with the needle), a String haystack with a String needle is exactly str::contains(haystack, needle) with no other path to a boolean, a non-string needle or any other haystack kind is Err; no byte-length/character-count mix; `in` never uses serde_json's Value/Number equality or slice::contains; the membership equality compares Number×Number numerically, recurses into Array×Array and (key-wise, via Map::get) Object×Object, and uses plain equality only for other pairs.",
    "note": "NOT decided: that the numeric comparison inside the membership equality is the intended deep numeric equality on every nested value (e.g. integers above 2^53).",
    "technique": "def-use rule on the iterated collection, per-kind contribution by variant specialisation, haystack/needle outcome matrix, 36-pair matrix of the membership equality, unit-of-measure taint",
}
CHECKS["C16"] = {
    "level": "other",
    "text": "substr: unit-of-measure taint — no length/offset measured in bytes reaches the skip/take counts on the character iterator, nothing mixes bytes with characters, the clamping length is chars().count(), no byte-based string operation in substr's reach; the result is chars().skip(start).take(count).collect() of operand 0's payload, start/length read with as_i64. cat: one forward pass over the operand list, each contribution appended once; per operand kind (variant specialisation of the per-operand code incl. helpers) a String contributes its payload, every other kind — null included — the shared string form of that operand. String form per kind: Null→\"null\", Object→\"[object Object]\", Bool/Number→their Display, String→itself, Array→join(\",\") of the elements where a null element contributes \"\" and every other element recurses.",
    "note": "NOT decided: the clamping arithmetic for negative start/length on every offset, the split/recombine law as a value statement.",
    "technique": "unit-of-measure (bytes vs chars) taint analysis; def-use shape of the slice; per-kind contribution matrices by variant specialisation; constant reading",
}
NOT_APPLICABLE = {}
for i in range(1, 20):
    p = "C%02d" % i
    if p not in CHECKS:
        NOT_APPLICABLE[p] = "check under construction in this round (see DESIGN.md §4 for the planned static clauses); not claimed until it runs clean on the unchanged tree"
for e in ENGINES:
    e["serves_properties"] = sorted(CHECKS)
