SETUP = "cd /verif/driver && cargo build --offline && cd /verif && python3 rules/extract.py default cmdline python"
NOTES = ("Static analysis only: a rustc_private driver (driver/, nightly) dumps type-checked MIR facts of /repo's current "
         "working tree for every feature set; a Python rule engine (rules/) decides each property's structural clauses. "
         "Exit 0 = held, 1 = VIOLATION, 2 = INCONCLUSIVE (an anchor role or idiom could not be read: never printed on the unchanged tree).")
ENGINES = [
    {"name": "jlfacts", "path": "driver/", "serves_properties": [], "kind_free_text": "rustc_private MIR fact extractor injected as RUSTC_WORKSPACE_WRAPPER under cargo +nightly check"},
    {"name": "rules", "path": "rules/", "serves_properties": [], "kind_free_text": "Python rule engine: CFG/dominators, def-use tracing, variant specialisation, call graph, operator-table reader"},
]
CHECKS = {
    "C03": {
        "level": "proof",
        "text": "Proof of the stated obligations from the source: the accepted operand-count set of each of the 35 table entries, derived by interval arithmetic from the per-variant comparison read out of the length predicate's MIR, equals the documented set for all n in N; the unary predicate agrees with `1 in set`; every Ok(Some) exit of the dispatcher is edge-dominated by the success edge of the length check on the returned vector's length; the unbracketed operand becomes exactly [x] under the unary-acceptance edge.",
        "note": "Trusted: rustc MIR construction, phf's generated hash lookup, the transcription of the statement into spec/operators.json, the recognised nightly expansion of vec![x]. Does not decide behaviour of operators beyond arity.",
        "technique": "MIR variant specialisation + interval arithmetic over the operator tables; edge-dominance in the dispatcher CFG",
    },
}
NOT_APPLICABLE = {}
for i in range(1, 20):
    p = "C%02d" % i
    if p not in CHECKS:
        NOT_APPLICABLE[p] = "check under construction in this round (see DESIGN.md §4 for the planned static clauses); not claimed until it runs clean on the unchanged tree"
for e in ENGINES:
    e["serves_properties"] = sorted(CHECKS)
