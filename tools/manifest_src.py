SETUP = "cd /verif/driver && cargo build --offline && cd /verif && python3 rules/extract.py default cmdline python"
NOTES = ("Static analysis only: a rustc_private driver (driver/, nightly) dumps type-checked MIR facts of /repo's current "
         "working tree for every feature set; a Python rule engine (rules/) decides each property's structural clauses. "
         "Exit 0 = held, 1 = VIOLATION, 2 = INCONCLUSIVE (an anchor role could not be resolved: never printed on the unchanged tree). "
         "Clauses are stated on shape-independent readers (path summaries, decision cases, operand descriptors, accumulations, helper-inlined views — DESIGN.md §2 E2b); "
         "a clause instance that cannot be read is printed as UNDECIDED and listed in the evidence, it neither passes nor fails. "
         "Stored breaking changes (seeded/, mutants/regress/) and behaviour-preserving refactors (mutants/preserving/) are replayed by tools/killmatrix.py; results in mutants/KILLMATRIX.md.")
ENGINES = [
    {"name": "jlfacts", "path": "driver/", "serves_properties": [], "kind_free_text": "rustc_private MIR fact extractor injected as RUSTC_WORKSPACE_WRAPPER under cargo +nightly check"},
    {"name": "rules", "path": "rules/", "serves_properties": [], "kind_free_text": "Python rule engine: CFG/dominators, def-use tracing, variant specialisation, call graph, operator-table reader, path summaries / decision cases / operand descriptors / accumulations, MIR-to-MIR helper inlining"},
]
CHECKS = {
    "C03": {
        "level": "proof",
        "text": "Proof of the stated obligations from the source: the accepted operand-count set of each of the 35 table entries, derived by interval arithmetic from the per-variant comparison read out of the length predicate's MIR, equals the documented set for all n in N; the unary predicate agrees with `1 in set`; every Ok(Some) exit of the dispatcher is edge-dominated by the success edge of the length check on the returned vector's length; the unbracketed operand becomes exactly [x] under the unary-acceptance edge. Nothing between entry point and dispatcher discards or converts an arity error, and a function bound in a table is called from nowhere else in the crate (no way around the check). The operand count is compared without narrowing, and each operation evaluator runs its operator at exactly one site on the operand list itself.",
        "note": "Trusted: rustc MIR construction, phf's generated hash lookup, the transcription of the statement into spec/operators.json, the recognised nightly expansion of vec![x]. Does not decide behaviour of operators beyond arity.",
        "technique": "MIR variant specialisation + interval arithmetic over the operator tables; edge-dominance in the dispatcher CFG",
    },
}
CHECKS["C02"] = {
    "level": "other",
    "text": "Decides, for all values and all paths of the dispatcher: the key set of the three operator tables equals the 35 documented names (disjoint, key==symbol, documented table kind, aliasing only for if/?:); every Ok(Some(operation)) exit is edge-dominated by the Object edge, a Map::len==1 edge and the lookup-hit edge, and the looked-up key is the object's first key verbatim (no transforming call on the chain); the literal parser is the last alternative, accepts unconditionally, evaluates to the stored reference and converts by clone/move only; the value parser is invoked only from enumerated roles and never on a computed value (interprocedural provenance). The parser chain's precedence is read from dominance of the parser calls, an Err of an earlier parser is never turned into a success on the chain, and the operator tables are consulted nowhere but in the dispatcher.",
    "note": "Structural necessary conditions plus the identity path; trusted: rustc MIR, phf's key comparison, Value::clone being structural, spec/operators.json. Does not decide serde_json's own parsing of the rule text.",
    "technique": "operator-table reading from promoted MIR; edge-dominance in the dispatcher CFG; def-use chain whitelist; interprocedural may-provenance analysis",
}
CHECKS["C04"] = {
    "level": "other",
    "text": "May-provenance analysis over all paths and call sites: every parameter position that is interpreted as rule text (entry point, value parser, list parser, four parser impls, dispatcher; 29 call sites) receives only values whose provenance is rule text — never data or evaluation results; path-insensitively dirty sites are re-examined by case analysis on the operand kind. Eager and data table functions cannot reach the interpreter in the call graph; the operation evaluators evaluate each stored argument exactly once and return the operator's result unchanged. At most once per use: if/?:/and/or touch operands drawn from the operand list only inside per-element code (nothing parsed or evaluated again after the iteration), at most one evaluation per element. The operator runs at one site on the evaluated operand list itself and the evaluator adds no exit of its own.",
    "note": "Sound over-approximation w.r.t. the std adaptor transfer models listed in rules/prov.py; unknown calls default to the union of all argument tags. For the collection operators the once-per-use discipline is decided in C13 K2 and C14 K2/K4.",
    "technique": "interprocedural flow-insensitive taint (provenance) analysis on MIR with variant case-splitting; call-graph reachability",
}
CHECKS["C01"] = {
    "level": "other",
    "text": "Exhaustive over the call graph from every externally visible entry point (Rust apply and the public js_op helpers, CLI main, Python binding; default/cmdline/python feature sets, debug profile = overflow and bounds checks on): each of the 64 panic sources per configuration (Assert terminators, panicky std calls per spec/api/panicky.tsv) is discharged by a dataflow justification — discriminant guard, always-Some constructor flow, arity interval for constant indices into the operand vector (refined along dominating length comparisons, through closures and forwarding functions), constant/value-set operands — or by one of four table lines with a reason; every external callee is classified; loops are bounded by finite std iterators; every call-graph cycle has a descent witness (evaluator cycle: parser only descends into rule text; helpers: structural descent or acyclic variant-transition graph); process-boundary facts for the CLI and the Python binding; serde_json's 128 recursion limit is kept. Range iterations are bounded by the length of an in-memory collection; process::exit in the binary counts as an ordinary end with an exit status, abort does not. Every cycle inside the evaluator's call-graph component that avoids both the parser and the evaluate functions needs its own descent witness (depth must be bounded by the nesting of the rule, not by the length of an operand list).",
    "note": "Does not decide stack consumption of 128 nested evaluator frames (a code-generation quantity), panics inside dependency functions classified total by reading (spec/api/total.tsv, deps.tsv are the trusted base), or a closed stdout. An unclassified external callee is reported INCONCLUSIVE (exit 2), never passed.",
    "technique": "call-graph reachability + per-source justification dataflow on MIR (typestate, value sets, arity intervals, dominators); SCC descent witnesses",
}
CHECKS["C17"] = {
    "level": "other",
    "text": "Effect-freedom for every history and schedule, decided on the call graph of an evaluation (entry point + all table functions, through closures and the tables' indirect calls): no static mut / non-Freeze static / thread-local, no user-written unsafe, no raw-pointer cast or transmute, no call with I/O, time, environment, process, thread, synchronisation or randomness effects except exactly one stdout write in the function bound to `log` (outside loops, of operand 0, returning a clone of operand 0), no iteration over hash-ordered collections; plus type witnesses compiled against the current tree: apply coerces to for<'a,'b> fn(&Value,&Value)->Result<Value,E> with E: Send+Sync+'static, is Send+Sync+Copy, and the &mut twins are rejected with E0308. log's template is `{}` + newline; no operand of if/and/or is evaluated twice per use.",
    "note": "Trusted: purity of dependency/std functions classified total; the path-prefix effect classification in rules/c17.py. The manifest claims `other` rather than `proof` because of that trusted base.",
    "technique": "effect analysis on the resolved call graph; item/type walks (Freeze, static mut, thread_local); compile-pass and compile-fail type witnesses",
}
CHECKS["C18"] = {
    "level": "other",
    "text": "All paths of the binary's main (cmdline feature): exactly one stdout write, outside loops, edge-dominated by the success edge of every fallible step that can precede it, followed by no fallible step, never on a failure edge; the format template decodes to `{}` + newline and its single Display argument is — through reference plumbing only — Value::to_string of the success payload of jsonlogic_rs::apply(rule, data), rule and data being the success payloads of serde_json::from_str::<Value> on the whole first-argument text and on the data text, in that order; the data text is the second argument unless absent (defaulted to \"-\") or equal to \"-\", exactly then stdin is read to the end; nothing discards a Result; Cargo.toml requires feature cmdline for the binary. Failure edges either return the residual or end in a handler that never returns and exits with a constant status that is non-zero modulo 256 (value set traced through parameters). Enabling feature cmdline changes the resolved feature set of no package the library is built from (cargo's own resolver). In the library an evaluation can reach, only the function bound to log writes to stdout.",
    "note": "Trusted: serde_json's serialiser/parser (valid JSON out, trailing text rejected), clap, the decoded format_args! template encoding of this toolchain. Broken pipes and non-UTF-8 argv are outside the property's quantifier.",
    "technique": "path rules on main's MIR CFG (edge dominance, reachability after removal of an edge), def-use provenance of the printed value and of apply's arguments, value sets of exit statuses, manifest facts incl. cargo's resolved feature sets per configuration",
}
CHECKS["C19"] = {
    "level": "other",
    "text": "All paths of the two wrapper functions (Python ast, definite-assignment dataflow): each optional callable is rebound to json.dumps / json.loads on every path before it is called; the native apply (imported as `apply` of `.jsonlogic`) is called exactly once with (serializer(value), serializer(data)) resp. (value, data if data is not None else \"null\") — order, `is None` test and the literal; the result of deserializer(native result) is returned; no try/except, loops, other calls; the ImportError shim re-raises off Windows. Native side (MIR, feature python): from_str::<Value> on each argument, apply(&rule,&data) in that order, Value::to_string of the Ok payload, the three errors converted and propagated with none discarded, Err mapped to PyErr::new::<ValueError,_> only, no panic source in the binding functions, exported as `apply` of module `jsonlogic`; setup.py builds jsonlogic_rs.jsonlogic with feature python. The Display/Debug impls that render the library's error for Python (followed through format arguments) contain no panic source either; enabling feature python reconfigures no package of the library build (cargo's resolver).",
    "note": "Trusted: CPython semantics of the straight-line wrapper, rust-cpython glue, json.dumps/loads round-trips (library behaviour outside the repository). Panic-freedom of the library under the python configuration is C01.",
    "technique": "Python AST dataflow (definite assignment of defaults, argument-shape rules) + MIR def-use rules on the binding, panic-source scan of the error-rendering call graph + setup.py AST facts + cargo's resolved feature sets",
}
CHECKS["C05"] = {
    "level": "other",
    "text": "Structural necessary conditions over all paths of the functions bound to if/?:/and/or: alias and lazy-table facts; no pre-pass (every parse and evaluation of an operand drawn from the operand list sits in per-element code — loop body or closure handed to the iterator consumer; no list parser, no mapped parser); the per-element code has a path without parse/evaluate (or the loop an early exit after an evaluation) and no path with more than one evaluation; and/or construct no JSON value and return an evaluation result, if constructs only null; truthiness through the shared table (C06). The data is handed only to the evaluator (helpers are part of the unit). Every successful result of and/or comes out of an evaluation; operands are evaluated against the operator's own data; if's prologue returns without entering the iteration; the lazy operation evaluator adds no exit of its own.",
    "note": "Does not decide that conditions sit at even and branches at odd positions nor the polarity of the accumulator tests (value-level). Trusted: rustc MIR, the iterator-consumer list in rules/opfacts.py.",
    "technique": "CFG path rules (path existence avoiding call sites, longest-path call counting), per-element context classification, provenance tags, table facts",
}
CHECKS["C06"] = {
    "level": "other",
    "text": "Every deciding position (the ! and !! closures, if/?:, and, or, filter, all, some; none through some) calls the one truthiness function or a pure forwarder, uses the result, and calls no other JSON-value→bool function or serde_json type/number accessor; `!` is Not of the same call on operand 0 that `!!` returns; the table itself is decided per kind by variant specialisation: Null→const false, Object→const true, Bool→payload, Number→as_f64(payload) compared with 0.0 with zero⇒false (no integer accessor), String/Array→payload emptiness with empty⇒false, no iteration over elements, no recursion. The value tested at each deciding position is an evaluated value (provenance), never rule text or the raw data. The front-end cargo features reconfigure no package of the library build (serde_json's number model — as_f64 total — is the same in the command and the Python module).",
    "note": "The polarity facts are read from the constants assigned under each edge of the comparison; IEEE -0.0 == 0.0 and Number::as_f64 are trusted.",
    "technique": "must-call / who-may-call rules on operator units; variant specialisation of the truthiness function with constant-under-edge polarity reading",
}
CHECKS["C13"] = {
    "level": "other",
    "text": "For map, filter and reduce: by variant specialisation over Evaluated::{New,Raw} × the six JSON kinds of the evaluated collection (36 cases) Array iterates the elements, Null iterates an empty vector, every other kind returns Err without reaching the iteration — identical in the three; the collection (and reduce's initial value) is parsed and evaluated exactly once against the outer data, outside the per-element code, the expression parsed once; the data of the per-element evaluation never carries outer-data provenance (interprocedural tags) — the element itself in map/filter, a map built in place with exactly the keys current ← element and accumulator ← running value in reduce; map is collect(map(..)), filter pushes the element itself only under the truthy edge of the shared truthiness of the predicate's value, reduce is a left fold seeded with the evaluated initial value; no reordering/filtering adaptor; nothing below the three operators parses a computed value. The expression is evaluated only inside the iteration, and every path that bypasses the iteration returns an error — except an early return under an emptiness test of the collection returning exactly what iterating over nothing returns. Per-element code may be a closure or a loop body.",
    "note": "Results on nested expressions are value-level and not decided. Trusted: std adaptor transfer models (rules/prov.py), C06 for the truthiness table.",
    "technique": "variant specialisation of operator units, interprocedural provenance tags at evaluation sites, def-use/dominance shape rules",
}
CHECKS["C14"] = {
    "level": "other",
    "text": "none calls some once with its own operands and maps Bool(b) to Bool(not b); collection normalisation decided by variant specialisation over (kind of the literal operand) × (kind an operation operand evaluates to): Array→elements, String→str::chars (no bytes/UTF-16/offset splitting anywhere in the helper reach), Null→nothing, other kinds→Err, only operation operands evaluated first, identical in all and some; a dominating length-zero test returns the constant false; every per-element predicate evaluation is under a short-circuiting consumer or in a closure with a success path that evaluates nothing, fold seeds true/false and the decided path returns false/true; only elements of the literal array are ever parsed (provenance, case split); verdicts through the shared truthiness. The collection is walked front to back (no reversing adaptor); the evaluated collection reaches the kind test only through the faithful Evaluated→Value conversion; every element of a literal array is parsed and evaluated before the predicate sees it (no path around the parser under the Array case). Literal elements are evaluated against the outer data and the predicate against the element only (provenance, including mutation through captured &mut).",
    "note": "Duality laws as value statements are not decided beyond these shapes. Trusted: std adaptor models, str::chars semantics, C06.",
    "technique": "exact-negation rule, two-level variant specialisation, path-existence rules on per-element closures, constant-under-edge reading, provenance",
}
CHECKS["C12"] = {
    "level": "other",
    "text": "The functions bound to var, missing and missing_some (with their helper functions) hand the data only to the one shared lookup (plus var's whole-data clone) and never branch on the data's kind; keys pass the same KeyType gate; absence is the lookup's Option discriminant. Per key, by specialisation on the key kind, a null key is neither looked up, pushed nor counted; every push onto the missing list is edge-dominated by the not-found edge and appends a clone of the key element (missing_some additionally guarded by !contains); the present count is a fold/counter whose +1 is edge-dominated by the found edge of the current key's lookup; missing_some's test is `present >= threshold` with the empty array on the true edge and the missing list on the false edge; missing takes the key list from operand 0's elements exactly on its Array edge. Only a JSON null is typed as the null key (the key-typing matrix of both conversions, shared with C11).",
    "note": "Agreement of results on every data tree beyond the shared mechanism is value-level and not decided.",
    "technique": "provenance-based who-touches-the-data rule, variant specialisation of per-key code, edge-dominance typestate for counter and pushes, comparison-operator reading",
}
CHECKS["C11"] = {
    "level": "other",
    "text": "Structural necessary conditions of var's path resolution: both KeyType conversions have the same 6-kind matrix (Null→null key, String→string key, Number→as_i64 or Err, others Err); all positional access inside the lookup's reach goes through the one negative-index helper (which measures and reads the same slice, checked_sub on the negative branch), strings only as Vec<char> from chars() — no byte-based string operation, no direct indexing, no scan over map entries anywhere in the lookup; var returns lookup.unwrap_or[_else](default) with default ∈ {null, clone of operand 1} and never inspects the found value; the three whole-data forms clone the entire data; nothing in var or the lookup parses a value; the dotted-path walker's result is the entire data, None, or exactly the fold over the splitter's segments seeded with Some(data), whose step performs Map::get on objects, helper(parse::<i64>) on arrays, helper over chars on strings and nothing on other kinds. The index helper branches on exactly idx >= 0 / idx < 0 with |idx| resp. len-|idx|. The splitter is decided as a finite-state transducer: every acyclic path through one iteration of its one-flag loop over str::chars is classified by (escape flag, c == backslash, c == delimiter) and must have exactly the effects the property states (escaped character pushed as is and the flag reset; backslash pushes nothing and sets the flag; delimiter emits and clears the segment; any other character pushed as is), the flag starts cleared, the key is split at '.', the pending segment is emitted last.",
    "note": "The index arithmetic on every integer is decided only in shape (sign test, operands of checked_sub); empty segments and trailing escapes are as the code has them.",
    "technique": "variant specialisation matrices, forbidden-call scans over the lookup's call-graph reach (unit-of-measure rule for bytes vs chars), def-use shape rules, acyclic-path enumeration of the splitter's loop body read as a finite-state transducer",
}
CHECKS["C07"] = {
    "level": "other",
    "text": "Necessary structural conditions of abstract equality, for all pairs of values: != is the exact negation of == and both take (operand 0, operand 1); the outcome kind of the equality function for each of the 36 pairs of JSON kinds (variant specialisation) equals ECMA-262 IsLooselyEqual transcribed in spec/arms/abstract_eq.json (direct float/string/bool comparison, Number×String through the shared conversion, Bool by recursion with true→1/false→0, primitive×container by recursion through the string form, the rest constant false), symmetric in kind; numbers never compared by spelling; the shared string→number conversion trims exactly the ECMAScript white-space set (interval reading of the predicate), maps \"\" to 0, recognises exactly Infinity/+Infinity/-Infinity, 0x/0o/0b → 16/8/2, and gates Rust's float parser by the decimal alphabet. The radix parser behind 0x/0o/0b: non-empty and all-digits-of-the-radix guards edge-dominate the valuation, the value is from_str_radix(digits, radix) as f64 or the fold from 0 with step acc*radix+digit; the string form used for containers is the C16 K4 form; delegation to the strict predicate is inlined per pair.",
    "note": "NOT decided: that the conversions compute ECMAScript StringToNumber / ToString on every string (digits, exponent forms, number formatting) — values, not shape. Symmetry of the relation follows from the matrix only together with symmetric conversions.",
    "technique": "36-pair variant specialisation matrix vs. a transcribed ECMA-262 table; exact-negation rule; interval abstract interpretation of the character predicate; constant reading; dominance gate (A3)",
}
CHECKS["C08"] = {
    "level": "other",
    "text": "!== is the exact negation of ===, both on (operand 0, operand 1); the 36-pair matrix of the strict predicate (identity shortcut excluded) equals ECMA-262 IsStrictlyEqual on JSON kinds: only Null (constant true), Bool/String (payload equality) and Number (float Eq of as_f64 of both payloads, no integer accessor, no spelling equality) can be true, everything involving a container or mixed kinds is constant false; the identity shortcut cannot fire through the rule interface because the eager evaluator hands operators references into a freshly collected Vec<Value> of owned evaluation results and the closures pass two different operand indices; wherever === can be true, == uses the same direct comparison kind. A shared equality helper with a negate flag is read once per flag value. The front-end cargo features reconfigure no package of the library build (number model).",
    "note": "IEEE equality of doubles (1 == 1.0, 0 == -0) is the language's; trusted.",
    "technique": "36-pair variant specialisation matrix vs. transcribed ECMA-262 table; def-use freshness rule on the operand vector; sibling arm agreement",
}
CHECKS["C09"] = {
    "level": "other",
    "text": "Necessary structural conditions of the relational operators: each takes 2 or 3 evaluated operands; with two the result is cmp(op0,op1), with three cmp(op0,op1) AND cmp(op1,op2) (second comparison under the true edge of the first, false edge constant false), operands reaching the comparator untouched; each of the four comparators converts both operands with the shared to-primitive (number hint) and — per pair of primitive kinds, by variant specialisation — performs exactly one comparison of (first, second) with the operator the table name says (string ordering for String×String, float comparison otherwise, the string side through the shared string→number conversion with None ⇒ constant false); no comparator is built from a sibling or from abstract equality; number-hint to-primitive maps Null→0, Bool→1/0 (polarity read), Number→as_f64, others→none; the shared conversion satisfies the ES structure/A3 clauses. The to-primitive composition (container → its string form, nothing unwrapped) and the string form are decided as in C07/C16.",
    "note": "NOT decided: code-point ordering of Rust's String comparison (trusted), the numeric value of conversions on every string.",
    "technique": "CFG path rules on the between helper; variant specialisation over the pair of primitive kinds with comparison-operator and operand-order reading; sibling agreement; A3 dominance gate",
}
CHECKS["C10"] = {
    "level": "other",
    "text": "Necessary structural conditions of arithmetic: in the one f64→JSON conversion the saturating float→int cast is edge-dominated by the exact test fract(x)==0.0 and by x >= -2^63 and x < 2^63 (constants read), the cast operand is the result itself, no rounding call, otherwise Number::from_f64 whose None becomes Err; each of + - * / % min max returns only through that conversion and builds no JSON number elsewhere; only double arithmetic in their reach (no integer accessor, integer op or int/float cast), with the documented float operation, operand order (first op second), fold identities (0.0, 1.0, +inf, -inf read from the fold seeds); + and * reach only the parseFloat-style conversion, the others only the Number-style one; every conversion result is turned into Err at its site and never defaulted/skipped. Folds run left to right over all operands (no reversing/skipping adaptor); the radix parser's guards, seed and step are decided as in C07. The string form through which containers are converted has the per-kind structure of C16; the parseFloat-style scan runs over the trimmed text; the front-end features leave the number model unchanged.",
    "note": "NOT decided: digit-level exactness of parse_float_string / the string→number conversion, integer/fraction spelling at boundary values beyond the guards read. Trusted: IEEE semantics of MIR float ops, Number::from_f64, Rust's float parser.",
    "technique": "dominance + constant reading on the conversion function; return-path and reach scans over operator units; operation/operand-order reading from MIR BinaryOps; call-graph routing",
}
CHECKS["C15"] = {
    "level": "other",
    "text": "merge: one forward pass over the operand list itself (the consumer's iterator derives from the operand-vector parameter, nothing substituted), one switch on each operand's outer kind, Array operands contribute a clone of each element through one non-nested pass, every other kind a clone of the operand itself, no recursion, result only appended to. in: operand 0 needle / operand 1 haystack; by variant specialisation a Null haystack is constant false, an Array haystack is any(elements, membership equality with the needle), a String haystack with a String needle is exactly str::contains(haystack, needle) with no other path to a boolean, a non-string needle or any other haystack kind is Err; no byte-length/character-count mix; `in` never uses serde_json's Value/Number equality or slice::contains; the membership equality compares Number×Number numerically, recurses into Array×Array and (key-wise, via Map::get) Object×Object, and uses plain equality only for other pairs. Number×Number is exact: integer pairs compared as integers through as_i64/as_u64, f64 only otherwise, with == only; a key missing from the other object makes two objects different.",
    "note": "NOT decided: results on every nested value beyond these shapes.",
    "technique": "def-use rule on the iterated collection, per-kind contribution by variant specialisation, haystack/needle outcome matrix, 36-pair matrix of the membership equality, unit-of-measure taint",
}
CHECKS["C16"] = {
    "level": "other",
    "text": "substr: unit-of-measure taint — no length/offset measured in bytes reaches the skip/take counts on the character iterator, nothing mixes bytes with characters, the clamping length is chars().count(), no byte-based string operation in substr's reach; the result is chars().skip(start).take(count).collect() of operand 0's payload, start/length read with as_i64. cat: one forward pass over the operand list, each contribution appended once; per operand kind (variant specialisation of the per-operand code incl. helpers) a String contributes its payload, every other kind — null included — the shared string form of that operand. String form per kind: Null→\"null\", Object→\"[object Object]\", Bool/Number→their Display, String→itself, Array→join(\",\") of the elements where a null element contributes \"\" and every other element recurses. Clamping can neither trap nor wrap: no raw integer Add/Sub/Mul/Shl/Neg in substr's reach (unsigned a-b under a dominating a>=b test accepted); failing arms of checked_* fall back to 0 or the character count.",
    "note": "NOT decided: the clamping arithmetic for negative start/length on every offset, the split/recombine law as a value statement.",
    "technique": "unit-of-measure (bytes vs chars) taint analysis; def-use shape of the slice; per-kind contribution matrices by variant specialisation; constant reading",
}

# ---- rounds 4–5: the clauses were restated on shape-independent readers (DESIGN.md §2 E2b); what each check decides in addition
ADDENDA = {
 "C01": ("Index sites are judged on the length interval of the indexed view (operand list by arity, chunk/window items, remainder) refined by dominating length tests, resting on the arity premise (table entries are invoked by the operation evaluators only, on the counted list); counters on the storage that carries them; str slices on the provenance of each bound (offsets of the sliced string itself); loops on the type of the iterator that drives them; mutual recursion by a size-change graph over tree-carrying parameters; every lazy-table function evaluates each operand at most once (bounded work); a generic private helper is read once per instantiation.",
         "; interval reading of slice views; size-change graphs; provenance of slice bounds"),
 "C02": ("The dispatcher guards are read on interprocedural path summaries (Object, exactly one entry — len tests or 1st next() Some / 2nd None —, lookup hit on the table parameter), with the edge-dominance statement kept as a second sufficient condition.",
         "; interprocedural path summaries with versioned iterator state"),
 "C03": ("The accepted sets are evaluated from path summaries of the length predicate per descriptor variant (ladders, &&, Range::contains, bound tables read alike); the dispatcher's success paths are read for: outcome of the length check, checked length = length of the returned vector, operand forms as views, unary guard, rejection; an operator documented to evaluate all operands sits in an eager/data table.",
         "; path summaries evaluated to intervals"),
 "C04": ("At most once per use is stated on operand descriptors (which operands of the list a site can denote: views ALL/init/tail/chunks/windows/rem/skip, iterator objects) for every lazy-table function, context-sensitively through helpers; a dirty sink inside a private helper is re-read on the helper-inlined view.",
         "; operand descriptors; helper-inlined views"),
 "C05": ("Skippability is read on path summaries of the per-operand code (a verdict of the shared truthiness function splits a continuing from a stopping path; an exit only an error takes does not count); results by provenance (nothing but evaluation results); the per-kind truthiness table (C06 K3) is included; the parser of lazy operations stores operands as written (no parse of unselected operands when the operation is parsed).",
         "; path summaries; operand descriptors; included clauses of C06"),
 "C06": ("The table is read as decision cases of the truthiness function (kind[, zero/empty test] ⇒ constant/payload; another comparison or an integer reading of a number is a violation); verdicts are not stored for other values; none decides where some decides; a deciding position does not build rule text at run time; a kind test of an operand as written is plumbing.",
         "; decision tables from path summaries"),
 "C07": ("The 36-pair matrix is read from decision cases with both kinds fixed, helpers inlined and delegates expanded: each case is a constant, a float/string/bool payload equality of the right sides, or the recursion with one operand replaced by its conversion (true→1, false→0; the container's own string form); the StringToNumber clauses are read from path summaries on the helper-inlined view (prefix/radix pairs, white-space set also as a range table), the digits are valued by an exact integer parse; the array string form is read as an emission table.",
         "; pair decision matrices; emission tables"),
 "C08": ("The matrix is read from decision cases with both kinds fixed (as C07); total_cmp/epsilon comparisons are read and wrong.", "; pair decision matrices"),
 "C09": ("Host and comparator are found by following the operand list under the constants bound at each forwarding call; between is a truth table over the adjacent comparisons; comparator arguments are elements of the operand list by provenance; each comparator is a decision table keyed by the kinds of the two to-primitive results (binops, PartialOrd, Ordering forms, Iterator::lt are one relation); no re-encoding or integer-domain comparison.",
         "; decision cases; constant binding through forwarding calls"),
 "C10": ("The result conversion is a decision table through its helpers: integer spelling only under exact integrality and the two range bounds, float spelling = payload of from_f64 only elsewhere, error exactly where from_f64 is None; operand order of -,/,% by operand descriptors of the converted operands; folds as accumulations (seed = identity, no early successful exit, in order).",
         "; interprocedural decision tables; accumulations"),
 "C11": ("Roles by behaviour (lookup, index helper, walker); key typing on composed decision cases; the index helper's position table (front/back, checked subtraction on the length of the sequence read, nth_back/rev().nth forms); default selection on var's decision cases; the walk is an accumulation seeded with the data, each step exactly one access to the current value.",
         "; decision cases; per-step path enumeration"),
 "C12": ("Per-key step enumerated path by path per key kind: rows key kind × lookup result → pushes, contains-guards, count delta (accumulator or in-place cell); converses absent-reported / present-counted; threshold comparison with exact u64 reading and both outcomes; first-operand adjustment on the paths up to the scan; the lookup clauses of C11 are included.",
         "; per-step path enumeration with storage cells; included clauses of C11"),
 "C13": ("Collection table from path summaries with the collection's kind fixed; filter as a per-element outcome table (KEEP/DROP/ERROR/END, KEEP adds exactly the element under truthy(evaluate)==true); reduce's next accumulator is the evaluate value.",
         "; per-element outcome tables"),
 "C14": ("none from its decision cases (Bool(!b) of one core call); collection table per kind case on path summaries; empty⇒false on paths; short-circuit in five readings incl. the consumer decision of any/all/find_map; every per-element verdict is truthy(predicate.evaluate(..)).",
         "; decision cases; consumer-decision tables"),
 "C15": ("merge as a stream term per assumed operand kind (every spelling: fold+push, loops+extend, flat_map+cloned+collect); in by path summaries through helpers; a key missing from the other object yields 'different' on every continuation.",
         "; stream terms"),
 "C16": ("Enumerate positions on chars() are character quantities; the returned text is collect(chars(P)[.skip][.take]) or pushes of next() characters of chars(P); string form by emission tables (first|later × null|other); clamping fall-backs in the context of helper call sites.",
         "; emission tables"),
 "C17": ("log's identity/once/one-line clauses are def-use and dominance facts decided on the helper-inlined view when an emit helper exists; at-most-once shared with C05.", ""),
 "C18": ("The data source is stated on the sources of the data text (through ?, merges, combinators) and on edge cut sets of main; a read in a helper is decided on the inlined view.", "; edge cut sets; case normal form of Option/Result plumbing"),
 "C19": ("The wrapper is read by a symbolic path evaluator over the Python AST (if/else, conditional expressions, early returns, helper functions at their call sites): per path the returned term, the calls made and the `is None` facts; the binding as decision cases; a generic error-message helper is followed per instantiation.",
         "; symbolic path evaluation of the Python AST; decision cases"),
}
for _p, (_t, _tech) in ADDENDA.items():
    if _p in CHECKS:
        CHECKS[_p]["text"] = CHECKS[_p]["text"].rstrip() + " " + _t + " A clause instance whose code cannot be read is reported as UNDECIDED (neither pass nor fail; none on the unchanged tree)."
        CHECKS[_p]["technique"] = CHECKS[_p]["technique"] + _tech

# ---- round 7: clauses added from the M..P seeds
ADDENDA7 = {
 "C03": "K4.reject also across a function boundary: an Option-valued finder that answers None on a denied unary acceptance while its caller turns None into a success.",
 "C06": "No deciding position (with its helpers) reads the numeric value of a JSON number itself; accessors used by the table's private helpers count for K3.number-as-double (bit-pattern / sign tests included).",
 "C07": "No numeric conversion is applied to an element of a container (containers convert through their string form only); nesting evidence also for a worklist descent into an element's Array payload.",
 "C09": "A comparator result decided without to-primitive of both operands is a violation; no numeric conversion is applied to an element of a container.",
 "C10": "No numeric conversion is applied to an element of a container ([true] is \"true\", not 1).",
 "C16": "Where the length is added to the start, the start is already clamped to ≥ 0 (unsigned, cast of unsigned, max/clamp).",
 "C17": "Parsing is pure: no evaluate function and no call through a table pointer is reachable from the parser functions (the effect of `log` belongs to evaluation).",
}
ADDENDA8 = {
 "C03": "K6.construction: an operation struct is assembled only by the parser of its table. Tables written with a builder are read by inlining the crate's straight-line const fns.",
 "C05": "K3.eager-default: no operand is evaluated as the eager argument of unwrap_or / or / map_or / then_some.",
 "C08": "K2.numeric-domain: no integer reading of a number and no float-to-int cast in the reach of ===.",
 "C14": "K6.verdict-per-element: no truthiness verdict is written through a reference and read back by the same code; reaching the iteration where an error is required is a violation.",
 "C15": "K3.elementwise: the container cases of the membership equality on decision cases (length equality only, false on different lengths, all over un-negated recursion, zip / entry walks only under equal lengths); K3.exact-numbers over the reach of in (no int/float cast, as_i64 never without as_u64).",
}
ADDENDA9 = {
 "C02": "K5 (error discipline of the parse chain) is read before K3 and includes an error discarded by a pattern.",
 "C03": "K3.every-parser-checks: the parser of every table reaches the length check (call-graph must-reach); K5.error-to-success also for an error discarded by a pattern.",
 "C06": "Emptiness of a transformed (trimmed, re-cased, filtered) string is another test than the table's.",
 "C15": "K3.missing-key: a miss replaced by a stand-in value that is then compared is a violation.",
 "C19": "K1.stateless-wrapper: no decorated function, no global/nonlocal rebinding, no module-level container mutated by a function.",
}
for _p, _t in ADDENDA9.items():
    ADDENDA8[_p] = (ADDENDA8.get(_p, "") + " " + _t).strip()
for _p, _t in ADDENDA8.items():
    ADDENDA7[_p] = (ADDENDA7.get(_p, "") + " " + _t).strip()
for _p, _t in ADDENDA7.items():
    CHECKS[_p]["text"] = CHECKS[_p]["text"].rstrip() + " " + _t
for _p in ("C05", "C06", "C07", "C08", "C09", "C10", "C11", "C12", "C13", "C14", "C15", "C16"):
    CHECKS[_p]["text"] = CHECKS[_p]["text"].rstrip() + " K0.stateless: no static with interior mutability, static mut or thread-local in the call-graph reach of the property's own operators."

NOT_APPLICABLE = {}
for i in range(1, 20):
    p = "C%02d" % i
    if p not in CHECKS:
        NOT_APPLICABLE[p] = "check under construction in this round (see DESIGN.md §4 for the planned static clauses); not claimed until it runs clean on the unchanged tree"
for e in ENGINES:
    e["serves_properties"] = sorted(CHECKS)
