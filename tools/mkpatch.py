#!/usr/bin/env python3
"""mkpatch.py OUT.diff (FILE OLD NEW)+   — build a unified diff against /repo's working tree from textual replacements
(`@all` as a 5th token after NEW replaces every occurrence)."""
import os, shutil, subprocess, sys, tempfile
out = sys.argv[1]
trip = sys.argv[2:]
tmp = tempfile.mkdtemp(prefix="jlmk-")
try:
    for side in ("a", "b"):
        subprocess.check_call(["rsync", "-a", "--exclude", "target", "--exclude", ".git", "/repo/", os.path.join(tmp, side) + "/"])
    i = 0
    while i < len(trip):
        f, old, new = trip[i], trip[i + 1], trip[i + 2]
        i += 3
        every = i < len(trip) and trip[i] == "@all"
        if every:
            i += 1
        p = os.path.join(tmp, "b", f)
        s = open(p).read()
        if old not in s:
            raise SystemExit("not found in %s: %r" % (f, old[:60]))
        s = s.replace(old, new) if every else s.replace(old, new, 1)
        open(p, "w").write(s)
    r = subprocess.run(["diff", "-ruN", "a", "b"], cwd=tmp, capture_output=True, text=True)
    open(out, "w").write(r.stdout)
    print("wrote", out, len(r.stdout.splitlines()), "lines")
finally:
    shutil.rmtree(tmp, ignore_errors=True)
