#!/usr/bin/env python3
"""E5b — systematic one-point source mutations of /repo's non-test code.

  mutagen.py generate OUTDIR            enumerate candidate mutants (one textual change each)
  mutagen.py survive OUTDIR [-j N]      keep those that still compile (default + cmdline) and pass
                                        the unedited suite: OUTDIR/survivors/<id>.diff
  mutagen.py judge OUTDIR [-j N]        run all 19 checks on every survivor; OUTDIR/judged.json

Scratch worktrees live under /tmp (outside /repo and /verif) and are removed.
A survivor caught by no check is either an equivalent mutant, a behaviour
change outside the 19 properties, or a blind spot — triaged by hand in DESIGN.md."""
import json, os, re, shutil, subprocess, sys, tempfile, time
from concurrent.futures import ThreadPoolExecutor

VERIF = os.path.dirname(os.path.dirname(os.path.abspath(__file__)))
FILES = ["src/lib.rs", "src/value.rs", "src/js_op.rs", "src/op/mod.rs", "src/op/array.rs", "src/op/data.rs", "src/op/logic.rs", "src/op/numeric.rs", "src/op/string.rs", "src/op/impure.rs", "src/bin.rs"]

OPS = [
    (r" <= ", " < "), (r" >= ", " > "), (r" < ", " <= "), (r" > ", " >= "), (r" == ", " != "), (r" != ", " == "),
    (r" && ", " || "), (r" \|\| ", " && "),
    (r"\bif !", "if "), (r"\(!", "("), (r"\btrue\b", "false"), (r"\bfalse\b", "true"),
    (r"\b0\.0\b", "1.0"), (r"\b1\.0\b", "0.0"), (r"(?<![\w.])0(?![\w.])", "1"), (r"(?<![\w.])1(?![\w.])", "0"), (r"(?<![\w.])2(?![\w.])", "3"), (r"(?<![\w.])3(?![\w.])", "2"), (r"(?<![\w.])4(?![\w.])", "5"),
    (r"checked_sub", "checked_add"), (r"checked_add", "checked_sub"), (r"cmp::min", "cmp::max"),
    (r"\.skip\(", ".take("), (r"\.take\(", ".skip("), (r"as_i64", "as_u64"), (r"as_u64", "as_i64"),
    (r"is_none\(\)", "is_some()"), (r"\.unwrap_or\(false\)", ".unwrap_or(true)"), (r"\.unwrap_or\(0\)", ".unwrap_or(1)"),
    (r"\.iter\(\)", ".iter().rev()"), (r"\.into_iter\(\)", ".into_iter().rev()"),
    (r" \+ ", " - "), (r" - ", " + "), (r" \* ", " / "), (r" / ", " * "), (r" % ", " / "),
    (r"items\[0\]", "items[1]"), (r"items\[1\]", "items[0]"), (r"args\[0\]", "args[1]"), (r"args\[1\]", "args[0]"), (r"args\[2\]", "args[1]"),
    (r"Exactly\(2\)", "Exactly(3)"), (r"Exactly\(3\)", "Exactly(2)"), (r"Variadic\(2\.\.4\)", "Variadic(2..5)"), (r"Variadic\(1\.\.3\)", "Variadic(1..4)"), (r"Variadic\(0\.\.3\)", "Variadic(0..4)"),
    (r"AtLeast\(1\)", "AtLeast(0)"), (r"NumParams::Unary", "NumParams::Any"), (r"NumParams::Any", "NumParams::AtLeast(1)"),
    (r"Value::Null => ", "Value::Bool(false) => "), (r"Some\(0\.0\)", "None"), (r"=> None,", "=> Some(0.0),"),
    (r"abstract_lt\b", "abstract_lte"), (r"abstract_gt\b", "abstract_gte"), (r"abstract_eq\b", "strict_eq"), (r"strict_eq\b", "abstract_eq"),
    (r"parse_float\(", "to_number("), (r"to_number\(", "parse_float("), (r"truthy\(", "!truthy("),
    (r"f64::NEG_INFINITY", "f64::INFINITY"), (r"f64::INFINITY", "f64::NEG_INFINITY"),
    (r"\.clone\(\)\)\);", ".clone()));\n        acc.reverse();"),
]

# second generation (sweep 2): direction swaps, statement deletion, constant/identifier swaps, sibling calls
OPS2 = [
    (r" < ", " > "), (r" > ", " < "), (r" <= ", " >= "), (r" >= ", " <= "),
    (r"\bfirst\b", "second"), (r"\bsecond\b", "first"), (r"\bf < s\b", "s < f"), (r"\bf > s\b", "s > f"),
    (r"Ok\(true\)", "Ok(false)"), (r"Ok\(false\)", "Ok(true)"), (r"Some\(true\)", "Some(false)"), (r"Some\(false\)", "Some(true)"),
    (r"=> true,", "=> false,"), (r"=> false,", "=> true,"),
    (r"\.chars\(\)\.count\(\)", ".len()"), (r"\.chars\(\)", ".chars().rev()"), (r"\.trim_matches\(is_js_whitespace\)", ".trim()"), (r"\.trim\(\)", ""),
    (r"is_ascii_digit\(\)", "is_numeric()"), (r"is_digit\(radix\)", "is_digit(10)"), (r"to_digit\(radix\)", "to_digit(16)"),
    (r"\"current\"", "\"accumulator\""), (r"\"accumulator\"", "\"current\""), (r"\"-\"", "\"\""), (r"'\.'", "','"), (r"'\\\\'", "'/'"),
    (r"\"null\"", "\"\""), (r"String::from\(\"\"\)", "String::from(\"null\")"), (r"\.join\(\",\"\)", ".join(\", \")"),
    (r"Some\(16\)", "Some(8)"), (r"Some\(8\)", "Some(16)"), (r"Some\(2\)", "Some(8)"),
    (r"f64::INFINITY", "f64::MAX"), (r"f64::NEG_INFINITY", "f64::MIN"),
    (r"checked_sub\(([^)]*)\)\.unwrap_or\(0\)", r"saturating_sub(\1).max(1)"), (r"cmp::max", "cmp::min"),
    (r"unsigned_abs\(\)", "abs() as u64"), (r"as_i64\(\)", "as_f64().map(|f| f as i64)"),
    (r"\.unwrap_or\(&NULL\)", ".unwrap_or(&args[0])"), (r"\.unwrap_or\(NULL\)", ".unwrap_or(Value::Bool(false))"),
    (r"Evaluated::New", "Evaluated::Raw"), (r"\.evaluate\(data\)", ".evaluate(&NULL)"), (r"\.evaluate\(&data\)", ".evaluate(&NULL)"),
    (r"Value::Array\(_\) => true", "Value::Array(_) => false"), (r"Value::Object\(_\) => true", "Value::Object(_) => false"),
    (r"\.fold\(Ok\(true\)", ".fold(Ok(false)"), (r"\.fold\(Ok\(false\)", ".fold(Ok(true)"),
    (r"!contains", "contains"), (r"\.contains\(", ".starts_with("),
    (r"len\(\) == 1", "len() >= 1"), (r"len\(\) == 0", "len() <= 1"), (r"\.is_empty\(\)", ".len() == 1"),
    (r"i % 2 == 0", "i % 2 == 1"), (r"% 2", "% 3"),
    (r"Value::Null => String::from\(\"\"\)", "Value::Null => String::from(\"null\")"),
    (r"PrimitiveHint::Number", "PrimitiveHint::String"), (r"PrimitiveHint::Default", "PrimitiveHint::String"),
    (r"required\(true\)", "required(false)"),
    (r"println!", "print!"), (r"result\.to_string\(\)", "result"), (r"\?;", ".ok();"),
]
# whole-line deletions: simple statements without bindings
DELETE_LINE = re.compile(r"^\s*(\w+(\.\w+)*\.(clear|push|push_str|insert|reverse|sort|dedup|truncate)\(.*\);|\w+ = (true|false);|return Ok\(.*\);)\s*$")


def code_region(path):
    s = open(path).read()
    cut = s.find("#[cfg(test)]")
    return s, (len(s) if cut < 0 else cut)


def in_string_or_comment(line, pos):
    # crude: inside "..." or after //
    c = line.find("//")
    if 0 <= c <= pos:
        return True
    q = 0
    esc = False
    for i, ch in enumerate(line[:pos]):
        if ch == "\\" and not esc:
            esc = True
            continue
        if ch == '"' and not esc:
            q ^= 1
        esc = False
    return bool(q)


def generate(outdir, gen=1):
    os.makedirs(outdir, exist_ok=True)
    cands = []
    for f in FILES:
        p = os.path.join("/repo", f)
        if not os.path.exists(p):
            continue
        s, end = code_region(p)
        off = 0
        for ln, line in enumerate(s[:end].split("\n")):
            stripped = line.strip()
            if stripped.startswith("//") or stripped.startswith("///") or stripped.startswith("#[") or stripped.startswith("use "):
                off += len(line) + 1
                continue
            if gen >= 2 and DELETE_LINE.match(line):
                a, b = off, off + len(line)
                cands.append({"file": f, "line": ln + 1, "op": "delete statement", "before": line.strip()[:160], "start": a, "end": b, "rep": ""})
            for (pat, rep) in (OPS if gen == 1 else OPS2):
                for m in re.finditer(pat, line):
                    if in_string_or_comment(line, m.start()):
                        continue
                    a = off + m.start()
                    b = off + m.end()
                    cands.append({"file": f, "line": ln + 1, "op": "%s → %s" % (pat, rep), "before": line.strip()[:160], "start": a, "end": b, "rep": re.sub(pat, rep, s[a:b], count=1)})
            off += len(line) + 1
    for i, c in enumerate(cands):
        c["id"] = "M%04d" % i
    json.dump(cands, open(os.path.join(outdir, "candidates.json"), "w"), indent=0)
    print("candidates:", len(cands))


def apply_cand(repo, c):
    p = os.path.join(repo, c["file"])
    s = open(p).read()
    s = s[:c["start"]] + c["rep"] + s[c["end"]:]
    open(p, "w").write(s)


def survive(outdir, nj):
    cands = json.load(open(os.path.join(outdir, "candidates.json")))
    sdir = os.path.join(outdir, "survivors")
    os.makedirs(sdir, exist_ok=True)
    parts = [[c for i, c in enumerate(cands) if i % nj == s] for s in range(nj)]

    def worker(part):
        if not part:
            return []
        wt = tempfile.mkdtemp(prefix="jlmg-")
        out = []
        try:
            subprocess.check_call(["rsync", "-a", "--exclude", ".git", "/repo/", wt + "/"])
            for c in part:
                subprocess.check_call(["rsync", "-a", "--exclude", ".git", "--exclude", "target", "/repo/src/", wt + "/src/"])
                apply_cand(wt, c)
                r = subprocess.run("cargo check --offline --features cmdline -q 2>&1 | grep -c '^error' ; cargo check --offline -q 2>&1 | grep -c '^error'", cwd=wt, shell=True, capture_output=True, text=True)
                if any(x.strip() not in ("0", "") for x in r.stdout.split()):
                    out.append((c["id"], "compile-fail"))
                    continue
                try:
                    r = subprocess.run("cargo test --workspace --no-fail-fast --offline 2>&1 | grep -E '^test result|^error|panicked' ", cwd=wt, shell=True, capture_output=True, text=True, timeout=300)
                except subprocess.TimeoutExpired:
                    out.append((c["id"], "timeout"))
                    subprocess.run("pkill -f %s" % wt, shell=True)
                    continue
                o = r.stdout
                if "FAILED" in o or "error" in o or o.count("test result: ok") < 5:
                    out.append((c["id"], "killed-by-tests"))
                    continue
                d = subprocess.run(["diff", "-u", os.path.join("/repo", c["file"]), os.path.join(wt, c["file"])], capture_output=True, text=True).stdout
                d = d.replace("--- /repo/" + c["file"], "--- a/" + c["file"]).replace("+++ " + os.path.join(wt, c["file"]), "+++ b/" + c["file"])
                open(os.path.join(sdir, c["id"] + ".diff"), "w").write(d)
                out.append((c["id"], "survivor"))
        finally:
            shutil.rmtree(wt, ignore_errors=True)
        return out

    res = {}
    with ThreadPoolExecutor(max_workers=nj) as ex:
        for o in ex.map(worker, parts):
            res.update(dict(o))
    json.dump(res, open(os.path.join(outdir, "survival.json"), "w"), indent=0)
    from collections import Counter
    print(Counter(res.values()))


def judge(outdir, nj):
    import importlib.util
    spec = importlib.util.spec_from_file_location("killmatrix", os.path.join(VERIF, "tools", "killmatrix.py"))
    km = importlib.util.module_from_spec(spec)
    spec.loader.exec_module(km)
    cands = {c["id"]: c for c in json.load(open(os.path.join(outdir, "candidates.json")))}
    sdir = os.path.join(outdir, "survivors")
    js = [("auto/" + f[:-5], os.path.join(sdir, f), "break", []) for f in sorted(os.listdir(sdir)) if f.endswith(".diff")]
    parts = [[(i, j) for i, j in enumerate(js) if i % nj == s] for s in range(nj)]

    def run_part(part):
        return [km.run_one(j, km.ALL, 20 + (i % nj)) for i, j in part]

    results = []
    with ThreadPoolExecutor(max_workers=nj) as ex:
        for o in ex.map(run_part, parts):
            results.extend(o)
    outl = []
    for r in sorted(results, key=lambda x: x["name"]):
        mid = r["name"].split("/")[1]
        c = cands[mid]
        fired = [p for p, v in r.get("results", {}).items() if v["exit"] == 1 and v["violation_line"]]
        incon = [p for p, v in r.get("results", {}).items() if v["exit"] == 2]
        outl.append({"id": mid, "file": c["file"], "line": c["line"], "op": c["op"], "before": c["before"], "fired": fired, "inconclusive": incon, "error": r.get("error")})
    json.dump(outl, open(os.path.join(outdir, "judged.json"), "w"), indent=0)
    n = len(outl)
    caught = sum(1 for x in outl if x["fired"])
    print("survivors judged: %d, caught by at least one check: %d, only inconclusive: %d, silent: %d" % (n, caught, sum(1 for x in outl if not x["fired"] and x["inconclusive"]), sum(1 for x in outl if not x["fired"] and not x["inconclusive"])))


if __name__ == "__main__":
    cmd, outdir = sys.argv[1], sys.argv[2]
    nj = int(sys.argv[sys.argv.index("-j") + 1]) if "-j" in sys.argv else 6
    gen = int(sys.argv[sys.argv.index("--gen") + 1]) if "--gen" in sys.argv else 1
    {"generate": lambda: generate(outdir, gen), "survive": lambda: survive(outdir, nj), "judge": lambda: judge(outdir, nj)}[cmd]()
