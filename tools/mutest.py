#!/usr/bin/env python3
"""Development aid / E5 helper: apply an edit to a scratch copy of /repo (outside
/repo and /verif), run the given checks against it, remove the copy.

  mutest.py -p C03[,C02] -r FILE OLD NEW [-r FILE OLD NEW ...]
  mutest.py -p C03 -d patch.diff
Prints each check's exit code and last lines.  Exit 0 always (reporting tool)."""
import os, shutil, subprocess, sys, tempfile

VERIF = os.path.dirname(os.path.dirname(os.path.abspath(__file__)))


def main():
    a = sys.argv[1:]
    props, reps, diffs = [], [], []
    i = 0
    verbose = False
    while i < len(a):
        if a[i] == "-p":
            props += a[i + 1].split(","); i += 2
        elif a[i] == "-r":
            reps.append((a[i + 1], a[i + 2], a[i + 3])); i += 4
        elif a[i] == "-d":
            diffs.append(a[i + 1]); i += 2
        elif a[i] == "-v":
            verbose = True; i += 1
        else:
            raise SystemExit("bad arg " + a[i])
    tmp = tempfile.mkdtemp(prefix="jlmut-")
    repo = os.path.join(tmp, "repo")
    try:
        subprocess.check_call(["rsync", "-a", "--exclude", "target", "--exclude", ".git", "/repo/", repo + "/"])
        for f, old, new in reps:
            p = os.path.join(repo, f)
            s = open(p).read()
            if s.count(old) < 1:
                print("MUTANT DOES NOT APPLY: %r not in %s" % (old, f)); return 3
            s = s.replace(old, new, 1)
            open(p, "w").write(s)
        for d in diffs:
            r = subprocess.run(["patch", "-p1", "-d", repo, "-i", os.path.abspath(d)], capture_output=True, text=True)
            if r.returncode != 0:
                print("MUTANT DOES NOT APPLY:", r.stdout, r.stderr); return 3
        env = dict(os.environ, JL_REPO=repo, JL_EVIDENCE_DIR=os.path.join(tmp, "evidence"))
        rc_all = {}
        for p in props:
            r = subprocess.run([os.path.join(VERIF, "check"), p], env=env, capture_output=True, text=True, cwd=VERIF)
            rc_all[p] = r.returncode
            out = r.stdout.strip().splitlines()
            print("== %s exit=%d" % (p, r.returncode))
            for l in (out if verbose else out[-6:]):
                print("   " + l[:300])
            if r.stderr.strip():
                print("   STDERR: " + r.stderr.strip()[-1500:])
        return 0
    finally:
        shutil.rmtree(tmp, ignore_errors=True)


if __name__ == "__main__":
    sys.exit(main())
