#!/bin/bash
# scratch.sh NAME PATCH — scratch copy of /repo with PATCH applied at /tmp/scr/NAME; prints the env to use
set -e
D=/tmp/scr/$1; rm -rf $D; mkdir -p $D/repo; rsync -a --exclude target --exclude .git /repo/ $D/repo/
patch -p1 -s --no-backup-if-mismatch -d $D/repo -i $(realpath $2)
echo "JL_REPO=$D/repo JL_EVIDENCE_DIR=$D/evidence JL_CACHE=/verif/.cache/scr"
