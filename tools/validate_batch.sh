#!/bin/bash
# validate_batch.sh DIR PREFIX — every DIR/*.diff must apply to /repo HEAD, compile (default, cmdline, python) and pass the unedited suite.
# Valid ones are copied to /verif/mutants/preserving/<PREFIX><n>.diff (+ .md).  Scratch copy under /tmp, removed at the end.
set -u
DIR=$1; PFX=$2
WT=$(mktemp -d /tmp/jl-valb-XXXX)
rsync -a --exclude .git /repo/ $WT/
for p in $(ls $DIR/*.diff | sort -V); do
  n=$(basename $p .diff)
  rsync -a --delete --exclude .git --exclude target /repo/ $WT/
  if ! patch -p1 -s --no-backup-if-mismatch -d $WT -i $p >/dev/null 2>&1; then echo "$PFX$n: DOES NOT APPLY"; continue; fi
  out=$(cd $WT && (cargo check --offline 2>&1; cargo check --offline --features cmdline 2>&1; cargo check --offline --features python 2>&1) | grep -E "^error" | head -3; cd $WT && cargo test --workspace --no-fail-fast --offline 2>&1 | grep -E "^test result|FAILED|^error" )
  nok=$(echo "$out" | grep -c "test result: ok")
  bad=$(echo "$out" | grep -cE "FAILED|^error")
  if [ "$nok" -ge 4 ] && [ "$bad" -eq 0 ]; then
    (cd $WT && diff -ruN --exclude target --exclude .git /repo/src src > /dev/null; true)
    cp $p /verif/mutants/preserving/$PFX$n.diff
    [ -f $DIR/$n.md ] && cp $DIR/$n.md /verif/mutants/preserving/$PFX$n.md
    echo "$PFX$n: valid"
  else
    echo "$PFX$n: INVALID ok-suites=$nok bad=$bad"
  fi
done
rm -rf $WT
