#!/bin/bash
# Each behaviour-preserving patch must compile (default + cmdline) and pass the unedited suite.
set -u
WT=/tmp/jl-pres-wt
rm -rf $WT; mkdir -p $WT; rsync -a --exclude .git /repo/ $WT/
for p in /verif/mutants/preserving/*.diff; do
  ( cd $WT && git init -q 2>/dev/null; true )
  rsync -a --exclude .git --exclude target /repo/ $WT/
  if ! patch -p1 -s -d $WT -i $p; then echo "$(basename $p): DOES NOT APPLY"; continue; fi
  out=$(cd $WT && cargo check --offline --features cmdline 2>&1 | grep -E "^error" | head -3; cargo test --workspace --no-fail-fast --offline 2>&1 | grep -E "^test result|FAILED|^error" )
  nok=$(echo "$out" | grep -c "test result: ok")
  bad=$(echo "$out" | grep -cE "FAILED|^error")
  echo "$(basename $p): ok-suites=$nok bad=$bad"
done
rm -rf $WT
