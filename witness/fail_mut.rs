//! Compile-FAIL witness (E4) for C17: must be rejected with E0308.
//! Twin of pass.rs differing only in the mutability of the first parameter:
//! if `apply` ever took its rule by `&mut`, this would start to compile.
use serde_json::Value;

fn takes_mut_rule<E>(_f: for<'a, 'b> fn(&'a mut Value, &'b Value) -> Result<Value, E>) {}

pub fn witness() {
    takes_mut_rule(jsonlogic_rs::apply);
}
