//! Compile-FAIL witness (E4) for C17: must be rejected with E0308 (data by `&mut`).
use serde_json::Value;

fn takes_mut_data<E>(_f: for<'a, 'b> fn(&'a Value, &'b mut Value) -> Result<Value, E>) {}

pub fn witness() {
    takes_mut_data(jsonlogic_rs::apply);
}
