//! Compile-pass witness (E4) for C17: types only, never run.
use serde_json::Value;

/// `apply` takes both inputs by shared reference, for any lifetimes, and its
/// error type can cross threads.
fn takes_shared<E: Send + Sync + 'static>(_f: for<'a, 'b> fn(&'a Value, &'b Value) -> Result<Value, E>) {}

/// A function item that is `Sync + Send + Copy` can be called from any thread
/// at once; together with `&Value: Send` (serde_json::Value is Sync) this is
/// what makes concurrent calls on shared inputs well-typed.
fn callable_from_threads<F: Fn(&Value, &Value) -> R + Send + Sync + Copy + 'static, R: Send + 'static>(_f: F) {}

fn value_is_shareable<T: Send + Sync>() {}

pub fn witness() {
    takes_shared(jsonlogic_rs::apply);
    callable_from_threads(jsonlogic_rs::apply);
    value_is_shareable::<Value>();
}
